"""Generic explicit-state breadth-first explorer over *event histories*.

A state is identified by the canonical form of the real objects reached by
replaying a history on fresh objects (live library objects hold RDKit molecules
and scipy splines and are not reliably copyable).  The transition function is
the real implementation; `step` must rebuild the source state itself.
"""
import collections


class BFS(object):
    def __init__(self, max_depth=None, max_states=None):
        self.max_depth = max_depth
        self.max_states = max_states
        self.seen = {}            # canon -> shortest history
        self.transitions = 0
        self.traces = 0           # histories executed on the real objects
        self.depth_reached = 0
        self.confluent_merges = 0  # transitions that reached a known state
        self.truncated = False
        self.edges = collections.Counter()

    def run(self, initial, events, step, visit=None):
        """initial: list of (history, canon).  events(history) -> iterable of
        events enabled after `history`.  step(history, event) ->
        canon-of-successor or None when the event leaves no successor to
        explore (rejected / violation already reported)."""
        frontier = collections.deque()
        for h, c in initial:
            if c not in self.seen:
                self.seen[c] = h
                frontier.append((h, 0))
        while frontier:
            h, d = frontier.popleft()
            self.depth_reached = max(self.depth_reached, d)
            if visit is not None:
                visit(h)        # observations on every state, also at the bound
            if self.max_depth is not None and d >= self.max_depth:
                self.truncated = True
                continue
            for ev in events(h):
                self.transitions += 1
                self.traces += 1
                c = step(h, ev)
                if c is None:
                    self.edges['no-successor'] += 1
                    continue
                if c in self.seen:
                    self.confluent_merges += 1
                    continue
                if self.max_states is not None and len(self.seen) >= self.max_states:
                    self.truncated = True
                    continue
                self.seen[c] = h + (ev,)
                frontier.append((h + (ev,), d + 1))
        return self
