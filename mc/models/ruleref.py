"""Reference model of unimolecular RING reaction rules (independent of pgradd).

A rule is (pattern, edits): pattern = list of (atom spec text, bond or None)
as in domains/fragments, edits = tuples:
  ('radinc', i) ('raddec', i) ('radset', i, n)
  ('break', i, j, kind|None) ('form', i, j, kind|None)
  ('inc', i, j) ('dec', i, j) ('modify', i, j, kind)
Own per-atom electron bookkeeping: for every labelled atom the change of
(sum of bond orders + radical electrons) must be zero.
"""
from rdkit import Chem

ORD = {'single': 1, 'double': 2, 'triple': 3, 'aromatic': 1.5}
OPEN_KINDS = ('any', 'nonring', 'ring', 'strong')     # pattern bonds of unknown order
BT = {1: Chem.BondType.SINGLE, 2: Chem.BondType.DOUBLE, 3: Chem.BondType.TRIPLE,
      4: Chem.BondType.QUADRUPLE, 5: Chem.BondType.QUINTUPLE, 1.5: Chem.BondType.AROMATIC}
ORDER_OF = {'SINGLE': 1, 'DOUBLE': 2, 'TRIPLE': 3, 'QUADRUPLE': 4, 'AROMATIC': 1.5}


def pattern_tables(atoms):
    """atoms: list of (spec, bond) with spec like 'C', 'C?', 'C.', bond =
    (kind, j) or None.  -> (bond order table {(i,j): order or None if the kind
    is not a definite order}, radicals [0 | 1 | None])"""
    bonds, rad = {}, []
    for i, (spec, bond) in enumerate(atoms):
        suf = spec[len(spec.rstrip('?.:+-')):]
        rad.append({'': 0, '.': 1, ':': 2, '?': None}.get(suf, None))
        if bond is not None:
            kind, j = bond
            bonds[(min(i, j), max(i, j))] = ORD.get(kind)
    return bonds, rad


def analyse(atoms, seq):
    """-> (status, balanced) with status in
       'judged'   : every edit is well defined on the evolving pattern
       'refusal'  : a documented refusal may apply (either verdict accepted)
       'open'     : ill-defined sequence, statement silent -> not judged"""
    orig, rad0 = pattern_tables(atoms)
    cur = dict(orig)
    rad = list(rad0)
    n = len(atoms)
    dbo = [0] * n        # change of bond-order sum
    drad = [0] * n
    status = 'judged'
    touched_open = set()
    for e in seq:
        k = e[0]
        if k == 'radinc':
            if rad[e[1]] is not None:
                rad[e[1]] += 1
            drad[e[1]] += 1
        elif k == 'raddec':
            if rad[e[1]] is None or rad[e[1]] < 1:
                return 'open', None
            rad[e[1]] -= 1
            drad[e[1]] -= 1
        elif k == 'radset':
            # judged when the pattern fixes the radical count and no earlier
            # edit of this sequence has moved it
            if rad[e[1]] is None or rad[e[1]] != rad0[e[1]]:
                return 'open', None
            drad[e[1]] += e[2] - rad[e[1]]
            rad[e[1]] = e[2]
        else:
            i, j = min(e[1], e[2]), max(e[1], e[2])
            if (i, j) in touched_open:
                return 'open', None
            if k == 'form':
                if (i, j) in cur:
                    return 'open', None
                o = ORD[e[3] or 'single']
                cur[(i, j)] = o
                dbo[i] += o
                dbo[j] += o
            elif k == 'break':
                if (i, j) not in cur:
                    return 'open', None
                want = ORD[e[3] or 'single']
                if cur[(i, j)] is None or (i, j) not in orig or orig[(i, j)] is None:
                    status = 'refusal'      # unspecified kind / formed earlier
                    o = cur[(i, j)] or 0
                elif orig[(i, j)] != want:
                    status = 'refusal'      # bond mismatch
                    o = cur[(i, j)]
                elif cur[(i, j)] != want:
                    return 'open', None     # order changed before the break
                else:
                    o = want
                del cur[(i, j)]
                dbo[i] -= o
                dbo[j] -= o
            elif k in ('inc', 'dec'):
                if (i, j) not in cur or (i, j) in touched_open:
                    return 'open', None
                step = 1 if k == 'inc' else -1
                if cur[(i, j)] is None:
                    # a pattern bond of unspecified order ('any bond', 'nonring
                    # bond' ...): the order changes by one whatever it is; the
                    # pair is not judged any further in this sequence
                    touched_open.add((i, j))
                elif cur[(i, j)] == 1.5 or (k == 'inc' and cur[(i, j)] >= 3):
                    return 'open', None
                else:
                    cur[(i, j)] += step
                    if cur[(i, j)] == 0:
                        del cur[(i, j)]
                dbo[i] += step
                dbo[j] += step
            elif k == 'modify':
                if (i, j) not in cur:
                    return 'open', None
                if cur[(i, j)] is None or (i, j) not in orig or orig[(i, j)] is None:
                    status = 'refusal'
                    old = cur[(i, j)] or 0
                elif cur[(i, j)] != orig[(i, j)]:
                    return 'open', None
                else:
                    old = cur[(i, j)]
                new = ORD[e[3]]
                cur[(i, j)] = new
                dbo[i] += new - old
                dbo[j] += new - old
    balanced = all(abs(dbo[a] + drad[a]) < 1e-9 for a in range(n))
    return status, balanced


def edit_text(e, lab):
    k = e[0]
    if k == 'radinc':
        return 'increase number of radical (%s)' % lab(e[1])
    if k == 'raddec':
        return 'decrease number of radical (%s)' % lab(e[1])
    if k == 'radset':
        return 'modify number of radical (%s, %d)' % (lab(e[1]), e[2])
    a, b = lab(e[1]), lab(e[2])
    if k == 'break':
        return 'break %sbond (%s,%s)' % ((e[3] + ' ') if e[3] else '', a, b)
    if k == 'form':
        return 'form %sbond (%s,%s)' % ((e[3] + ' ') if e[3] else '', a, b)
    if k == 'inc':
        return 'increase bond order (%s,%s)' % (a, b)
    if k == 'dec':
        return 'decrease bond order (%s,%s)' % (a, b)
    if k == 'modify':
        return 'modify bond (%s,%s,%s)' % (a, b, e[3])
    raise ValueError(e)


def pattern_text(atoms, lab):
    parts = []
    for i, (spec, bond) in enumerate(atoms):
        s = '%s labeled %s' % (spec, lab(i))
        if bond is not None:
            s += ' %s bond to %s' % (bond[0], lab(bond[1]))
        parts.append(s)
    return ' '.join(parts)


def rule_text(atoms, seq, name='x', lab=lambda i: 'a%d' % i):
    return 'rule %s{ reactant r1{ %s } %s }' % (
        name, pattern_text(atoms, lab), ' '.join(edit_text(e, lab) for e in seq))


def fragment_text(atoms, lab=lambda i: 'a%d' % i):
    return 'fragment r1{ %s }' % pattern_text(atoms, lab)


def apply_edits_rw(mol_h, match, seq):
    """Apply the edits to a copy of the hydrogen-explicit molecule."""
    rw = Chem.RWMol(mol_h)
    for e in seq:
        k = e[0]
        if k in ('radinc', 'raddec', 'radset'):
            a = rw.GetAtomWithIdx(match[e[1]])
            cur = a.GetNumRadicalElectrons()
            a.SetNumRadicalElectrons(cur + 1 if k == 'radinc' else cur - 1
                                     if k == 'raddec' else e[2])
            continue
        i, j = match[e[1]], match[e[2]]
        b = rw.GetBondBetweenAtoms(i, j)
        if k == 'break':
            rw.RemoveBond(i, j)
        elif k == 'form':
            rw.AddBond(i, j, BT[ORD[e[3] or 'single']])
        elif k == 'inc':
            o = ORDER_OF[str(b.GetBondType())]
            rw.RemoveBond(i, j)
            rw.AddBond(i, j, BT[o + 1])
        elif k == 'dec':
            o = ORDER_OF[str(b.GetBondType())]
            rw.RemoveBond(i, j)
            if o > 1:
                rw.AddBond(i, j, BT[o - 1])
        elif k == 'modify':
            rw.RemoveBond(i, j)
            rw.AddBond(i, j, BT[ORD[e[3]]])
    return rw


def apply_edits(mol_h, match, seq):
    """-> the product set as a sorted tuple of canonical SMILES of its
    fragments."""
    rw = apply_edits_rw(mol_h, match, seq)
    return product_key(Chem.GetMolFrags(rw, asMols=True, sanitizeFrags=False))


def species_key(frag):
    """Canonical SMILES of a hydrogen-explicit fragment that also carries the
    radical-electron count of every atom (with all hydrogens explicit the
    plain SMILES text does not show it): radicals are written as isotope
    labels 100+n on a copy before canonicalisation."""
    m = Chem.Mol(frag)
    for a in m.GetAtoms():
        n = a.GetNumRadicalElectrons()
        if n:
            a.SetIsotope(100 + n)
    return Chem.MolToSmiles(m)


def product_key(frags):
    return tuple(sorted(species_key(f) for f in frags))


def element_counts(mols):
    c = {}
    for m in mols:
        for a in m.GetAtoms():
            c[a.GetAtomicNum()] = c.get(a.GetAtomicNum(), 0) + 1
    return c
