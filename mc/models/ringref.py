"""Independent RING fragment reader + matcher (reference model).

Own recursive-descent reader for RING fragments; own injective backtracking
matcher over a plain graph snapshot (Z, charge, radicals, aromatic flag, ring
memberships, bond type / in-ring).  Imports nothing from pgradd.
"""
import re, itertools
from rdkit import Chem

KW_PREFIX_CHARGE = ['positive', 'negative', 'neutral']
KW_PREFIX_KIND = ['aromatic', 'olefinic', 'paraffinic']
KW_PREFIX_TOPO = ['cyclic', 'linear']
ATOM_PREFIX = ['nonaromatic', 'aromatic', 'nonringatom', 'ringatom', 'allylic']
SYMBOL_CLASSES = ['any atom', 'heavy atom', 'heteroatom', '$', '&', 'X']
SUFFIXES = ['+.', '-.', ':.', '+', '-', '.', ':', '*', '?']
BONDS = ['single', 'double', 'triple', 'quadruple', 'nonring', 'ring', 'aromatic', 'any', 'strong', 'partial']
OPS = ['>=', '<=', '>', '<', '=']


class RefSyntaxError(Exception):
    pass


class P:
    def __init__(self, s):
        self.s = s
        self.i = 0
        self.ws()

    def ws(self):
        while self.i < len(self.s) and self.s[self.i] in ' \n\t':
            self.i += 1

    def lit(self, t):
        if self.s.startswith(t, self.i):
            self.i += len(t)
            self.ws()
            return True
        return False

    def need(self, t):
        if not self.lit(t):
            raise RefSyntaxError('expected %r at %d' % (t, self.i))

    def one_of(self, opts):
        for o in sorted(opts, key=len, reverse=True):
            if self.lit(o):
                return o
        return None

    def ident(self):
        m = re.compile(r'[A-Za-z0-9_]+').match(self.s, self.i)
        if not m:
            raise RefSyntaxError('expected identifier at %d' % self.i)
        self.i = m.end()
        self.ws()
        return m.group(0)

    def digit(self):
        if self.i < len(self.s) and self.s[self.i].isdigit():
            d = int(self.s[self.i])
            self.i += 1
            self.ws()
            return d
        raise RefSyntaxError('expected digit at %d' % self.i)


def parse_atomtype(p):
    save = p.i
    pre = p.one_of(ATOM_PREFIX)
    sym = p.one_of(SYMBOL_CLASSES)
    if sym is None:
        # a prefix keyword could actually be the start of an identifier; the
        # implementation is PEG/greedy so we mirror: prefix literal first.
        sym = p.ident()
    suf = p.one_of(SUFFIXES)
    return dict(prefix=pre, symbol=sym, suffix=suf)


def parse_cnum(p, required):
    op = p.one_of(OPS)
    save = p.i
    try:
        n = p.digit()
    except RefSyntaxError:
        if op is None and not required:
            p.i = save
            return None
        raise
    return (op or '=', n)


def parse_constraint(p):
    neg = False
    b = p.one_of(['||', '&&', '!', '+', '-'])
    if b is not None:
        if b != '!':
            raise NotImplementedError(b)
        neg = True
    if p.lit('connected to'):
        save = p.i
        cn = None
        op = p.one_of(OPS)
        if op is not None:
            cn = (op, p.digit())
        else:
            # a bare digit is a count ('connected to 2 C')
            if p.i < len(p.s) and p.s[p.i].isdigit():
                cn = ('=', p.digit())
        if p.lit('group'):
            raise NotImplementedError('group')
        at = parse_atomtype(p)
        bond = None
        if p.lit('with'):
            bond = p.one_of(BONDS)
            if bond is None:
                raise RefSyntaxError('bond type')
            p.need('bond')
        return dict(kind='conn', neg=neg, cn=cn or ('>=', 1), atom=at, bond=bond or 'single')
    if p.lit('in ring of size'):
        cn = parse_cnum(p, True)
        return dict(kind='ringsize', neg=neg, cn=cn)
    if p.lit('has'):
        cn = parse_cnum(p, True)
        p.need('radical electrons')
        return dict(kind='radical', neg=neg, cn=cn)
    if p.lit('in'):
        cn = parse_cnum(p, True)
        p.need('ring')
        return dict(kind='nring', neg=neg, cn=cn)
    raise RefSyntaxError('constraint at %d' % p.i)


def parse_constraints(p):
    cs = []
    if p.lit('{'):
        cs.append(parse_constraint(p))
        while p.lit(','):
            cs.append(parse_constraint(p))
        p.need('}')
    return cs


def parse_fragment(text):
    p = P(text)
    molpre = []
    for grp in (KW_PREFIX_CHARGE, KW_PREFIX_KIND, KW_PREFIX_TOPO):
        k = p.one_of(grp)
        if k:
            molpre.append(k)
    p.need('fragment')
    name = p.ident()
    p.need('{')
    atoms = []   # dict(type, label, constraints)
    bonds = []   # (i, j, kind)
    stereo = []
    labels = {}

    def lab(l):
        if l not in labels:
            raise KeyError('undefined label ' + l)
        return labels[l]
    first = True
    while True:
        if p.lit('}'):
            break
        if p.lit('ringbond'):
            a = p.ident()
            kind = p.one_of(BONDS)
            p.need('bond to')
            b = p.ident()
            bonds.append((lab(a), lab(b), kind))
            continue
        if p.lit('stereo double bond'):
            a = p.ident()
            neg = False
            if p.lit('!'):
                neg = True
            st = p.one_of(['cis', 'trans', 'notspecified'])
            p.need('to')
            b = p.ident()
            p.need('for double bond between')
            c = p.ident()
            p.need('and')
            d = p.ident()
            stereo.append((lab(a), lab(b), lab(c), lab(d), neg, st))
            continue
        at = parse_atomtype(p)
        p.need('labeled')
        l = p.ident()
        idx = len(atoms)
        if not first:
            kind = p.one_of(BONDS)
            if kind is None:
                raise RefSyntaxError('bond kind at %d' % p.i)
            p.need('bond to')
            other = p.ident()
            j = lab(other)
            bonds.append((idx, j, kind))
        labels[l] = idx     # (later duplicate label shadows; generator avoids)
        cs = parse_constraints(p)
        atoms.append(dict(type=at, label=l, cons=cs))
        first = False
    if p.i != len(p.s):
        raise RefSyntaxError('trailing text')
    if not atoms:
        raise RefSyntaxError('empty')
    return dict(molprefix=molpre, name=name, atoms=atoms, bonds=bonds, stereo=stereo)


# ---------------------------------------------------------------- graph

class G:
    """Plain graph snapshot of an RDKit molecule (after AddHs)."""
    def __init__(self, mol):
        self.mol = mol
        self.n = mol.GetNumAtoms()
        self.Z = [a.GetAtomicNum() for a in mol.GetAtoms()]
        self.q = [a.GetFormalCharge() for a in mol.GetAtoms()]
        self.rad = [a.GetNumRadicalElectrons() for a in mol.GetAtoms()]
        self.arom = [a.GetIsAromatic() for a in mol.GetAtoms()]
        self.adj = [dict() for _ in range(self.n)]
        ri = mol.GetRingInfo()
        self.rings = [tuple(r) for r in ri.AtomRings()]
        self.bondrings = [set(r) for r in ri.BondRings()]
        for b in mol.GetBonds():
            i, j = b.GetBeginAtomIdx(), b.GetEndAtomIdx()
            inring = any(b.GetIdx() in br for br in self.bondrings)
            info = (str(b.GetBondType()), inring)
            self.adj[i][j] = info
            self.adj[j][i] = info
        self.inring = [any(i in r for r in self.rings) for i in range(self.n)]


def cmpnum(cn, v):
    op, n = cn
    return {'=': v == n, '>': v > n, '<': v < n, '>=': v >= n, '<=': v <= n}[op]


def bond_ok(kind, info):
    t, inring = info
    if kind == 'any':
        return True
    if kind in ('single', 'double', 'triple', 'quadruple', 'aromatic'):
        return t == kind.upper()
    if kind == 'ring':
        return inring
    if kind == 'nonring':
        return not inring
    if kind == 'strong':
        return t in ('DOUBLE', 'TRIPLE', 'QUADRUPLE', 'AROMATIC')
    if kind == 'partial':
        return t in ('DATIVE', 'OTHER', 'ZERO')
    raise ValueError(kind)


HETERO = {7, 8, 15, 16}
PT = Chem.GetPeriodicTable()


def element_ok(sym, z):
    if sym in ('any atom', '$'):
        return z > 0
    if sym in ('heteroatom', '&'):
        return z in HETERO
    if sym in ('heavy atom', 'X'):
        return z > 1
    if sym == 'M':
        return z > 19
    if sym[0].islower():
        sym = sym[0].upper() + sym[1:]
    return z == PT.GetAtomicNumber(sym)


def atomtype_ok(at, g, i):
    if not element_ok(at['symbol'], g.Z[i]):
        return False
    if at['symbol'][0].islower() and at['symbol'] not in SYMBOL_CLASSES and not g.arom[i]:
        return False
    s = at['suffix']
    if s is None:
        if g.q[i] != 0 or g.rad[i] != 0:
            return False
    elif s == '+':
        if g.q[i] != 1:
            return False
    elif s == '-':
        if g.q[i] != -1:
            return False
    elif s == '.':
        if g.rad[i] != 1:
            return False
    elif s == ':':
        if g.rad[i] != 2:
            return False
    elif s == ':.':
        if g.rad[i] != 3:
            return False
    elif s == '+.':
        if g.q[i] != 1 or g.rad[i] != 1:
            return False
    elif s == '-.':
        if g.q[i] != -1 or g.rad[i] != 1:
            return False
    elif s == '?':
        pass
    else:
        raise NotImplementedError(s)
    p = at['prefix']
    if p == 'aromatic' and not g.arom[i]:
        return False
    if p == 'nonaromatic' and g.arom[i]:
        return False
    if p == 'ringatom' and not g.inring[i]:
        return False
    if p == 'nonringatom' and g.inring[i]:
        return False
    if p == 'allylic' and not any(t == 'DOUBLE' for (t, _) in g.adj[i].values()):
        return False
    return True


def constraint_ok(c, g, i):
    k = c['kind']
    if k == 'conn':
        cnt = sum(1 for j, info in g.adj[i].items()
                  if atomtype_ok(c['atom'], g, j) and bond_ok(c['bond'], info))
        r = cmpnum(c['cn'], cnt)
    elif k == 'ringsize':
        r = any(cmpnum(c['cn'], len(ring)) for ring in g.rings if i in ring)
    elif k == 'nring':
        r = cmpnum(c['cn'], sum(1 for ring in g.rings if i in ring))
    elif k == 'radical':
        r = cmpnum(c['cn'], g.rad[i])
    else:
        raise ValueError(k)
    return (not r) if c['neg'] else r


def molprefix_ok(pre, g):
    for k in pre:
        tot = sum(g.q)
        if k == 'positive' and tot != 1: return False
        if k == 'negative' and tot != -1: return False
        if k == 'neutral' and tot != 0: return False
        if k == 'aromatic' and not any(g.arom): return False
        cc = any(g.Z[i] == 6 and g.Z[j] == 6 and info[0] == 'DOUBLE'
                 for i in range(g.n) for j, info in g.adj[i].items())
        if k == 'olefinic' and not cc: return False
        if k == 'paraffinic' and cc: return False
        if k == 'cyclic' and not g.rings: return False
        if k == 'linear' and g.rings: return False
    return True


def stereo_ok(frag, match, m):
    for (a, b, c, d, neg, st) in frag['stereo']:
        i1, i2, i3, i4 = match[a], match[b], match[c], match[d]
        bond = m.GetBondBetweenAtoms(i3, i4)
        stereo = str(bond.GetStereo())
        want = {'cis': 'STEREOZ', 'trans': 'STEREOE',
                'notspecified': 'STEREONONE'}[st]
        if stereo != 'STEREONONE':
            n = len(set(bond.GetStereoAtoms()) & {i1, i2})
            if n == 1:
                stereo = {'STEREOZ': 'STEREOE',
                          'STEREOE': 'STEREOZ'}.get(stereo, stereo)
        ok = (stereo == want)
        if neg:
            ok = not ok
        if not ok:
            return False
    return True


def ref_matches(frag, mol_with_hs):
    return ref_matches_g(frag, G(mol_with_hs))


def ref_matches_g(frag, g, stats=None):
    """All injective assignments, in declaration order, as a list of tuples.
    stats (optional dict) receives 'relaxed': True when every fragment atom
    has at least one candidate by element class alone (so that constraints,
    suffixes, prefixes or bonds - not the vocabulary - decide the result)."""
    atoms = frag['atoms']
    k = len(atoms)
    if stats is not None:
        stats['relaxed'] = all(
            any(element_ok(a['type']['symbol'], z) for z in g.Z) for a in atoms)
    if not molprefix_ok(frag['molprefix'], g):
        return []
    cand = []
    for a in atoms:
        cand.append([i for i in range(g.n) if atomtype_ok(a['type'], g, i)
                     and all(constraint_ok(c, g, i) for c in a['cons'])])
    bonds_by_hi = {}
    for (i, j, kind) in frag['bonds']:
        bonds_by_hi.setdefault(max(i, j), []).append((i, j, kind))
    out = []
    assign = []

    def rec(pos):
        if pos == k:
            if stereo_ok(frag, assign, g.mol):
                out.append(tuple(assign))
            return
        for c in cand[pos]:
            if c in assign:
                continue
            ok = True
            assign.append(c)
            for (i, j, kind) in bonds_by_hi.get(pos, []):
                a, b = assign[i], assign[j]
                info = g.adj[a].get(b)
                if info is None or not bond_ok(kind, info):
                    ok = False
                    break
            if ok:
                rec(pos + 1)
            assign.pop()
    rec(0)
    return out
