"""Reference units algebra, written from the SI / customary definitions (not
from pgradd/Units/builtin.py): a value is (magnitude: float, exponents:
7-tuple of Fraction over m kg s A K mol cd).

Grammar (the documented one):
    expr   := factor { ('*' | '/' | <juxtaposition>) factor }   left-assoc
    factor := base [ '^' power ]
    base   := '(' expr ')' | number | name
    power  := number | '(' number ')'
    number := -?[.0-9]+            name := [A-Za-z]+
Name resolution: exact name, then one-letter SI prefix, then 'da'.
"""
import re
from fractions import Fraction as Fr

DIMS = ('m', 'kg', 's', 'A', 'K', 'mol', 'cd')


class RefParseError(Exception):
    pass


class RefUnsupported(Exception):
    """The statement leaves this open (division by zero, ...)."""


def U(mag, **e):
    return (float(mag), tuple(Fr(e.get(d, 0)) for d in DIMS))


NA = 6.02214076e23
IN = 0.0254
LBF = 0.45359237 * 9.80665
TABLE = {
    # base
    'm': U(1, m=1), 'g': U(1e-3, kg=1), 's': U(1, s=1), 'A': U(1, A=1),
    'K': U(1, K=1), 'mol': U(1, mol=1), 'cd': U(1, cd=1),
    # derived SI
    'N': U(1, m=1, kg=1, s=-2), 'Pa': U(1, m=-1, kg=1, s=-2),
    'J': U(1, m=2, kg=1, s=-2), 'W': U(1, m=2, kg=1, s=-3),
    'C': U(1, s=1, A=1), 'V': U(1, m=2, kg=1, s=-3, A=-1),
    'F': U(1, m=-2, kg=-1, s=4, A=2), 'Ohm': U(1, m=2, kg=1, s=-3, A=-2),
    # customary
    'molecule': U(1 / NA, mol=1),
    'in': U(IN, m=1), 'ft': U(12 * IN, m=1),
    'L': U(1e-3, m=3),
    'min': U(60, s=1), 'h': U(3600, s=1),
    'u': U(1.66053906660e-27, kg=1), 'lb': U(0.45359237, kg=1),
    't': U(1000, kg=1),
    'dyn': U(1e-5, m=1, kg=1, s=-2), 'lbf': U(LBF, m=1, kg=1, s=-2),
    'bar': U(1e5, m=-1, kg=1, s=-2), 'atm': U(101325, m=-1, kg=1, s=-2),
    'torr': U(101325.0 / 760, m=-1, kg=1, s=-2),
    'psi': U(LBF / IN ** 2, m=-1, kg=1, s=-2),
    'cal': U(4.184, m=2, kg=1, s=-2), 'erg': U(1e-7, m=2, kg=1, s=-2),
    # thermochemical BTU (consistent with the thermochemical calorie above)
    'BTU': U(1054.3502644888, m=2, kg=1, s=-2),
    'eV': U(1.602176634e-19, m=2, kg=1, s=-2),
    'hp': U(33000 * 12 * IN * LBF / 60, m=2, kg=1, s=-3),
    'P': U(0.1, m=-1, kg=1, s=-1), 'St': U(1e-4, m=2, s=-1),
}
PREFIX = {'Y': 1e24, 'Z': 1e21, 'E': 1e18, 'P': 1e15, 'T': 1e12, 'G': 1e9,
          'M': 1e6, 'k': 1e3, 'h': 1e2, 'da': 1e1, 'd': 1e-1, 'c': 1e-2,
          'm': 1e-3, 'u': 1e-6, 'n': 1e-9, 'p': 1e-12, 'f': 1e-15,
          'a': 1e-18, 'z': 1e-21, 'y': 1e-24}
ZERO = tuple(Fr(0) for _ in DIMS)


def lookup(name):
    if name in TABLE:
        return TABLE[name]
    if name[1:] in TABLE and name[:1] in PREFIX:
        m, e = TABLE[name[1:]]
        return (PREFIX[name[:1]] * m, e)
    if name[2:] in TABLE and name[:2] in PREFIX:
        m, e = TABLE[name[2:]]
        return (PREFIX[name[:2]] * m, e)
    raise RefParseError('unknown unit %r' % name)


def mul(a, b):
    return (a[0] * b[0], tuple(x + y for x, y in zip(a[1], b[1])))


def div(a, b):
    if b[0] == 0:
        raise RefUnsupported('division by zero')
    return (a[0] / b[0], tuple(x - y for x, y in zip(a[1], b[1])))


def power(a, p):
    if a[0] < 0 and Fr(p).denominator != 1:
        raise RefUnsupported('fractional power of a negative number')
    if a[0] == 0 and p < 0:
        raise RefUnsupported('negative power of zero')
    pf = Fr(p).limit_denominator(10 ** 6)
    return (a[0] ** float(p), tuple(x * pf for x in a[1]))


_TOK = re.compile(r'-?[.0-9]+|[a-zA-Z]+|\S')


def tokenize(text):
    if not text.isascii():
        raise RefUnsupported('non-ASCII text')
    return _TOK.findall(text)


_NUM = re.compile(r'-?(\d+\.?\d*|\.\d+)$')


def _number(tok):
    if tok is None or not _NUM.match(tok):
        raise RefParseError('expected number, got %r' % (tok,))
    return Fr(tok) if '.' not in tok else Fr(tok)


class Parser(object):
    def __init__(self, text):
        self.t = tokenize(text)
        self.i = 0

    def peek(self):
        return self.t[self.i] if self.i < len(self.t) else None

    def take(self):
        tok = self.peek()
        if tok is not None:
            self.i += 1
        return tok

    def parse(self):
        v = self.expr()
        if self.peek() is not None:
            raise RefParseError('unexpected %r' % self.peek())
        return v

    def expr(self):
        v = self.factor()
        while True:
            nxt = self.peek()
            if nxt is None:
                return v
            if nxt in ('*', '/'):
                self.take()
                w = self.factor()
                v = mul(v, w) if nxt == '*' else div(v, w)
            elif nxt == '(' or nxt.isalpha() or _NUM.match(nxt):
                # juxtaposition; a token that can start a factor commits
                save = self.i
                try:
                    w = self.factor()
                except RefParseError:
                    self.i = save
                    return v
                v = mul(v, w)
            else:
                return v

    def factor(self):
        b = self.base()
        if self.peek() == '^':
            self.take()
            tok = self.take()
            if tok == '(':
                p = _number(self.take())
                if self.take() != ')':
                    raise RefParseError('expected )')
            else:
                p = _number(tok)
            return power(b, p)
        return b

    def base(self):
        tok = self.peek()
        if tok is None:
            raise RefParseError('unexpected end')
        if tok == '(':
            self.take()
            v = self.expr()
            if self.take() != ')':
                raise RefParseError('expected )')
            return v
        if _NUM.match(tok):
            self.take()
            return (float(_number(tok)), ZERO)
        if tok.isalpha():
            self.take()
            return lookup(tok)
        raise RefParseError('unexpected %r' % tok)


def evaluate(text):
    """-> (magnitude, exponents) | raises RefParseError | RefUnsupported."""
    return Parser(text).parse()


def dim_of(name):
    return lookup(name)[1]
