"""Reference breadth-first closure of seed molecules under unimolecular rules.

Species identity: canonical SMILES with all hydrogens explicit.  SMARTS rules
are applied with RDKit's RunReactants (trusted base), RING rules with
ringref's matcher + ruleref's edit applier.  The valence filter is the stated
one: a product containing an atom whose total valence exceeds the default
valence of its element is discarded.
"""
import collections

from rdkit import Chem
from rdkit.Chem.AllChem import ReactionFromSmarts

from . import ringref, ruleref

PT = Chem.GetPeriodicTable()


def prep(smi):
    m = Chem.AddHs(Chem.MolFromSmiles(smi))
    for a in m.GetAtoms():
        a.SetNoImplicit(True)
    return m


def tidy(p):
    for a in p.GetAtoms():
        a.SetNoImplicit(True)
        a.UpdatePropertyCache(strict=False)
    Chem.AssignRadicals(p)
    return p


def overvalent(p):
    return any(PT.GetDefaultValence(a.GetAtomicNum()) < a.GetTotalValence()
               for a in p.GetAtoms())


class SmartsRule(object):
    def __init__(self, smarts):
        self.rx = ReactionFromSmarts(smarts)

    def products(self, m):
        return [list(ps) for ps in self.rx.RunReactants((m,))]


class RingRule(object):
    def __init__(self, atoms, seq):
        self.atoms, self.seq = atoms, seq
        self.frag = ringref.parse_fragment(ruleref.fragment_text(atoms))

    def products(self, m):
        out = []
        for mt in ringref.ref_matches_g(self.frag, ringref.G(m)):
            rw = ruleref.apply_edits_rw(m, mt, self.seq)
            out.append(list(Chem.GetMolFrags(rw, asMols=True, sanitizeFrags=False)))
        return out


def closure(seeds, rules, max_species=5000):
    """-> (sorted list of H-suppressed canonical SMILES, n_species,
    n_transitions)."""
    seen = {}
    todo = collections.deque()
    for s in seeds:
        m = prep(s)
        k = Chem.MolToSmiles(m)
        if k not in seen:
            seen[k] = m
            todo.append(m)
    ntrans = 0
    while todo:
        m = todo.popleft()
        for r in rules:
            for ps in r.products(m):
                ntrans += 1
                for p in ps:
                    tidy(p)
                    if overvalent(p):
                        continue
                    k = Chem.MolToSmiles(p)
                    if k not in seen:
                        if len(seen) >= max_species:
                            raise OverflowError('closure too large')
                        seen[k] = p
                        todo.append(p)
    return sorted(present(m) for m in seen.values()), len(seen), ntrans


def present(m):
    """The form in which a species is reported: hydrogens removed."""
    q = Chem.RemoveHs(m, sanitize=False)
    try:
        Chem.SanitizeMol(q)
    except Exception:      # noqa
        pass
    return Chem.MolToSmiles(q)
