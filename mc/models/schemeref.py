"""Independent interpreter of scheme.yaml files (reference for C02-C04).

A scheme is read with yaml.safe_load; its fragments with models/ringref.py.
Semantics implemented from the statement:
  * every atom is classified by the ONE centre pattern entry whose match set
    contains it in first position (none or several -> RefPatternMatchError);
  * every atom with a named centre contributes one group: centre name +
    sorted multiset of its neighbours' peripheral names ('none' excluded);
  * every correction descriptor counts the DISTINCT SETS of matched atoms;
  * remaps are applied once, linearly.
Imports nothing from pgradd.
"""
import collections

import yaml
from rdkit import Chem

from . import ringref


class RefPatternMatchError(Exception):
    pass


class RefBadInput(Exception):
    pass


def load_scheme(path):
    with open(path) as f:
        d = yaml.safe_load(f)
    return scheme_from_dict(d)


def scheme_from_dict(d):
    S = dict(patterns=[], descriptors=[], remaps=d.get('remaps') or {},
             unsupported=[])
    for p in d['patterns']:
        S['patterns'].append((p['center_name'], p['periph_name'],
                              ringref.parse_fragment(p['connectivity'])))
    for p in d.get('other_descriptors') or []:
        S['descriptors'].append((p['name'],
                                 ringref.parse_fragment(p['connectivity'])))
    for k in ('smiles_based_descriptors', 'smarts_based_descriptors'):
        if d.get(k):
            S['unsupported'].append(k)
    return S


def normalise_mol(m):
    """The stated input normalisation, on a copy: add H, Kekulise, weak bonds,
    Benson perception of alternating all-carbon six-rings (ring after ring in
    SSSR order on the current bond types).  Returns (mol, fused) where fused
    is True when two candidate six-rings share a bond, i.e. the outcome of
    the sequential perception depends on ring order / Kekule structure."""
    m = Chem.AddHs(Chem.Mol(m))
    Chem.Kekulize(m)
    for b in m.GetBonds():
        if str(b.GetBondType()) == 'UNSPECIFIED':
            b.SetBondType(Chem.BondType.ZERO)
    rings = [list(r) for r in Chem.GetSymmSSSR(m)]
    six = [r for r in rings if len(r) == 6 and
           all(m.GetAtomWithIdx(i).GetSymbol() == 'C' for i in r)]

    def ring_bonds(r):
        return [m.GetBondBetweenAtoms(r[i], r[(i + 1) % 6]).GetIdx() for i in range(6)]
    fused = False
    for a in range(len(six)):
        for b in range(a + 1, len(six)):
            if set(ring_bonds(six[a])) & set(ring_bonds(six[b])):
                ta = [str(m.GetBondWithIdx(i).GetBondType()) for i in ring_bonds(six[a])]
                tb = [str(m.GetBondWithIdx(i).GetBondType()) for i in ring_bonds(six[b])]
                if ta.count('DOUBLE') >= 2 and tb.count('DOUBLE') >= 2:
                    fused = True
    for r in six:
        types = [str(m.GetBondBetweenAtoms(r[i], r[(i + 1) % 6]).GetBondType())
                 for i in range(6)]
        if types in (['SINGLE', 'DOUBLE'] * 3, ['DOUBLE', 'SINGLE'] * 3):
            for i in range(6):
                b = m.GetBondBetweenAtoms(r[i], r[(i + 1) % 6])
                b.SetBondType(Chem.BondType.AROMATIC)
                b.SetIsAromatic(True)
                b.SetIsConjugated(True)
                m.GetAtomWithIdx(r[i]).SetIsAromatic(True)
    return m, fused


def normalise(smiles):
    m = Chem.MolFromSmiles(smiles)
    if m is None:
        raise RefBadInput(smiles)
    return normalise_mol(m)


def classify(S, m):
    """-> list of (centre name, peripheral name) per atom."""
    g = ringref.G(m)
    n = m.GetNumAtoms()
    centre = [None] * n
    for (cn, pn, frag) in S['patterns']:
        firsts = sorted(set(mt[0] for mt in ringref.ref_matches_g(frag, g)))
        for i in firsts:
            if centre[i] is not None:
                raise RefPatternMatchError('atom %d matched by two centre '
                                           'patterns (%s, %s)' % (i, centre[i][0], cn))
            centre[i] = (cn, pn)
    for i in range(n):
        if centre[i] is None:
            raise RefPatternMatchError('atom %d (%s) matched by no centre pattern'
                                       % (i, m.GetAtomWithIdx(i).GetSymbol()))
    return centre, g


def group_name(cn, periphs):
    per = collections.Counter(periphs)
    return cn + ''.join('(%s)' % k + ('%d' % v if v > 1 else '')
                        for k, v in sorted(per.items()))


def decompose_mol(S, m):
    """m: normalised molecule.  -> (totals dict, per-atom [(centre, periph,
    group or None)])"""
    centre, g = classify(S, m)
    n = m.GetNumAtoms()
    groups = collections.Counter()
    per_atom = []
    for i in range(n):
        cn, pn = centre[i]
        if cn == 'none':
            per_atom.append((cn, pn, None))
            continue
        per = [centre[nb.GetIdx()][1] for nb in m.GetAtomWithIdx(i).GetNeighbors()
               if centre[nb.GetIdx()][1] != 'none']
        name = group_name(cn, per)
        groups[name] += 1
        per_atom.append((cn, pn, name))
    dsc = collections.Counter()
    for (name, frag) in S['descriptors']:
        sets = set(frozenset(mt) for mt in ringref.ref_matches_g(frag, g))
        if sets:
            dsc[name] += len(sets)

    def remap(cnt):
        res = collections.Counter()
        for k, v in cnt.items():
            if k in S['remaps']:
                for coef, tgt in S['remaps'][k]:
                    res[tgt] += v * coef
            else:
                res[k] += v
        return res
    tot = dict(remap(groups))
    clash = False
    for k, v in remap(dsc).items():
        if k in tot:
            clash = True     # a descriptor named like a group: the counts add
        tot[k] = tot.get(k, 0) + v
    return tot, per_atom, clash


def decompose(S, smiles):
    m, fused = normalise(smiles)
    tot, per_atom, clash = decompose_mol(S, m)
    return tot, per_atom, fused, clash


def add(d1, d2):
    out = collections.Counter()
    for d in (d1, d2):
        for k, v in d.items():
            out[k] += v
    return dict(out)
