"""Reference thermodynamics (independent of pgradd and of scipy).

* closed-form H/RT, S/R for Cp tables sampled from a polynomial, with constant
  continuation outside the tabulated span;
* composite Gauss-Legendre quadrature (nodes computed here by Newton
  iteration), split at every knot and at the table ends, of an arbitrary Cp(T)
  callable;
* linear combination, range intersection, pure-Python quadratic form,
  Jacobi eigenvalues.
"""
import math


def _leggauss(n):
    xs, ws = [], []
    for i in range(1, n + 1):
        x = math.cos(math.pi * (i - 0.25) / (n + 0.5))
        for _ in range(100):
            p0, p1 = 1.0, x
            for k in range(2, n + 1):
                p0, p1 = p1, ((2 * k - 1) * x * p1 - (k - 1) * p0) / k
            dp = n * (x * p1 - p0) / (x * x - 1.0)
            dx = p1 / dp
            x -= dx
            if abs(dx) < 1e-16:
                break
        p0, p1 = 1.0, x
        for k in range(2, n + 1):
            p0, p1 = p1, ((2 * k - 1) * x * p1 - (k - 1) * p0) / k
        dp = n * (x * p1 - p0) / (x * x - 1.0)
        xs.append(x)
        ws.append(2.0 / ((1.0 - x * x) * dp * dp))
    return xs, ws


_GL = _leggauss(24)


def gl(f, a, b):
    """24-point Gauss-Legendre on [a, b] (exact for polynomials of degree 47)."""
    if a == b:
        return 0.0
    xs, ws = _GL
    h, m = 0.5 * (b - a), 0.5 * (a + b)
    return h * math.fsum(w * f(m + h * x) for x, w in zip(xs, ws))


def integrate(f, a, b, breaks):
    """int_a^b f, split at every break point inside (a, b); each piece is
    further halved so that Cp(T)/T (analytic on a piece) is resolved to
    ~1e-14 for pieces up to a few hundred kelvin."""
    sign = 1.0
    if a > b:
        a, b, sign = b, a, -1.0
    pts = sorted(set([a, b] + [x for x in breaks if a < x < b]))
    tot = []
    for u, v in zip(pts[:-1], pts[1:]):
        n = max(1, int(math.ceil((v - u) / 60.0)))
        for k in range(n):
            tot.append(gl(f, u + (v - u) * k / n, u + (v - u) * (k + 1) / n))
    return sign * math.fsum(tot)


# ------------------------------------------------------ polynomial tables

def poly_eval(c, T):
    return sum(ci * T ** i for i, ci in enumerate(c))


def _int_c(c, a, b):
    return math.fsum(ci * (b ** (i + 1) - a ** (i + 1)) / (i + 1)
                     for i, ci in enumerate(c))


def _int_c_over_t(c, a, b):
    return c[0] * math.log(b / a) + math.fsum(
        ci * (b ** i - a ** i) / i for i, ci in enumerate(c) if i > 0)


class PolyTable(object):
    """Cp/R = polynomial c on [T0, Tn], held at the end values outside."""

    def __init__(self, c, T0, Tn):
        self.c, self.T0, self.Tn = list(c), T0, Tn
        self.c_lo = [poly_eval(c, T0)]
        self.c_hi = [poly_eval(c, Tn)]

    def cp(self, T):
        if T < self.T0:
            return self.c_lo[0]
        if T > self.Tn:
            return self.c_hi[0]
        return poly_eval(self.c, T)

    def _pieces(self, a, b, f):
        sign = 1.0
        if a > b:
            a, b, sign = b, a, -1.0
        tot = 0.0
        for x, y, cc in ((-math.inf, self.T0, self.c_lo),
                         (self.T0, self.Tn, self.c),
                         (self.Tn, math.inf, self.c_hi)):
            u, v = max(a, x), min(b, y)
            if v > u:
                tot += f(cc, u, v)
        return sign * tot

    def int_cp(self, a, b):
        return self._pieces(a, b, _int_c)

    def int_cp_over_t(self, a, b):
        return self._pieces(a, b, _int_c_over_t)


# ------------------------------------------------------ combination helpers

def intersect(ranges):
    """Intersection of the ranges that are not None; None if there is none."""
    rs = [r for r in ranges if r is not None]
    if not rs:
        return None
    return (max(r[0] for r in rs), min(r[1] for r in rs))


def quad_form(x, M):
    n = len(x)
    return math.fsum(x[i] * M[i][j] * x[j] for i in range(n) for j in range(n))


def jacobi_min_eig(M, sweeps=60):
    """Smallest eigenvalue of a symmetric matrix by cyclic Jacobi rotations."""
    n = len(M)
    A = [list(map(float, row)) for row in M]
    for _ in range(sweeps):
        off = math.sqrt(sum(A[i][j] ** 2 for i in range(n) for j in range(n)
                            if i != j))
        if off < 1e-13 * max(1.0, max(abs(A[i][i]) for i in range(n))):
            break
        for p in range(n):
            for q in range(p + 1, n):
                if abs(A[p][q]) < 1e-300:
                    continue
                th = (A[q][q] - A[p][p]) / (2.0 * A[p][q])
                t = (1.0 if th >= 0 else -1.0) / (abs(th) + math.sqrt(th * th + 1.0))
                c = 1.0 / math.sqrt(t * t + 1.0)
                s = t * c
                for k in range(n):
                    akp, akq = A[k][p], A[k][q]
                    A[k][p], A[k][q] = c * akp - s * akq, s * akp + c * akq
                for k in range(n):
                    apk, aqk = A[p][k], A[q][k]
                    A[p][k], A[q][k] = c * apk - s * aqk, s * apk + c * aqk
    return min(A[i][i] for i in range(n))


def temperature_grid(lo, hi, T_ref=None, knots=()):
    """The grid of DESIGN.md section 4: (inside, outside)."""
    inside = {lo, hi, 0.5 * (lo + hi)}
    if T_ref is not None and lo <= T_ref <= hi:
        inside.add(T_ref)
    ks = sorted(k for k in knots if lo <= k <= hi)
    inside.update(ks)
    for a, b in zip(ks[:-1], ks[1:]):
        inside.add(0.5 * (a + b))
    outside = [math.nextafter(lo, -math.inf), lo * (1 - 1e-6), lo - 100.0,
               0.0, -10.0, math.nextafter(hi, math.inf), hi * (1 + 1e-6),
               hi + 100.0]
    outside = [t for t in outside if t < lo or t > hi]
    return sorted(inside), outside
