"""Fifth-wave domains for C19 (nothing here imports pgradd).

1. Counted pieces.  The text form of a group is the centre followed by
   PIECES, each a bracketed peripheral name with an optional repeat count; the
   group it denotes has, of every name, the SUM of the counts of its pieces.
   The earlier spelling family wrote only counts >= 1 in the forms `(X)`,
   `(X)1`, `(X)c`, `(X)(c)`.  Here the count alphabet is {0, 1, 2, 3} and every
   count is written in every form: no count at all (count 1 only), plain
   digits, digits in brackets of their own, digits with a leading zero (for
   zero: `0`, `(0)`, `00`).  A count of zero spells "none of these".

2. Punctuation alphabet.  Peripheral and centre names that contain characters
   which mean something to the machinery a name may be passed through (string
   formatting: % and {}; regular expressions: \\ * .; digits next to letters).
   The text syntax reserves only the two parentheses and all-digit names.

3. One identity defined twice in ONE library file under two spellings.
"""
import collections
import itertools

# ------------------------------------------------------- 1. counted pieces

PIECE_PERIPH = ['C', 'H', 'C[d]']
PIECE_CENTRES = ['C', 'N[A]']
PIECE_COUNTS = [0, 1, 2, 3]
PIECE_MAX = 3                       # pieces per text (quick and thorough)
PIECE_MAX_T = 4                     # thorough: 4 pieces over 2 names


def count_forms(name, c):
    """Every way of writing the piece (name, c)."""
    b = '(%s)' % name
    forms = [b] if c == 1 else []
    forms += [b + '%d' % c, b + '(%d)' % c, b + '0%d' % c]
    return forms


OLD_FORMS = {1: (0, 1), 2: (0, 1), 3: (0, 1)}   # indices the old family wrote


def piece_options(names):
    """[(name, count, text, new)] - `new`: a form the earlier family did not
    write (zero count, leading zero, `(X)(1)`)."""
    out = []
    for name in names:
        for c in PIECE_COUNTS:
            for i, text in enumerate(count_forms(name, c)):
                out.append((name, c, text, i not in OLD_FORMS.get(c, ())))
    return out


def piece_texts(centre, npieces, names=None, first=None):
    """Every text of exactly `npieces` pieces: (text, expanded peripheral
    sequence, has a new form).  `first`: only texts whose first piece is
    about that name (sharding)."""
    opts = piece_options(PIECE_PERIPH if names is None else names)
    for combo in itertools.product(opts, repeat=npieces):
        if first is not None and combo[0][0] != first:
            continue
        seq = []
        for name, c, text, new in combo:
            seq += [name] * c
        yield (centre + ''.join(p[2] for p in combo), tuple(seq),
               any(p[3] for p in combo))


# --------------------------------------------------- 2. punctuation alphabet

PUNCT_PERIPH = ['%', '%%', '%d', '%s', 'X%', '{}', '{0}', '\\1', 'C*', 'C.',
                'H2', '2H']
PUNCT_CENTRES = ['C', 'H2', '%s', 'X%']
KPUNCT = {'quick': 3, 'thorough': 4}
PUNCT_PAIRMAX = 2
PUNCT_PAIR_CENTRES = ['C', '%s']
# the synthetic library file is written with one quoting rule ('...'); names
# with a backslash or a quote would need another one
PUNCT_LIB_PERIPH = [p for p in PUNCT_PERIPH if '\\' not in p and "'" not in p]


def punct_idents(kmax, centres=None, periph=None):
    out = []
    for c in (PUNCT_CENTRES if centres is None else centres):
        for k in range(kmax + 1):
            for ms in itertools.combinations_with_replacement(
                    PUNCT_PERIPH if periph is None else periph, k):
                out.append((c, ms))
    return out


# ------------------------------------------ 3. one identity, two definitions

DUP_PERIPH = ['C', 'H', 'C[d]']
DUP_PERIPH_T = ['C', 'H']           # thorough adds 3 peripherals over these
DUP_CENTRES = ['C', 'N[A]']
DUP_K = 2
DUP_FILLER = 'Pt'                   # the bystander entry: centre(Pt)
DUP_LAYOUTS = ['adjacent', 'entry-between', 'entry-before']
DUP_VALUES = (10.5, 20.5, 30.5)     # first definition, second, bystander


def dup_idents(tier):
    out = []
    for c in DUP_CENTRES:
        for k in range(1, DUP_K + 1):
            for ms in itertools.combinations_with_replacement(DUP_PERIPH, k):
                out.append((c, ms))
        if tier == 'thorough':
            for ms in itertools.combinations_with_replacement(DUP_PERIPH_T, 3):
                out.append((c, ms))
    return out


def dup_entries(layout, first, second, centre):
    """[(text, value)] in file order."""
    filler = ('%s(%s)' % (centre, DUP_FILLER), DUP_VALUES[2])
    a, b = (first, DUP_VALUES[0]), (second, DUP_VALUES[1])
    if layout == 'adjacent':
        return [a, b]
    if layout == 'entry-between':
        return [a, filler, b]
    if layout == 'entry-before':
        return [filler, a, b]
    raise ValueError(layout)


def near_pairs(ids):
    """Ordered pairs of DIFFERENT identities with one centre that differ in
    one peripheral or one repeat count (the control: such a file defines two
    entries and must load)."""
    out = []
    for a in ids:
        for b in ids:
            if a == b or a[0] != b[0]:
                continue
            ca, cb = collections.Counter(a[1]), collections.Counter(b[1])
            if sum(((ca - cb) + (cb - ca)).values()) <= 2:
                out.append((a, b))
    return out
