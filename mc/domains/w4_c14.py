"""Alphabets of the two families added to C14 in wave 4 (data only; nothing of
pgradd is imported here - the child interpreter of props/c14.py drives the
implementation with these lists).

1. Evaluation entry points.  "Every group evaluates to finite plain numbers for
   each property it has data for" was enumerated through get_HoRT / get_SoR /
   get_CpoR only.  A correlation has eight evaluation entry points; the other
   five are the Gibbs energy and the dimensional getters.  Four of the eight
   take an optional `S_elements` argument, four take a units string.

2. Customising a loaded library and loading again.  "Loads ... with identical
   contents" was enumerated with one load per process and way, so a loader
   that hands out state shared with an earlier load could not be seen.  The
   customisations below are the ways a caller can change what a load returned.
"""

# ------------------------------------------------------------ entry points

# the 16 unit strings of the gas-constant table the dimensional getters look
# their factor up in (pmutt.constants.R); written out by hand.  get_S / get_Cp
# take the string as it is, get_H / get_G take it without the trailing '/K'.
GAS_CONSTANT_UNITS = [
    'J/mol/K', 'kJ/mol/K', 'L kPa/mol/K', 'cm3 kPa/mol/K', 'm3 Pa/mol/K',
    'cm3 MPa/mol/K', 'm3 bar/mol/K', 'L bar/mol/K', 'L torr/mol/K',
    'cal/mol/K', 'kcal/mol/K', 'L atm/mol/K', 'cm3 atm/mol/K', 'eV/K',
    'Eh/K', 'Ha/K']


def energy_unit(per_k):
    assert per_k.endswith('/K')
    return per_k[:-2]


# presentations of the optional S_elements argument: (label, how, value)
S_ELEMENTS_SHAPES = [
    ('', 'absent', None),
    ('S_elements=None', 'kw', None),
    ('S_elements=False', 'kw', False),
    ('S_elements=True', 'kw', True),
    ('None', 'pos', None),
    ('True', 'pos', True)]

# entry point -> (needs enthalpy, needs entropy, needs heat capacity,
#                 takes units: None | 'energy' | 'per_k', takes S_elements)
ENTRY_POINTS = [
    ('get_HoRT', (True, False, False, None, False)),
    ('get_SoR', (False, True, False, None, True)),
    ('get_CpoR', (False, False, True, None, False)),
    ('get_GoRT', (True, True, False, None, True)),
    ('get_H', (True, False, False, 'energy', False)),
    ('get_S', (False, True, False, 'per_k', True)),
    ('get_G', (True, True, False, 'energy', True)),
    ('get_Cp', (False, False, True, 'per_k', False))]

# the three entry points the check has always walked, in their plain shape
BASIC = ('get_HoRT', 'get_SoR', 'get_CpoR')


def call_shapes(entry, full):
    """[(label, units or None, how, value)] - the call shapes of one entry
    point.  full=False: the default shape only (no S_elements, first unit);
    full=True: every unit x every presentation of S_elements."""
    needs = dict(ENTRY_POINTS)[entry]
    kind, takes_s = needs[3], needs[4]
    if kind is None:
        units = [None]
    elif kind == 'per_k':
        units = list(GAS_CONSTANT_UNITS)
    else:
        units = [energy_unit(u) for u in GAS_CONSTANT_UNITS]
    shapes = S_ELEMENTS_SHAPES if takes_s else S_ELEMENTS_SHAPES[:1]
    if not full:
        units, shapes = units[:1], shapes[:1]
    out = []
    for u in units:
        for lab, how, val in shapes:
            args = ', '.join(x for x in (u, lab) if x)
            out.append(('%s(%s)' % (entry, args) if args else entry, u, how, val))
    return out


# ------------------------------------------------------------ customisations

# Ways a caller can change a library object a load returned.  The group-level
# kinds are dealt out over the groups of the library in sorted-name order
# (group i gets kind i mod 11; when a kind does not apply to a group - e.g.
# nothing to delete - the next applicable kind in cyclic order is taken), the
# library-level kinds are applied once each.
GROUP_CUSTOMISATIONS = [
    ('Library.Update', 'lib.Update(library holding other data for the group, overwrite=True)'),
    ('correlation.update', "lib[g]['thermochem'].update(other correlation, overwrite=True)"),
    ('set_range', "lib[g]['thermochem'].set_range(widened range)"),
    ('del_ND_H_ref', "lib[g]['thermochem'].del_ND_H_ref()"),
    ('del_ND_S_ref', "lib[g]['thermochem'].del_ND_S_ref()"),
    ('del_ND_Cp', "lib[g]['thermochem'].del_ND_Cp(lowest tabulated T)"),
    ('assign-attributes', "ND_H_ref, ND_S_ref and T_ref of lib[g]['thermochem'] assigned"),
    ('Cp-table-item', "lib[g]['thermochem'].ND_Cp_data[1234.5] = 9.0"),
    ('replace-correlation', "lib[g]['thermochem'] = a new correlation"),
    ('delete-property-set', "del lib[g]['thermochem']"),
    ('delete-group', 'del lib.contents[g]')]

LIBRARY_CUSTOMISATIONS = [
    ('add-group', 'lib.Update(library holding a group the bundle does not have)'),
    ('scheme-add-remap', 'lib.scheme.remaps[new source] = rule'),
    ('scheme-extend-remap', 'lib.scheme.remaps[first source].append(term)  (when the scheme has remaps)'),
    ('scheme-drop-pattern', 'lib.scheme.patterns.pop()'),
    ('scheme-drop-descriptor', 'lib.scheme.other_descriptors.pop()  (when the scheme has any)'),
    ('uq-matrix-entry', "lib.uq_contents['mat'][0, 0] += 1  (when the library has an uncertainty block)"),
    ('uq-basis-order', "lib.uq_contents['descriptors'].reverse()  (same)"),
    ('uq-dof', "lib.uq_contents['dof'] += 1  (same)")]

NEW_GROUP = 'Zz(Cu)'
NEW_REMAP = 'Zz(CuS)'
