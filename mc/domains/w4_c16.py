"""Fourth-wave domains of C16.  Plain data, text building and bookkeeping;
nothing here imports pgradd.

1. How a pattern atom DECLARES its number of radical electrons
---------------------------------------------------------------
A pattern atom of this family is (spec, bond, cons): spec and bond as in
models/ruleref.py, cons a tuple of radical constraints (neg, op, n) written
`{[!] has <op><n> radical electrons, ...}` behind the atom.  The declaration
alphabet of a carbon atom (DECL):
  the suffixes   C  C.  C:  C?
  C? with one constraint  has <op> n radical electrons,
     op in {=, >=, <=, >, <}, n in {0, 1, 2} (thorough: 0..3), plain and negated

admitted(spec, cons) is the set of radical counts (0..4) an atom may have to
match.  It decides how the rule is judged:
  empty              the pattern matches nothing                -> not judged
  one value, stated  by a suffix or by a plain `has =n`         -> FIXED: all
                     edits are judged against that count (radical := m changes
                     the atom by m - n)
  one value, only implied by an inequality / negation           -> relative
                     edits are judged; radical := m is not (either verdict)
  several values     the atom is RADICAL-AGNOSTIC: relative edits (+1 / -1)
                     change every match alike and are judged; a rule with
                     radical := m on such an atom changes matches with
                     different counts by different amounts, so it cannot be
                     balanced for all of them -> must be rejected when read.

2. Edits a match cannot take
----------------------------
On a radical-agnostic atom `decrease number of radical` is well defined for the
rule but not for every match: a matched atom without radical electrons has
none to give.  Likewise `increase / decrease bond order` on a pattern bond of
unspecified order is not defined on a matched aromatic bond (order 1.5).
inapplicable(mol, match, seq) finds those matches by plain counting.  For such a (rule, molecule) no product set can be "the
reactant with precisely the rule's edits applied", so RunReactants must raise
instead of returning.

3. Molecule presentations
-------------------------
The same aromatic compound as RDKit parses it (aromatic atoms and bonds) and in
Kekule form with the aromatic flags cleared (alternating single and double
bonds - the form pgradd itself works with when it decomposes a molecule).
A molecule is named by a label: plain SMILES, or `kek:<SMILES>`.
"""
import itertools

from ..models import ruleref

# ------------------------------------------------------------ declarations

OPS = ['=', '>=', '<=', '>', '<']
_CMP = {'=': lambda v, n: v == n, '>=': lambda v, n: v >= n,
        '<=': lambda v, n: v <= n, '>': lambda v, n: v > n,
        '<': lambda v, n: v < n}
_SUFFIX_COUNT = {'': 0, '.': 1, ':': 2}
MAXRAD = 4          # [C] carries 4 radical electrons: 0..4 occur on carbon


def split_spec(spec):
    sym = spec.rstrip('?.:+-')
    return sym, spec[len(sym):]


def admitted(spec, cons):
    _, suf = split_spec(spec)
    if suf in _SUFFIX_COUNT:
        out = {_SUFFIX_COUNT[suf]}
    elif suf == '?':
        out = set(range(MAXRAD + 1))
    else:
        raise ValueError(spec)
    for neg, op, n in cons:
        out = {v for v in out if _CMP[op](v, n) != bool(neg)}
    return frozenset(out)


_KNOW = {}


def knowledge(spec, cons):
    """-> ('empty' | 'fixed' | 'implied' | 'agnostic', count or None)"""
    k = (spec, tuple(cons))
    if k not in _KNOW:
        _KNOW[k] = _knowledge(spec, cons)
    return _KNOW[k]


def _knowledge(spec, cons):
    A = admitted(spec, cons)
    if not A:
        return 'empty', None
    if len(A) > 1:
        return 'agnostic', None
    v = next(iter(A))
    _, suf = split_spec(spec)
    if suf in _SUFFIX_COUNT or any((not neg) and op == '=' and n == v
                                   for neg, op, n in cons):
        return 'fixed', v
    return 'implied', v


def decls(tier, sym='C'):
    ns = [0, 1, 2] if tier == 'quick' else [0, 1, 2, 3]
    out = [(sym, ()), (sym + '.', ()), (sym + ':', ()), (sym + '?', ())]
    for neg in (False, True):
        for op in OPS:
            for n in ns:
                out.append((sym + '?', ((neg, op, n),)))
    return out


def decls_small():
    """the sub-alphabet used where declarations are paired with each other"""
    return [('C.', ()), ('C?', ()), ('C?', ((False, '=', 1),)),
            ('C?', ((False, '>=', 1),)), ('C?', ((False, '<=', 1),)),
            ('C?', ((True, '=', 0),))]


# ------------------------------------------------------------------- text

def cons_text(cons):
    if not cons:
        return ''
    return ' {%s}' % ', '.join('%shas %s%d radical electrons' % (
        '! ' if neg else '', op, n) for neg, op, n in cons)


def lab(i):
    return 'a%d' % i


def combined(pats):
    """several reactant patterns (bond indices local) as ONE pattern with
    global atom numbers"""
    out, off = [], 0
    for pat in pats:
        out += [(sp, None if b is None else (b[0], b[1] + off), cs)
                for sp, b, cs in pat]
        off += len(pat)
    return out


def reactant_text(pat, off=0):
    return ' '.join('%s labeled a%d%s%s' % (
        sp, k + off, '' if b is None else ' %s bond to a%d' % (b[0], b[1] + off),
        cons_text(cs)) for k, (sp, b, cs) in enumerate(pat))


def rule_text(pats, seq, names=None, rule='x'):
    names = names or ['r%d' % (i + 1) for i in range(len(pats))]
    parts, off = [], 0
    for name, pat in zip(names, pats):
        parts.append('reactant %s{ %s }' % (name, reactant_text(pat, off)))
        off += len(pat)
    return 'rule %s{ %s %s }' % (rule, ' '.join(parts),
                                 ' '.join(ruleref.edit_text(e, lab) for e in seq))


def fragment_text(pat):
    """one reactant pattern as a fragment, atoms labelled from a0"""
    return 'fragment r1{ %s }' % reactant_text(pat, 0)


# ------------------------------------------------------------ bookkeeping

def book_pattern(atoms):
    """The pattern the electron bookkeeping of models/ruleref.py is run on:
    an atom of known count n <= 2 is written with the suffix of n; any other
    atom (agnostic, or a count above 2) is written with two radical electrons.
    Relative edits change the balance by the same amount whatever the count
    is, so the balance is that of the real pattern; the stand-in count only
    limits the sequences that are judged to those with at most two net
    decreases on such an atom (and `radical := m` on an atom with a declared
    count above 2 is left unjudged by analyse)."""
    out = []
    for sp, b, cs in atoms:
        sym, _ = split_spec(sp)
        kind, v = knowledge(sp, cs)
        if kind in ('fixed', 'implied') and v <= 2:
            out.append((sym + {0: '', 1: '.', 2: ':'}[v], b))
        else:
            out.append((sym + ':', b))
    return out


def analyse(atoms, seq):
    """-> (status, balanced) in the vocabulary of ruleref.analyse"""
    know = [knowledge(sp, cs) for sp, _, cs in atoms]
    kinds = [k for k, _ in know]
    if 'empty' in kinds:
        return 'open', None
    status, balanced = ruleref.analyse(book_pattern(atoms), seq)
    if status == 'open':
        return 'open', None
    sets = [e[1] for e in seq if e[0] == 'radset']
    if any(kinds[i] == 'agnostic' for i in sets):
        return status, False
    if any(kinds[i] == 'implied' for i in sets):
        return 'open', None
    if any(kinds[i] == 'fixed' and know[i][1] > 2 for i in sets):
        # the stand-in count is not the declared one: radical := m not judged
        return 'open', None
    return status, balanced


def inapplicable(mol_h, match, seq):
    """Is there an edit this match cannot take?  Plain counting on the matched
    atoms: a radical decrease on an atom that has no radical electron left, or
    an increase / decrease of the order of a bond that is aromatic (order 1.5)
    at that moment (or already quintuple), or the formation of a bond between
    two atoms that are bonded at that moment."""
    rad, order = {}, {}
    for e in seq:
        k = e[0]
        if k in ('radinc', 'raddec', 'radset'):
            a = match[e[1]]
            cur = rad.get(a)
            if cur is None:
                cur = mol_h.GetAtomWithIdx(a).GetNumRadicalElectrons()
            if k == 'radinc':
                cur += 1
            elif k == 'raddec':
                cur -= 1
                if cur < 0:
                    return True
            else:
                cur = e[2]
            rad[a] = cur
            continue
        a, b = sorted((match[e[1]], match[e[2]]))
        if (a, b) not in order:
            bond = mol_h.GetBondBetweenAtoms(a, b)
            order[(a, b)] = None if bond is None else \
                ruleref.ORDER_OF.get(str(bond.GetBondType()))
        if k == 'break':
            order[(a, b)] = None
        elif k == 'form':
            if order[(a, b)] is not None:
                # the two matched atoms are already bonded in this molecule
                # (the pattern does not say so: e.g. the ends of a three-atom
                # chain matched on a three-membered ring)
                return True
            order[(a, b)] = ruleref.ORD[e[3] or 'single']
        elif k == 'modify':
            order[(a, b)] = ruleref.ORD[e[3]]
        elif k in ('inc', 'dec'):
            o = order[(a, b)]
            if o is None or o == 1.5 or (k == 'inc' and o >= 5):
                return True
            order[(a, b)] = (o + 1) if k == 'inc' else ((o - 1) or None)
    return False


# --------------------------------------------------------------- families
#
# rad1 : one reactant, ONE atom: every declaration x every sequence of length
#        <= 3 over {radical +1, radical -1, radical := 0 / 1 / 2}
# rad2 : one reactant, two atoms: 3 shapes (declared carbon first with H by a
#        single bond or with C? by a double bond; declared carbon second behind
#        H; thorough: 5 shapes, + C? by a single bond, + second behind C? by a
#        double bond) x every declaration; edits {+1, -1, := 0/1/2 on the
#        declared atom; +1, -1 on the partner; break, increase order, decrease
#        order}: all sequences of length <= 2, the balanced ones of length 3
# radb : two reactants: first reactant C?-H (thorough: also C.), second
#        reactant one atom of every declaration; and all ordered pairs of the
#        small declaration alphabet (6) as two one-atom reactants; edits {form
#        bond across, +1, -1 on every atom, := 0/1/2 on the declared atoms,
#        break of the first reactant's bond}: all sequences of length <= 2, the
#        balanced ones of length 3; every pair of molecules of RADB_MOLS

RAD_MOLS = {'quick': ['C', '[CH3]', '[CH2]', '[CH]', 'CC', 'C[CH2]', '[CH2][CH]',
                      'C=C', 'C=[CH]'],
            'thorough': ['C', '[CH3]', '[CH2]', '[CH]', '[C]', 'CC', 'C[CH2]', 'C[CH]',
                         '[CH2][CH2]', '[CH2][CH]', 'C=C', 'C=[CH]', '[CH]=[CH]',
                         'C=[C]']}
RADB_MOLS = {'quick': ['C', '[CH3]', '[CH2]', 'C[CH2]'],
             'thorough': ['C', '[CH3]', '[CH2]', '[CH]', 'C[CH2]']}
UNBALANCED_MAXLEN = 2


def rad2_shapes(d, tier):
    sp, cs = d
    out = [[(sp, None, cs), ('H', ('single', 0), ())],
           [(sp, None, cs), ('C?', ('double', 0), ())],
           [('H', None, ()), (sp, ('single', 0), cs)]]
    if tier == 'thorough':
        out += [[(sp, None, cs), ('C?', ('single', 0), ())],
                [('C?', None, ()), (sp, ('double', 0), cs)]]
    return out


RADB_R1 = {'quick': [[('C?', None, ()), ('H', ('single', 0), ())]],
           'thorough': [[('C?', None, ()), ('H', ('single', 0), ())], [('C.', None, ())]]}


def rad_shards(tier):
    D = decls(tier)
    out = [('rad1', i) for i in range(len(D))]
    out += [('rad2', i) for i in range(len(D))]
    out += [('radb', 'r1', i) for i in range(len(RADB_R1[tier]))]
    out += [('radb', 'pairs', i) for i in range(len(decls_small()))]
    return out


def rad_edits(atoms, declared, with_bonds=True):
    """declared: indices of the atoms whose declaration is the subject"""
    bonds, _ = ruleref.pattern_tables([(sp, b) for sp, b, _ in atoms])
    E = []
    for i in range(len(atoms)):
        E += [('radinc', i), ('raddec', i)]
        if i in declared:
            E += [('radset', i, 0), ('radset', i, 1), ('radset', i, 2)]
    if with_bonds:
        for (i, j) in sorted(bonds):
            E += [('break', i, j, None), ('inc', i, j), ('dec', i, j)]
    return E


def seqs_upto(E, maxlen):
    for L in range(1, maxlen + 1):
        for seq in itertools.product(E, repeat=L):
            yield seq


def rad_cases(shard, tier):
    """-> list of (pats, edit sequences iterator factory, molecule alphabet)"""
    fam = shard[0]
    D = decls(tier)
    if fam == 'rad1':
        sp, cs = D[shard[1]]
        pats = [[(sp, None, cs)]]
        return [(pats, rad_edits(combined(pats), {0}), RAD_MOLS[tier])]
    if fam == 'rad2':
        out = []
        for pat in rad2_shapes(D[shard[1]], tier):
            pats = [pat]
            declared = {i for i, a in enumerate(pat) if (a[0], a[2]) == D[shard[1]]}
            out.append((pats, rad_edits(pat, declared), RAD_MOLS[tier]))
        return out
    if fam == 'radb':
        out = []
        if shard[1] == 'r1':
            r1 = RADB_R1[tier][shard[2]]
            for sp, cs in D:
                pats = [r1, [(sp, None, cs)]]
                out.append((pats, radb_edits(pats, {len(r1)}), RADB_MOLS[tier]))
        else:
            sp1, cs1 = decls_small()[shard[2]]
            for sp2, cs2 in decls_small():
                pats = [[(sp1, None, cs1)], [(sp2, None, cs2)]]
                out.append((pats, radb_edits(pats, {0, 1}), RADB_MOLS[tier]))
        return out
    raise ValueError(shard)


def radb_edits(pats, declared):
    atoms = combined(pats)
    E = rad_edits(atoms, declared, with_bonds=False)
    bonds, _ = ruleref.pattern_tables([(sp, b) for sp, b, _ in atoms])
    for (i, j) in sorted(bonds):
        E.append(('break', i, j, None))
    E.append(('form', 0, len(pats[0]), None))
    return E


def enc_pat(pat):
    return [[sp, None if b is None else [b[0], b[1]],
             [[bool(neg), op, n] for neg, op, n in cs]] for sp, b, cs in pat]


def dec_pat(L):
    return [(a[0], None if a[1] is None else (a[1][0], a[1][1]),
             tuple((bool(c[0]), c[1], c[2]) for c in a[2])) for a in L]


# ---------------------------------------------------------- presentations

AROMATIC = {'quick': ['c1ccccc1', 'Cc1ccccc1', 'c1ccoc1', '[CH2]c1ccccc1'],
            'thorough': ['c1ccccc1', 'Cc1ccccc1', 'c1ccoc1', '[CH2]c1ccccc1',
                         'Oc1ccccc1', 'C=Cc1ccccc1', '[c]1ccccc1']}


def presentations(tier):
    """labels of the aromatic compounds in both presentations"""
    out = []
    for s in AROMATIC[tier]:
        out += [s, 'kek:' + s]
    return out


def mol_from(label):
    from rdkit import Chem
    if label.startswith('kek:'):
        m = Chem.MolFromSmiles(label[4:])
        Chem.Kekulize(m, clearAromaticFlags=True)
        return m
    return Chem.MolFromSmiles(label)
