"""Scheme domains: the shipped scheme files with their molecule vocabularies,
and the family of synthetic schemes (DESIGN.md 5/C02)."""
import hashlib
import itertools
import os

import yaml

from . import libs
from . import molecules as MD

SURFACE = {'GRWAqueous2018': 'Pt', 'GRWSurface2018': 'Pt',
           'GuSolventGA2017Aq': 'Pt', 'GuSolventGA2017Vac': 'Pt',
           'PtSurface2023': 'Pt', 'SalciccioliGA2012': 'Pt', 'XieGA2022': 'Ru'}


def scheme_path(name):
    return os.path.join(libs.data_dir(), name, 'scheme.yaml')


def distinct_schemes():
    """One representative library per distinct scheme file."""
    seen, out = {}, []
    for n in libs.LIBS:
        h = hashlib.md5(open(scheme_path(n), 'rb').read()).hexdigest()
        if h not in seen:
            seen[h] = n
            out.append(n)
    return out


def molecules_for(name, tier, what='full'):
    """SMILES list for a scheme: gas-phase M(n), adsorbates for surface
    schemes, curated, vocabulary-external."""
    n = {'quick': 3, 'thorough': 4}[tier] if what == 'full' else 2
    gas = list(MD.M(n, ('C', 'O'), 2))
    if tier == 'thorough' and what == 'full':
        gas += list(MD.enum(5, ('C', 'O'), 0))
    out = gas + MD.CURATED_GAS + MD.CURATED_FUSED + MD.OUTSIDE_VOCAB
    metal = SURFACE.get(name)
    if metal:
        rad = list(MD.M(min(n, 3), ('C', 'O'), 2))
        out += MD.adsorbates(rad, metal)
        out += MD.CURATED_RU if metal == 'Ru' else MD.CURATED_SURFACE
    seen, res = set(), []
    for s in out:
        c = MD.canon(s)
        if c is None or c in seen:
            continue
        seen.add(c)
        res.append(s)
    return res


# ------------------------------------------------------------ synthetic

POOL = [
    ('C', 'C', 'fragment p1{ C labeled c1 { ! connected to $? with strong bond } }'),
    ('C[d]', 'C[d]', 'fragment p2{ C labeled c1 { connected to =1 $? with double bond, '
                     '! connected to $? with triple bond } }'),
    ('C[t]', 'C[t]', 'fragment p3{ C labeled c1 { connected to $? with triple bond } }'),
    ('O', 'O', 'fragment p4{ O labeled o1 }'),
    ('none', 'H', 'fragment p5{ H labeled h1 }'),
    ('none', 'Pt', 'fragment p6{ Pt? labeled m1 }'),
    ('C[.]', 'C[.]', 'fragment p7{ C. labeled c1 }'),
    ('CX', 'CX', 'fragment p8{ C? labeled c1 }'),
]
POOL_QUICK = [0, 1, 3, 4, 7]
REMAPS = {
    'none': None,
    'one-to-one': {'C(C)(H)3': [[1, 'C(H)4']]},
    'fractional': {'C(C)(H)3': [[0.5, 'C(H)4']]},
    'one-to-two': {'C(C)(H)3': [[2, 'C(H)4'], [1, 'X1']]},
    'onto-descriptor': {'C(C)(H)3': [[1, 'D2']], 'D3': [[3, 'D2']]},
}
D_CC = ('D2', 'fragment d2{ C labeled c1 C labeled c2 single bond to c1 }')
D_RING = ('D3', 'fragment d3{ C? labeled c1 C? labeled c2 ring bond to c1 C? '
                'labeled c3 ring bond to c2 ringbond c3 ring bond to c1 }')
DESCRIPTORS = {
    'none': [],
    'symmetric-2-atom': [D_CC],
    '3-ring': [D_RING],
    'same-name-twice': [D_CC, ('D2', D_RING[1])],
}


def synthetic_schemes(tier):
    idx = POOL_QUICK if tier == 'quick' else list(range(len(POOL)))
    for r in range(1, len(idx) + 1):
        for sub in itertools.combinations(idx, r):
            for rk in REMAPS:
                for dk in DESCRIPTORS:
                    yield (sub, rk, dk)


def synthetic_dict(desc):
    sub, rk, dk = desc
    d = {'patterns': [dict(center_name=POOL[i][0], periph_name=POOL[i][1],
                           connectivity=POOL[i][2]) for i in sub]}
    if REMAPS[rk]:
        d['remaps'] = REMAPS[rk]
    if DESCRIPTORS[dk]:
        d['other_descriptors'] = [dict(name=n, connectivity=c)
                                  for n, c in DESCRIPTORS[dk]]
    return d


def write_scheme(d, directory):
    p = os.path.join(directory, 'scheme.yaml')
    with open(p, 'w') as f:
        yaml.safe_dump(d, f)
    return p


def synthetic_molecules(tier):
    out = list(MD.M(2 if tier == 'quick' else 3, ('C', 'O'), 2))
    out += ['CCC', 'C1CC1', 'C=C=C', 'CC(C)C', 'C1CC1C', 'C([Pt])C', 'CC#C',
            'C1CC2CC12']
    return out
