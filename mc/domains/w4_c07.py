"""Fourth-wave alphabets for C07 (DESIGN.md 10.11).

Two families of *inputs* for the elemental clause ("hydrogens included", "the
molecule decomposed immediately before the estimate"):

 1. hydrogen presentations: one molecule handed over with SOME of its
    hydrogens written as atoms of the graph and the others left implicit;
 2. interleavings: two library objects, each obtained by its own call of
    GroupLibrary.Load, used side by side.

Nothing here computes an expected value and nothing here calls pgradd, except
`make_library`, which only obtains the object under test.
"""
import itertools


# ------------------------------------------------- hydrogen presentations
# A recipe is [mode, [heavy-atom indices]] and is applied to the molecule
# parsed from the base SMILES (atom indices of that parse):
#
#   'mol-addhs'    molecule object, AddHs(onlyOnAtoms=sigma): the hydrogens of
#                  the atoms in sigma are atoms (appended behind the heavy
#                  atoms), all others implicit;
#   'mol-keephs'   the same graph written as SMILES and parsed with
#                  removeHs=False: molecule object whose hydrogen atoms sit
#                  between the heavy atoms;
#   'smiles-2H'    SMILES string in which every hydrogen of the atoms in sigma
#                  is written [2H] (isotope-labelled hydrogens stay atoms when
#                  a SMILES string is parsed);
#   'smiles-2H-1'  SMILES string in which ONE hydrogen of each atom in sigma
#                  is written [2H] (so a CH3 keeps two implicit hydrogens next
#                  to an explicit one);
#   'mol-3H'       molecule object parsed from the string of 'smiles-2H' with
#                  tritium labels instead.
H_MODES = {'quick': ('mol-addhs', 'mol-keephs', 'smiles-2H', 'smiles-2H-1'),
           'thorough': ('mol-addhs', 'mol-keephs', 'smiles-2H', 'smiles-2H-1',
                        'mol-3H')}
# all non-empty subsets of the hydrogen-bearing heavy atoms when there are at
# most H_ALL_SUBSETS of them; otherwise every single atom and the full set
# (thorough: also every pair and every all-but-one set)
H_ALL_SUBSETS = {'quick': 3, 'thorough': 4}


def h_bearing(mol):
    return [a.GetIdx() for a in mol.GetAtoms()
            if a.GetAtomicNum() != 1 and a.GetTotalNumHs() > 0]


def h_subsets(hb, tier):
    """The enumerated subsets sigma of the hydrogen-bearing heavy atoms `hb`,
    smallest first."""
    k = len(hb)
    if k <= H_ALL_SUBSETS[tier]:
        sizes = range(1, k + 1)
        out = [list(s) for n in sizes for s in itertools.combinations(hb, n)]
    else:
        out = [[i] for i in hb]
        if tier == 'thorough':
            out += [list(s) for s in itertools.combinations(hb, 2)]
            out += [[j for j in hb if j != i] for i in hb]
        out.append(list(hb))
    seen, res = set(), []
    for s in out:
        if tuple(s) not in seen:
            seen.add(tuple(s))
            res.append(s)
    return res


def h_recipes(smiles, tier):
    """[[mode, sigma], ...] for the base SMILES, or [] when it has no
    hydrogen-bearing heavy atom (or does not parse)."""
    from rdkit import Chem
    m = Chem.MolFromSmiles(smiles)
    if m is None:
        return []
    hb = h_bearing(m)
    return [[mode, s] for s in h_subsets(hb, tier) for mode in H_MODES[tier]]


def present(smiles, recipe):
    """Build the argument of GetDescriptors described by `recipe`.
    -> (argument, n_explicit_H, n_implicit_H) ; raises ValueError when RDKit
    cannot build it (the caller counts that, it is no verdict)."""
    from rdkit import Chem
    mode, sigma = recipe[0], [int(i) for i in recipe[1]]
    m = Chem.MolFromSmiles(smiles)
    if m is None:
        raise ValueError('base SMILES does not parse')
    if mode in ('mol-addhs', 'mol-keephs'):
        arg = Chem.AddHs(m, onlyOnAtoms=sigma)
        if mode == 'mol-keephs':
            p = Chem.SmilesParserParams()
            p.removeHs = False
            arg = Chem.MolFromSmiles(Chem.MolToSmiles(arg), p)
            if arg is None:
                raise ValueError('keep-H SMILES does not parse')
        probe = arg
    else:
        iso = 3 if mode == 'mol-3H' else 2
        mh = Chem.AddHs(m, onlyOnAtoms=sigma)
        done = set()
        for a in mh.GetAtoms():
            # only the hydrogens just added (they come behind the atoms of m)
            if a.GetAtomicNum() != 1 or a.GetIdx() < m.GetNumAtoms():
                continue
            parent = a.GetNeighbors()[0].GetIdx()
            if mode == 'smiles-2H-1' and parent in done:
                continue
            done.add(parent)
            a.SetIsotope(iso)
        # unlabelled explicit hydrogens go back into their heavy atom
        arg = Chem.MolToSmiles(Chem.RemoveHs(mh))
        probe = Chem.MolFromSmiles(arg)
        if probe is None:
            raise ValueError('labelled SMILES does not parse')
        if mode == 'mol-3H':
            arg = probe
    n_exp = sum(1 for a in probe.GetAtoms() if a.GetAtomicNum() == 1)
    n_imp = sum(a.GetTotalNumHs() for a in probe.GetAtoms())
    return arg, n_exp, n_imp


def atomic_numbers(arg):
    """Atomic numbers of ALL atoms of the presented molecule, hydrogens
    included whether written or implied (counted here, by the harness)."""
    from rdkit import Chem
    m = arg if isinstance(arg, Chem.Mol) else Chem.MolFromSmiles(arg)
    return sorted(a.GetAtomicNum() for a in Chem.AddHs(m).GetAtoms())


# ------------------------------------------------- two library objects
# How the pair (A, B) of library objects is obtained.  Every entry is a pair of
# separate calls; A and B must behave as two libraries.
PAIR_ROUTES = ('name,name', 'name,path', 'path,path')

# the four operations D_A, E_A, D_B, E_B (decompose on / estimate from library
# A or B); an order is admissible when each library decomposes before it
# estimates: the 6 interleavings of (D_A, E_A) with (D_B, E_B)
INTERLEAVINGS = [o for o in itertools.permutations(('DA', 'EA', 'DB', 'EB'))
                 if o.index('DA') < o.index('EA') and o.index('DB') < o.index('EB')]


def make_library(name, how):
    """One call of GroupLibrary.Load: by builtin name or by file path."""
    import os
    import pgradd.ThermoChem  # noqa: registers the 'thermochem' property set
    from pgradd.GroupAdd.Library import GroupLibrary
    from . import libs
    if how == 'name':
        return GroupLibrary.Load(name)
    return GroupLibrary.Load(os.path.join(libs.data_dir(), name, 'library.yaml'))


def pair_cases(letters):
    """Every (letter for A, letter for B, interleaving): |letters|^2 x 6."""
    for la in letters:
        for lb in letters:
            for order in INTERLEAVINGS:
                yield list(la), list(lb), list(order)
