"""Third-wave additions to the C02 domains (DESIGN.md 10.9).  Imports nothing
from pgradd.

Three families, each enumerated in full:

N  centre-NAME sharing.  The synthetic pool of domains/schemes.py gives every
   centre pattern its own centre name, so "matched by two centre patterns" was
   only ever exercised with two DIFFERENT names.  The statement counts
   patterns, not names.  NAMINGS rewrites the names of the pool entries:
     shared-centre         every carbon-centred pattern is called 'C'
                           (peripheral names stay distinct)
     shared-centre+periph  ... and has peripheral name 'C' as well
     shared-none           every carbon-centred pattern has centre name 'none'
     duplicate-entry       pool names, but the first entry of the scheme is
                           listed a second time at the end
   Sharing a name between patterns that do not overlap must succeed; between
   overlapping ones the call must still fail.

R  remap SHAPES x SOURCE kinds.  domains/schemes.REMAPS has multi-target rules
   only for a group and only single-target rules for a correction descriptor.
   Here every coefficient-list shape of SHAPES is attached to each of three
   sources: the group 'C(C)(H)3', the two-atom descriptor 'D2', the ring
   descriptor 'D3'.

E  substituted ethenes R1R2C=CR3R4 for the shipped schemes, R over
   {H, methyl, ethyl, tert-butyl}, every constitution once, and for every
   double bond that can carry it the three stereo spellings (none, E, Z).
   These are the molecules the Cis / tbCis / gauche correction descriptors and
   their remap rules (fractional, multi-target) are written for; the size
   bound of M(n) stops at 3-4 heavy atoms.
"""
import itertools

from . import schemes as SD
from . import molecules as MD

# ------------------------------------------------------------------ N

CARBON = (0, 1, 2, 6, 7)         # indices of SD.POOL whose centre atom is C
NAMINGS = ('shared-centre', 'shared-centre+periph', 'shared-none',
           'duplicate-entry')
NAMING_REMAPS = ('none', 'one-to-one', 'one-to-two')


def entry(i, naming):
    cn, pn, conn = SD.POOL[i]
    if i in CARBON:
        if naming == 'shared-centre':
            cn = 'C'
        elif naming == 'shared-centre+periph':
            cn, pn = 'C', 'C'
        elif naming == 'shared-none':
            cn = 'none'
    return dict(center_name=cn, periph_name=pn, connectivity=conn)


def pool_indices(tier):
    return SD.POOL_QUICK if tier == 'quick' else list(range(len(SD.POOL)))


def subsets(idx, must=()):
    for r in range(1, len(idx) + 1):
        for sub in itertools.combinations(idx, r):
            if all(m in sub for m in must):
                yield sub


def naming_schemes(tier):
    """(subset, naming, remap key of SD.REMAPS)"""
    for sub in subsets(pool_indices(tier)):
        for nk in NAMINGS:
            for rk in NAMING_REMAPS:
                yield ('naming', sub, nk, rk)


# ------------------------------------------------------------------ R

SHAPES = {
    'unit': [[1, 'X1']],
    'fractional': [[0.5, 'X1']],
    'two:2,1': [[2, 'X1'], [1, 'X2']],
    'two:1,2': [[1, 'X1'], [2, 'X2']],
    'three:2,3,0.5': [[2, 'X1'], [3, 'X2'], [0.5, 'X3']],
    'same-target-twice': [[2, 'X1'], [1, 'X1']],
    'zero+negative': [[0, 'X1'], [-1, 'X2']],
}
SOURCES = {'group': 'C(C)(H)3', 'D2': 'D2', 'D3': 'D3'}
# without a pattern for hydrogen and one for saturated carbon no alkane of the
# vocabulary is classified and no rule of this family can fire
REMAP_MUST = (0, 4)


def remap_schemes(tier):
    """(subset, source kind, shape, descriptor key of SD.DESCRIPTORS)"""
    for sub in subsets(pool_indices(tier), REMAP_MUST):
        for src in SOURCES:
            for shape in SHAPES:
                for dk in SD.DESCRIPTORS:
                    yield ('remap', sub, src, shape, dk)


# ------------------------------------------------------------------ both

def schemes(tier):
    return list(naming_schemes(tier)) + list(remap_schemes(tier))


def scheme_dict(desc):
    if desc[0] == 'naming':
        _, sub, nk, rk = desc
        pats = [entry(i, nk) for i in sub]
        if nk == 'duplicate-entry':
            pats.append(dict(pats[0]))
        d = {'patterns': pats}
        if SD.REMAPS[rk]:
            d['remaps'] = SD.REMAPS[rk]
        return d
    _, sub, src, shape, dk = desc
    d = {'patterns': [entry(i, 'pool') for i in sub],
         'remaps': {SOURCES[src]: [list(x) for x in SHAPES[shape]]}}
    if SD.DESCRIPTORS[dk]:
        d['other_descriptors'] = [dict(name=n, connectivity=c)
                                  for n, c in SD.DESCRIPTORS[dk]]
    return d


def tag(desc):
    if desc[0] == 'naming':
        return 'synthetic-naming/%s/%s' % (desc[2], desc[3])
    return 'synthetic-remap/%s/%s/%s' % (desc[2], desc[3], desc[4])


def to_json(desc):
    return [desc[0], list(desc[1])] + list(desc[2:])


def from_json(j):
    return (j[0], tuple(j[1])) + tuple(j[2:])


# ------------------------------------------------------------------ E

#            as a prefix (attached by its last atom), as a suffix / branch
SUBST = {'H': ('', ''), 'Me': ('C', 'C'), 'Et': ('CC', 'CC'),
         'tBu': ('CC(C)(C)', 'C(C)(C)C')}


def _branch(r):
    return '(%s)' % SUBST[r][1] if r != 'H' else ''


def ethenes():
    """-> list of SMILES, deduplicated by canonical (stereo-aware) SMILES."""
    names = list(SUBST)
    ends = list(itertools.combinations_with_replacement(names, 2))
    out, seen = [], set()

    def put(s):
        c = MD.canon(s)
        assert c is not None, s
        if c not in seen:
            seen.add(c)
            out.append(s)
    for e1, e2 in itertools.combinations_with_replacement(ends, 2):
        (a, b), (c, d) = e1, e2
        put('C%s%s=C%s%s' % (_branch(a), _branch(b), _branch(c), _branch(d)))
        if a != b and c != d:
            # marked substituent: a non-hydrogen one
            ma, oa = (b, a) if a == 'H' else (a, b)
            mc, oc = (d, c) if c == 'H' else (c, d)
            for mark in ('/', '\\'):
                put('%s/C%s=C%s%s%s' % (SUBST[ma][0], _branch(oa), _branch(oc),
                                        mark, SUBST[mc][1]))
    return out
