"""Wave 4, C10: process histories.

The unit names live in ONE process-wide registry (pgradd.Units.db.units_db)
that any part of the package may write to while it is imported or used.  The
property speaks about "the documented unit names" without a proviso about what
else of the package is loaded, so the state "which parts of pgradd have been
imported / used in this interpreter" is an input of every evaluation.  This
file enumerates that input:

  actions   ('import', <module>)  for EVERY module of the pgradd package found
                                  in the source tree under test (test modules
                                  excluded),
            ('load', <library>)   GroupLibrary.Load of every bundled library,
            ('table',)            judge the whole unit table: every name x
                                  every prefix in 5 spellings, and every name x
                                  every prefix converted to / from the bare
                                  name (('table', 'conv') adds all ordered name
                                  pairs).

  histories for every module M :  [import M, table]
                                  [import pgradd.Units, table, import M, table]
            all modules at once:  [import M1, .., import Mn, table] in sorted
                                  and in reverse-sorted order
            for every library L:  [load L, table]

Each history runs in an interpreter of its own (the registry cannot be reset),
and a witness carries its history.
"""
import os

UNITS = 'pgradd.Units'


def package_modules(repo):
    """Dotted names of all modules of the pgradd package in the tree `repo`,
    read from the file system (nothing is imported); `tests` packages and
    test_*.py files are left out."""
    root = os.path.join(repo, 'pgradd')
    out = []
    for d, dirs, files in os.walk(root):
        dirs[:] = sorted(x for x in dirs
                         if x != 'tests' and x != '__pycache__' and
                         os.path.exists(os.path.join(d, x, '__init__.py')))
        for f in sorted(files):
            if not f.endswith('.py') or f.startswith('test_'):
                continue
            rel = os.path.relpath(os.path.join(d, f), repo)[:-3]
            name = rel.replace(os.sep, '.')
            if name.endswith('.__init__'):
                name = name[:-len('.__init__')]
            out.append(name)
    return sorted(out)


def histories(repo, libs, conv=False):
    """-> list of histories; a history is a tuple of action tuples."""
    table = ('table', 'conv') if conv else ('table',)
    mods = package_modules(repo)
    out = []
    for m in mods:
        out.append((('import', m), table))
    for m in mods:
        out.append((('import', UNITS), table, ('import', m), table))
    out.append(tuple(('import', m) for m in mods) + (table,))
    out.append(tuple(('import', m) for m in reversed(mods)) + (table,))
    for name in libs:
        out.append((('load', name), table))
    return out
