"""Fifth-wave alphabets for C20 (nothing here imports pgradd).

1. The COUNT of the out-of-basis descriptor: the older families gave it the
   count 1 only.  Here it runs over a value alphabet - ordinary, negative,
   fractional, tiny, huge and every presentation of ZERO a caller can hand in
   (int, float, negative zero, False, numpy integer / float zeros) - because
   "a descriptor outside the basis causes an error rather than being
   ignored" has no exemption for a count that happens to be nothing.  The
   same zeros are given to IN-basis descriptors as explicit entries of the
   mapping (the quadratic form must not notice them).

2. RANGES.  The standard error is defined wherever the library's RMSE
   correlation is; the estimate's own validity range (the intersection of
   its groups' ranges, or whatever set_range() put there) is a different
   thing.  (a) library files: group shapes {H+S+Cp table, H+S only} x group
   ranges x RMSE ranges, homogeneous and mixed over the three descriptors;
   (b) histories of set_range() on the estimate.

3. The library's RMSE correlation UPDATED IN PLACE (ThermochemIncomplete
   .update on the object the library holds) between standard-error calls on
   an estimate made before: histories over {observe at T, update piece}.
"""
import itertools

# --------------------------------------------------------------- 1. counts

# token -> how decode() builds it; tokens are what witnesses carry (JSON)
COUNT_TOKENS = ['1', '-2', '0.217', '1e-12', '1e12',
                '0', '0.0', '-0.0', 'False',
                'i64:0', 'f64:0.0', 'f64:-0.0', 'f32:0.0', 'i64:3', 'True']
ZERO_TOKENS = ['0', '0.0', '-0.0', 'False', 'i64:0', 'f64:0.0', 'f64:-0.0',
               'f32:0.0']


def decode(tok):
    if tok == 'False':
        return False
    if tok == 'True':
        return True
    if ':' in tok:
        import numpy as np
        kind, v = tok.split(':')
        return {'i64': np.int64, 'f64': np.float64, 'f32': np.float32}[kind](
            float(v) if kind != 'i64' else int(v))
    if any(ch in tok for ch in '.e'):
        return float(tok)
    return int(tok)


def count_class(tok):
    return 'zero' if tok in ZERO_TOKENS else 'nonzero'


# --------------------------------------------------------------- 2. ranges

DESCRIPTORS = ['C(C)(H)3', 'C(C)2(H)2', 'C(C)3(H)']
_DATA = {  # descriptor -> (ND_H_ref, ND_S_ref, Cp at 300 K, Cp at 800 K)
    'C(C)(H)3': (-17.5, 15.25, 3.0, 5.0),
    'C(C)2(H)2': (-8.25, 4.75, 2.75, 4.0),
    'C(C)3(H)': (-3.5, -6.25, 2.25, 3.0),
}
# group letters: shape 'cp' = H + S + Cp table at 300 / 800 K (its range has
# to contain T_ref and the table), 'hs' = H + S only (any range goes)
GROUP_LETTERS = {
    # (a table without a range cannot be loaded: T_ref is outside its span)
    'cpT': ('cp', (298.15, 800)), 'cpA': ('cp', (250, 1000)),
    'cpB': ('cp', (290, 900)), 'cpW': ('cp', (100, 1500)),
    'hsN': ('hs', None), 'hsA': ('hs', (250, 1000)), 'hsM': ('hs', (400, 600)),
    'hsL': ('hs', (100, 200)),
}
MIXED_LETTERS = ['cpA', 'cpB', 'hsM']       # every intersection is non-empty
RMSE_RANGES = {'rA': (250, 1000), 'rW': (200, 1500), 'rT': (298.15, 800),
               'rX': (100, 2000)}
RANGE_TEMPS = (100.0, 200.0, 250.0, 270.0, 290.0, 298.15, 300.0, 400.0, 500.0,
               600.0, 800.0, 900.0, 1000.0, 1200.0, 1500.0)
RANGE_MAT = [[1.5, 0.5, -0.25], [0.0, 0.75, 0.375], [-1.0, -0.125, 2.0]]


def range_lib_names(tier):
    """'synr:<g0>,<g1>,<g2>:<rmse range>'"""
    assign = [(g, g, g) for g in GROUP_LETTERS]
    if tier == 'thorough':
        pool = list(GROUP_LETTERS)
        # mixed assignments whose common range is not empty
        more = []
        for t in itertools.product(pool, repeat=3):
            rs = [GROUP_LETTERS[g][1] for g in t if GROUP_LETTERS[g][1]]
            if rs and max(r[0] for r in rs) > min(r[1] for r in rs):
                continue
            more.append(t)
    else:
        more = list(itertools.product(MIXED_LETTERS, repeat=3))
    seen = set(assign)
    for t in more:
        if t not in seen:
            seen.add(t)
            assign.append(t)
    return ['synr:%s:%s' % (','.join(t), r) for t in assign
            for r in RMSE_RANGES]


def range_spec(name):
    _, gs, r = name.split(':')
    return gs.split(','), RMSE_RANGES[r]


def _rng(r):
    return '' if r is None else ', range: [%r K, %r K]' % (r[0], r[1])


def range_lib_text(name):
    """-> (library.yaml text, basis, matrix)"""
    letters, rr = range_spec(name)
    lines = ['groups:']
    for d, letter in zip(DESCRIPTORS, letters):
        shape, gr = GROUP_LETTERS[letter]
        h, s, c3, c8 = _DATA[d]
        cp = (', ND_Cp_data: [[300 K, %r], [800 K, %r]]' % (c3, c8)
              if shape == 'cp' else '')
        lines.append("  '%s': {thermochem: {T_ref: 298.15 K, ND_H_ref: %r, "
                     "ND_S_ref: %r%s%s}}" % (d, h, s, cp, _rng(gr)))
    lines += [
        'UQ:',
        '  RMSE: {thermochem: {T_ref: 298.15 K, ND_H_ref: -1.5, ND_S_ref: 0.75,'
        ' ND_Cp_data: [[300 K, 0.5], [800 K, 0.25]]%s}}' % _rng(rr),
        '  DOF: 7',
        '  InvCovMat:',
        '    groups: [%s]' % ', '.join("'%s'" % d for d in DESCRIPTORS),
        '    mat: %r' % (RANGE_MAT,), '']
    return '\n'.join(lines), list(DESCRIPTORS), [list(r) for r in RANGE_MAT]


def range_mappings(basis):
    return ([[(g, 0.217)] for g in basis] +
            [[(basis[1], 2), (basis[2], -1)],
             [(basis[0], 1), (basis[1], 2), (basis[2], -0.5)]])


# set_range() on the estimate.  JSON-able; None = "no range"
SET_RANGES = [None, [300.0, 500.0], [600.0, 900.0], [1000.0, 1500.0],
              [298.15, 1000.0], [400.0, 400.0], [1.0, 2.0]]
MOMENTS = ['before-first-SE', 'after-first-SE']


def set_range_histories(n):
    """All sequences of 1..n set_range() arguments (indices)."""
    out = []
    for k in range(1, n + 1):
        out += [list(h) for h in itertools.product(range(len(SET_RANGES)),
                                                   repeat=k)]
    return out


# ------------------------------------------ 3. RMSE correlation updated in place

# piece -> (what ThermochemGroup(...) gets besides T_ref, overwrite, T_ref to
# use: 'own' = the RMSE correlation's, or a number)
PIECES = {
    'H': (dict(ND_H_ref=3.25), True, 'own'),
    'S': (dict(ND_S_ref=2.5), True, 'own'),
    'HS': (dict(ND_H_ref=-4.5, ND_S_ref=1.125), True, 'own'),
    'Hneg': (dict(ND_H_ref=-7.0), True, 'own'),
    'H0': (dict(ND_H_ref=0.0), True, 'own'),
    # one point of the table replaced (300 K is a table point of every RMSE
    # correlation of the check); a piece with Cp only needs T_ref inside its
    # one-point span
    'Cp': (dict(ND_Cp_data={300.0: 0.875}), True, 300.0),
    # refused: differs, overwrite off -> ReadOnlyDataError, nothing changes
    'refused': (dict(ND_H_ref=11.0, ND_S_ref=12.0), False, 'own'),
    # nothing in it
    'empty': (dict(), True, 'own'),
}
QUICK_PIECES = ['H', 'S', 'Cp', 'H0', 'refused']
OBS_TEMPS = (298.15, 500.0)


def rmse_ops(pieces):
    return [['obs', T] for T in OBS_TEMPS] + [['mut', p] for p in pieces]


def rmse_histories(name, tier):
    """Histories (lists of ops) for library `name`; every history runs on a
    library object of its own."""
    if name == 'syn3':
        ops = rmse_ops(QUICK_PIECES if tier == 'quick' else list(PIECES))
        n = 3
    elif name.startswith('syn'):
        ops = rmse_ops(list(PIECES))
        n = 2
    else:
        # a shipped library costs 0.3 s to load: one walk through all pieces,
        # each between two observations at both temperatures, and (thorough)
        # each piece alone
        walk = []
        for p in PIECES:
            walk += [['obs', T] for T in OBS_TEMPS] + [['mut', p]]
        out = [walk]
        if tier == 'thorough':
            out += [[['obs', T], ['mut', p]] for p in PIECES for T in OBS_TEMPS]
        return out
    out = []
    for k in range(1, n + 1):
        out += [[list(o) for o in h] for h in itertools.product(ops, repeat=k)]
    return out
