"""Fifth-wave domains for C12 (shapes of a unit expression, YAML scalar styles
of bare numbers, one group's data split over the files of an include tree).
Nothing here imports pgradd.

* unit shapes: the SAME unit `E / (mol K)` written in every way the documented
  unit grammar (product by '*' or juxtaposition, '/', '^' with a plain or a
  parenthesised number, parentheses, plain numbers as factors) offers for a
  denominator: `/d`, `/(d)`, ` d^-1`, `*d^-1`, ` d^(-1)`, ` 1/d`, `*(1/d)`,
  ` (1/d)` behind the energy name; `1/d `, `1/d*`, `(1/d) `, `d^-1 `,
  `d^(-1)*`, `1/(d) ` in front of it; and for the two denominators of an
  entropy unit additionally the grouped writings `/(a b)`, ` (a*b)^-1`,
  ` 1/(a b)`, `1/(a*b) ` ... - every combination, both orders of (mol, K).
  Their SI factors come from the reference unit model, which reads the text
  itself.
* scalar styles: how a bare number (one that relies on a file-level default
  unit, or a non-dimensional value) is written as a YAML scalar: plain float,
  plain integer (integral values without '.0'), single-quoted, double-quoted,
  quoted integer.  A quoted scalar reaches the loader as text, a plain one as
  float / int.
* splits: every assignment of the pieces of ONE group's record (H_ref, S_ref,
  the Cp table - in two interleaved halves when it has at least two points -
  and the range) to two files of a library (the loaded file and a file it
  includes) that leaves neither without a piece, and every assignment of
  three pieces to the three files of an include chain / an include fan.
  Only splits whose blocks are each valid on their own are written: a block
  with table points but without the range must have the reference temperature
  within its points.
"""
import itertools

from . import w3_c12 as W3

# ------------------------------------------------------------- unit shapes

# a denominator d written BEHIND what precedes it
TRAIL = ('/%s', '/(%s)', ' %s^-1', '*%s^-1', ' %s^(-1)', ' 1/%s', '*(1/%s)', ' (1/%s)')
# ... and IN FRONT of what follows it
LEAD = ('1/%s ', '1/%s*', '(1/%s) ', '%s^-1 ', '%s^(-1)*', '1/(%s) ')
# two denominators written together, behind / in front
TRAIL2 = ('/(%s %s)', '/(%s*%s)', ' (%s %s)^-1', '*(%s*%s)^(-1)', ' 1/(%s %s)',
          ' 1/(%s*%s)', ' (1/(%s %s))', ' (1/%s/%s)', '*(%s^-1 %s^-1)')
LEAD2 = ('1/(%s %s) ', '1/(%s*%s)*', '(%s %s)^-1 ', '(1/(%s*%s)) ', '1/%s/%s ',
         '(1/%s/%s)*')
OLD_SHAPES = ('%s/mol', '%s/(mol K)', '%s/(mol*K)', '%s/mol/K')
SHAPE_ENERGIES = ('kcal', 'J', 'cal', 'kJ')


def enthalpy_shapes():
    """Templates (one %s: the energy name) of `energy per mol`."""
    out = ['%s' + t % 'mol' for t in TRAIL] + [l % 'mol' + '%s' for l in LEAD]
    assert len(set(out)) == len(out)
    return out


def entropy_shapes():
    """Templates (one %s: the energy name) of `energy per mol per K`."""
    out = []
    for a, b in (('mol', 'K'), ('K', 'mol')):
        for t1 in TRAIL:
            for t2 in TRAIL:
                out.append('%s' + t1 % a + t2 % b)
        for t in TRAIL2:
            out.append('%s' + t % (a, b))
        for l in LEAD:
            for t in TRAIL:
                out.append(l % a + '%s' + t % b)
        for l in LEAD2:
            out.append(l % (a, b) + '%s')
        for l1 in LEAD:
            for l2 in LEAD:
                out.append(l1 % a + l2 % b + '%s')
    assert len(set(out)) == len(out)
    return out


def shape_presentations():
    """(mode, uH, uS, uC) for every entropy shape, once as the file-level
    default and once as explicit unit; the heat-capacity unit is the shape
    half-way round the list, the enthalpy shapes and the energy names rotate
    (every enthalpy shape occurs with every mode several times)."""
    hs, ss = enthalpy_shapes(), entropy_shapes()
    for n, s in enumerate(ss):
        for j, m in enumerate(('default', 'explicit')):
            E = SHAPE_ENERGIES[(n + j) % len(SHAPE_ENERGIES)]
            E2 = SHAPE_ENERGIES[(n // 2 + 1) % len(SHAPE_ENERGIES)]
            yield (m, hs[(n + 5 * j) % len(hs)] % E, s % E2,
                   ss[(n + len(ss) // 2) % len(ss)] % E)


# ------------------------------------------------------------ scalar styles

STYLES = ('float', 'int', 'single', 'double', 'single-int', 'double-int')
OLD_STYLE = 'float'
NEW_STYLES = STYLES[1:]
KINDS = ('H', 'S', 'C', 'T')        # whose bare numbers a style applies to


def spell_bare(x, style):
    """A bare number as a YAML scalar.  Quoted scalars are written
    positionally (they reach the unit grammar, which has no exponents)."""
    if style == 'float':
        return W3.yaml_float(x)
    s = W3.positional(x)
    short = s[:-2] if s.endswith('.0') else s
    if style == 'int':
        # an integral value as a YAML int; other values stay floats
        return short if short != s and len(short.lstrip('-')) < 16 else W3.yaml_float(x)
    if style == 'single':
        return "'%s'" % s
    if style == 'double':
        return '"%s"' % s
    if style == 'single-int':
        return "'%s'" % short
    if style == 'double-int':
        return '"%s"' % short
    raise ValueError(style)


def style_assignments():
    """Which kinds carry which style: every new style on all four kinds at
    once, and on each single kind alone (the others plain floats)."""
    for st in NEW_STYLES:
        yield {k: st for k in KINDS}
    for st in NEW_STYLES:
        for k in KINDS:
            yield {k: st}


# ------------------------------------------------------------------- splits

def pieces_of(rec):
    """Names of the pieces a record's block can be cut into."""
    out = ['H', 'S']
    if len(rec['table']) >= 2:
        out += ['Cp-even', 'Cp-odd']
    elif rec['table']:
        out += ['Cp']
    if rec['range']:
        out.append('range')
    return out


def part(rec, pieces):
    """The record restricted to `pieces` (None = piece not written)."""
    table = []
    for k, pt in enumerate(rec['table']):
        if ('Cp' in pieces or ('Cp-even' in pieces and k % 2 == 0) or
                ('Cp-odd' in pieces and k % 2 == 1)):
            table.append(pt)
    return dict(rec, H=rec['H'] if 'H' in pieces else None,
                S=rec['S'] if 'S' in pieces else None, table=table,
                range=rec['range'] if 'range' in pieces else None)


def valid_part(rec, pieces):
    """Is the block made of `pieces` a valid block on its own?  The valid
    interval of a block is its range or, without one, the span of its table;
    the reference temperature must lie inside (the library refuses such a
    block whatever its units are: not this property's subject)."""
    p = part(rec, pieces)
    if p['range'] or not p['table']:
        return True
    Ts = [T for T, _ in p['table']]
    return min(Ts) <= rec['tref'] <= max(Ts)


def two_file_splits(rec):
    """Every assignment of the pieces to (loaded file, included file) that
    leaves neither empty and makes two blocks that are valid on their own
    -> [(pieces of the loaded file, pieces of the included file)]."""
    ps = pieces_of(rec)
    out = []
    for bits in itertools.product((0, 1), repeat=len(ps)):
        a = [p for p, b in zip(ps, bits) if b == 0]
        b = [p for p, b in zip(ps, bits) if b == 1]
        if a and b and valid_part(rec, a) and valid_part(rec, b):
            out.append((a, b))
    return out


TREES = ('chain', 'fan')


def three_file_splits(rec):
    """H, S and everything else (table and range) in three different files:
    all 6 assignments x the two trees of three files."""
    rest = [p for p in pieces_of(rec) if p not in ('H', 'S')]
    groups = [['H'], ['S'], rest]
    if not rest or not valid_part(rec, rest):
        return []
    return [(tree, [groups[i] for i in perm]) for tree in TREES
            for perm in itertools.permutations(range(3))]


def _inc(*paths):
    return 'include:\n' + ''.join('  - %s\n' % p for p in paths)


def lay_split(tree, texts):
    """texts: complete files (units block + the group's partial block) in the
    order loaded file, first included, (second included)."""
    if len(texts) == 2:
        return {'library.yaml': _inc('part1.yaml') + texts[0], 'part1.yaml': texts[1]}
    if tree == 'chain':
        return {'library.yaml': _inc('part1.yaml') + texts[0],
                'part1.yaml': _inc('sub/part2.yaml') + texts[1],
                'sub/part2.yaml': texts[2]}
    if tree == 'fan':
        return {'library.yaml': _inc('part1.yaml', 'sub/part2.yaml') + texts[0],
                'part1.yaml': texts[1], 'sub/part2.yaml': texts[2]}
    raise ValueError(tree)
