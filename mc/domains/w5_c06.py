"""Fifth-wave alphabets for C06 (pure data + a dictionary model; imports
nothing from pgradd).

RNG  estimates on a constructor-built library over groups whose declared
   ranges are ALL intervals [a, b], a < b, over a small endpoint alphabet
   {Z, 100, 300, 400, 1000} K, where the lowest endpoint Z is "zero kelvin" in
   every presentation of the zero alphabet (0.0, -0.0, the integer 0, the
   smallest denormal; thorough adds 1e-300 and 1e-9).  Every ORDERED pair of
   intervals (the same interval twice included: two distinct groups with
   equal ranges) is one estimate, so every relation two intervals can have is
   enumerated in both orders of the mapping: one before the other with a gap
   (DISJOINT: the intersection is empty), meeting in a single point (the
   intersection is that point), overlapping, one starting / ending / lying
   inside the other, equal.  Ordered triples over a reduced endpoint alphabet.

   Every group is complete (H, S and a three-point heat-capacity table) with
   its own reference temperature and table inside its own range, as the
   constructors demand.

   The expected range (max of the lower, min of the upper bounds) is computed
   here from the descriptions alone; max() < min() means the intersection is
   empty.

SETRANGE (used by the check) two further placements of a new range that a
   correlation WITH a table must refuse: one that excludes only the reference
   temperature, one that excludes the lowest table points (the fourth-wave
   alphabet already has one that excludes the highest and the single point
   T_ref).
"""
import itertools

# ------------------------------------------------------------------ RNG

ZEROS = {'quick': [('0.0', 0.0), ('-0.0', -0.0), ('int0', 0),
                   ('denormal', 5e-324)],
         'thorough': [('0.0', 0.0), ('-0.0', -0.0), ('int0', 0),
                      ('denormal', 5e-324), ('1e-300', 1e-300),
                      ('1e-9', 1e-9)]}
POINTS = [100.0, 300.0, 400.0, 1000.0]
# reduced alphabets for the triples
ZEROS3 = {'quick': [('0.0', 0.0)],
          'thorough': [('0.0', 0.0), ('-0.0', -0.0)]}
POINTS3 = {'quick': [100.0, 300.0, 1000.0],
           'thorough': [100.0, 300.0, 400.0, 1000.0]}

# inside temperatures below this are not probed in the RNG family: H/RT has a
# pole at 0 K whatever the implementation does (assumption stated in the check)
FLOOR = 1.0

COUNTS = {2: [1, 2], 3: [1, 2, 0.5]}


def _intervals(zeros, points):
    out = []
    for zn, z in zeros:
        for b in points:
            out.append(('%s..%g' % (zn, b), (z, b)))
    for a, b in itertools.combinations(points, 2):
        out.append(('%g..%g' % (a, b), (a, b)))
    return out


def intervals(arity, tier):
    """[(name, (lo, hi))] - the interval alphabet of pairs / triples."""
    if arity == 2:
        return _intervals(ZEROS[tier], POINTS)
    return _intervals(ZEROS3[tier], POINTS3[tier])


def interval(name):
    """name -> (lo, hi); the names of the thorough alphabets contain all."""
    for n, r in (_intervals(ZEROS['thorough'], POINTS)):
        if n == name:
            return r
    raise KeyError(name)


def rng_firsts(arity, tier):
    return [n for n, _ in intervals(arity, tier)]


def rng_cases(arity, first, tier):
    """All ordered selections WITH repetition of `arity` intervals that begin
    with `first` (one shard per first interval)."""
    names = [n for n, _ in intervals(arity, tier)]
    if first not in names:
        return
    for rest in itertools.product(names, repeat=arity - 1):
        yield dict(intervals=[first] + list(rest), counts=list(COUNTS[arity]))


def rng_group(i, name):
    """Description of the i-th group of a mapping: complete data, T_ref and a
    three-point table inside the interval."""
    lo, hi = interval(name)
    a, w = float(lo), float(hi) - float(lo)
    ts = [a + 0.25 * w, a + 0.5 * w, a + 0.75 * w]
    return dict(H=-5.0 - 1.25 * i, S=10.0 + 0.5 * i,
                cp=dict((t, 2.0 + t / 500.0 + 0.125 * i) for t in ts),
                T_ref=a + 0.4 * w, rng=(lo, hi))


def rng_groups(case):
    """-> [(group name, description, count)] in the order of the mapping."""
    return [('g%d' % i, rng_group(i, n), c)
            for i, (n, c) in enumerate(zip(case['intervals'], case['counts']))]


def model_range(descs):
    rs = [d['rng'] for d in descs if d['rng'] is not None]
    if not rs:
        return None
    return (max(r[0] for r in rs), min(r[1] for r in rs))


def relation(descs):
    """Coarse name of how the ranges lie (for the outcome histogram)."""
    w = model_range(descs)
    if w[0] > w[1]:
        return 'disjoint'
    if w[0] == w[1]:
        return 'single-point'
    if len(set((float(d['rng'][0]), float(d['rng'][1])) for d in descs)) == 1:
        return 'equal'
    return 'overlap'


# ------------------------------------------------------------------ SETRANGE

def refusing_placements(lo, hi, knots, tref):
    """Further placements of a new range [(name, range)] for the SETRANGE
    family; a correlation with a table must refuse them (they leave T_ref or
    table points outside), one without a table may accept them."""
    out = [('excludes-Tref-only', (tref + 0.5, hi))]
    ks = sorted(knots)
    if len(ks) >= 2:
        out.append(('excludes-low-table', (0.5 * (ks[0] + ks[1]), hi)))
    else:
        out.append(('above-Tref+100', (tref + 100.0, hi + 100.0)))
    return out
