"""Wave-5 alphabets for C04 (nothing here imports pgradd).

1. RINGS / ring_writings(): monocyclic components written from every ring
   atom in both directions.  The pair space of C04 so far used one spelling
   per molecule (the canonical one, which starts every small heterocycle at a
   carbon), so "which atom of which ring comes first in the input" was never
   varied although the component order was.

2. SPLIT / SPLIT_SCHEDULES: the events "decompose X", "estimate X from its
   decomposition (and evaluate it)" for X in A, B, A.B as separate events on
   one library object, over an alphabet with homologous series (members of a
   series decompose to the same kinds of groups with different counts).
"""
import itertools

# ---------------------------------------------------------------- rings
# (label, ring atoms in order, bond between atom i and atom i+1 (mod n))
# lower-case atoms: aromatic spelling, bonds implicit.
RINGS = [
    ('cyclopropane', 'CCC', '---'),
    ('oxirane', 'OCC', '---'),
    ('cyclopropene', 'CCC', '=--'),
    ('oxolane', 'OCCCC', '-----'),
    ('furan (Kekule)', 'OCCCC', '-=-=-'),
    ('furan (aromatic)', 'occcc', '-----'),
    ('cyclopentadiene', 'CCCCC', '=-=--'),
    ('cyclohexane', 'CCCCCC', '------'),
    ('cyclohexene', 'CCCCCC', '=-----'),
    ('1,3-cyclohexadiene', 'CCCCCC', '=-=---'),
    ('1,4-cyclohexadiene', 'CCCCCC', '=--=--'),
    ('benzene (Kekule)', 'CCCCCC', '=-=-=-'),
    ('benzene (aromatic)', 'cccccc', '------'),
    ('oxane', 'OCCCCC', '------'),
    ('1,4-dioxane', 'OCCOCC', '------'),
    ('2H-pyran', 'OCCCCC', '--=-=-'),
    ('4H-pyran', 'OCCCCC', '-=--=-'),
    ('pyridine (aromatic)', 'nccccc', '------'),      # outside every vocabulary
]
RINGS_THOROUGH = [
    ('cyclobutane', 'CCCC', '----'),
    ('oxetane', 'OCCC', '----'),
    ('cyclobutene', 'CCCC', '=---'),
    ('cyclopentane', 'CCCCC', '-----'),
    ('cyclopentene', 'CCCCC', '=----'),
    ('1,3-dioxolane', 'OCOCC', '-----'),
    ('1,3-dioxane', 'OCOCCC', '------'),
    ('pyridine (Kekule)', 'NCCCCC', '=-=-=-'),
    ('cycloheptane', 'CCCCCCC', '-------'),
    ('oxepane', 'OCCCCCC', '-------'),
    ('cycloheptatriene', 'CCCCCCC', '=-=-=--'),
]


def write_ring(atoms, bonds, start, step):
    """SMILES of the monocycle beginning at ring atom `start` and walking in
    direction `step` (+1 / -1); the closing bond's symbol is written at the
    closing digit."""
    n = len(atoms)
    order = [(start + step * k) % n for k in range(n)]

    def bond(i, j):
        # bond k joins atoms k and k+1
        if (i + 1) % n == j:
            b = bonds[i]
        else:
            assert (j + 1) % n == i
            b = bonds[j]
        return '' if b == '-' else b
    s = atoms[order[0]] + '1'
    for k in range(1, n):
        s += bond(order[k - 1], order[k]) + atoms[order[k]]
    s += bond(order[-1], order[0]) + '1'
    return s


def ring_writings(tier):
    """[(label, [distinct writings, first = start 0 forwards])] - every start
    atom x both directions, textual duplicates (symmetry) removed."""
    out = []
    for label, atoms, bonds in RINGS + (RINGS_THOROUGH if tier != 'quick' else []):
        ws = []
        for step in (1, -1):
            for start in range(len(atoms)):
                w = write_ring(atoms, bonds, start, step)
                if w not in ws:
                    ws.append(w)
        out.append((label, ws))
    return out


# partner rings of the quick tier (a three-ring, a five-ring and the
# six-rings of each kind: saturated, diene, Kekule / aromatic benzene, with
# oxygen, outside the vocabulary)
PARTNERS = ['cyclopropane', 'oxirane', 'furan (aromatic)', 'cyclohexane',
            '1,3-cyclohexadiene', 'benzene (Kekule)', 'benzene (aromatic)',
            '1,4-dioxane', '2H-pyran', 'pyridine (aromatic)']


def ring_pairs(tier):
    """Ordered pairs of writings.  quick: (every writing of X, first writing
    of Y) and (first writing of Y, every writing of X) for all ring molecules
    X and the ten partner rings Y; thorough: every writing with every
    writing."""
    rw = ring_writings(tier)
    allw = [w for _l, ws in rw for w in ws]
    if tier != 'quick':
        return list(itertools.product(allw, repeat=2))
    firsts = [ws[0] for l, ws in rw if l in PARTNERS]
    assert len(firsts) == len(PARTNERS)
    seen, out = set(), []
    for w in allw:
        for f in firsts:
            for p in ((w, f), (f, w)):
                if p not in seen:
                    seen.add(p)
                    out.append(p)
    return out


# ---------------------------------------------------------------- split
# molecules for the decompose / estimate schedules: homologous series (alkanes,
# 1-alkanols, 1-alkyl adsorbates) next to the first members already used
SPLIT = ['CC', 'CCC', 'CCCC', 'CCO', 'CCCO', 'C', 'CC=O',
         'CC[Pt]', 'CCC[Pt]', 'C([Pt])C[Pt]', 'C([Pt])CC[Pt]',
         'CC[Ru]', 'CCC[Ru]', 'C([Ru])C[Ru]']
SPLIT_EVENTS = ('dA', 'dB', 'dP', 'eA', 'eB', 'eP')   # d = decompose, e = estimate
SPLIT_SCHEDULES = [p for p in itertools.permutations(SPLIT_EVENTS)
                   if all(p.index('d' + k) < p.index('e' + k) for k in 'ABP')]
assert len(SPLIT_SCHEDULES) == 90
# thorough: evaluation is a third, separate event per species
SPLIT_EVENTS3 = SPLIT_EVENTS + ('vA', 'vB', 'vP')


def split_schedules3():
    return [p for p in itertools.permutations(SPLIT_EVENTS3)
            if all(p.index('d' + k) < p.index('e' + k) < p.index('v' + k)
                   for k in 'ABP')]
