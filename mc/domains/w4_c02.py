"""Fourth-wave additions to the C02 domains (DESIGN.md 10.11).  Imports
nothing from pgradd.

Family Z: SIX-MEMBERED RINGS, position by position.

The input normalisation the statement's decomposition starts from contains one
step that looks at six ring positions one after the other: a six-ring becomes
a Benson aromatic ring only if EACH of its six atoms is a carbon and EACH of
its six bonds continues the single/double alternation.  M(n) stops at 3-4
heavy atoms and the curated list holds a handful of six-rings, each in one
spelling, so "the atom (bond) at ring position k" was exercised for whatever
k the one spelling happened to give.  Here the ring is enumerated as a WORD,
one letter per ring position, and every word is written to SMILES starting at
its first letter - so every constitution occurs with each of its atoms as the
first one and in both directions round the ring:

  Z1  ring atoms: every word over {C, N}^6 (64) x the two Kekule phases of
      three alternating double bonds (first ring bond double / single), plus
      the lower-case (aromatic) spelling of every word: 192 SMILES.  The
      nitrogens are the pyridine-type '=N-' of the PPY scheme and outside the
      vocabulary of the other schemes (failure clause).
  Z2  ring bonds: the all-carbon ring x every word over {single, double}^6
      (64; cyclohexane, the cyclohexenes and -dienes in every position, both
      benzene phases, cumulated bonds).
  Z3  one methyl substituent: every Z1 Kekule word x phase x every ring
      position holding a carbon (the substituent moves the SMILES ring-opening
      atom away from the first written atom and puts a non-ring neighbour on
      each ring position in turn).
  Z4  (thorough) ring atoms over {C, N, O}^6 x every ring-bond word without
      two adjacent double bonds (18), kept when RDKit accepts the valences
      (pyrans, dioxins, oxazines, dihydropyridines, ... in every position).

Nothing is de-duplicated by canonical SMILES: the different spellings of one
molecule are the point.  Exact duplicates of a string are removed.
"""
import itertools

from rdkit import Chem, RDLogger

RDLogger.DisableLog('rdApp.*')

ATOMS_Q = ('C', 'N')
ATOMS_T = ('C', 'N', 'O')
PHASES = ('=-=-=-', '-=-=-=')


def ring_smiles(atoms, bonds, subst=None, lower=False):
    """Ring word -> SMILES.  atoms[k] is ring position k, bonds[k] joins
    position k and k+1 (bonds[5] closes the ring onto position 0).  subst:
    {position: branch SMILES}."""
    s = ''
    for k in range(6):
        a = atoms[k].lower() if lower else atoms[k]
        if k == 0:
            # the closing bond is written at the ring-opening digit
            s += a + ('' if lower or bonds[5] == '-' else bonds[5]) + '1'
        else:
            s += ('' if lower or bonds[k - 1] == '-' else bonds[k - 1]) + a
        if k == 5:
            s += '1'
        if subst and k in subst:
            s += '(%s)' % subst[k]
    return s


def _ok(smi):
    return Chem.MolFromSmiles(smi) is not None


def z1():
    out = []
    for w in itertools.product(ATOMS_Q, repeat=6):
        for ph in PHASES:
            out.append(ring_smiles(w, ph))
        out.append(ring_smiles(w, PHASES[0], lower=True))
    return out


def z2():
    return [ring_smiles('CCCCCC', ''.join(b))
            for b in itertools.product('-=', repeat=6)]


def z3():
    out = []
    for w in itertools.product(ATOMS_Q, repeat=6):
        for ph in PHASES:
            for k in range(6):
                if w[k] == 'C':
                    out.append(ring_smiles(w, ph, {k: 'C'}))
    return out


def no_adjacent_double():
    for b in itertools.product('-=', repeat=6):
        if not any(b[k] == '=' and b[(k + 1) % 6] == '=' for k in range(6)):
            yield ''.join(b)


def z4():
    pats = list(no_adjacent_double())
    out = []
    for w in itertools.product(ATOMS_T, repeat=6):
        for b in pats:
            out.append(ring_smiles(w, b))
    return out


_CACHE = {}


def six_rings(tier):
    """-> list of SMILES RDKit can read, exact duplicates removed."""
    if tier not in _CACHE:
        fam = z1() + z2() + z3()
        if tier != 'quick':
            fam += z4()
        seen, out = set(), []
        for s in fam:
            if s not in seen:
                seen.add(s)
                if _ok(s):
                    out.append(s)
        _CACHE[tier] = out
    return _CACHE[tier]
