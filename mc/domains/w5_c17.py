"""Fifth-wave domains for C17 (network generation).

Three families, all enumerated exhaustively by props/c17.py, and one further
input type (`seed_as`): a seed is handed to the generator either as SMILES
TEXT or as an RDKit MOLECULE OBJECT (Chem.MolFromSmiles(text), i.e. fully
sanitized, stereo perceived) - both are documented input types.

STEREO - seeds that carry a stereo label.  Four skeletons, each in EVERY stereo
  labelling it admits (none / E / Z for the double bond, none / @ / @@ for the
  centre): 1,2-difluoroethene, methyloxirane, the 2-chloro-2-fluoroethyl
  radical, bromochlorofluoromethane.  Rule pool: {C-H, C-O scission, C=C ->
  .C-C., .C-C. -> C=C, 1,2-H shift, oxirane ring opening (SMARTS form only),
  1,3-ring closure .C-C-O. -> oxirane}; the pairs (DEC, INC), (CO, RCLOSE) in
  RING form, (ROPEN, RCLOSE) in SMARTS form, and HSHIFT alone regenerate the
  seed's constitution through a cycle, without the label.  A species is a
  CONSTITUTION here (the rules carry no stereo information and the stated
  property speaks of species): both the reference closure (computed on the
  unlabelled skeleton) and the returned list are compared by their
  non-isomeric canonical SMILES.

HYPER - seeds holding an atom ABOVE the default valence of its element (the
  valence filter is a filter on products; a seed belongs to its network
  whatever its valences are).  (i) methyl-X=O / methyl-X(=O)=O for every
  further tabulated valence of P, S, As, Se, I; (ii) DMSO, dimethyl sulfone,
  SO2, phosphoric acid; (iii) onium / ate ions: methylammonium, ammonium,
  methyloxonium, oxonium, nitromethane, methylborohydride, borohydride.
  Seed sets: the seed alone, and methane followed by the seed.  Rule pool:
  {C-H, O-H, X-H, C-X scission} for the hetero element X of the seed.

OPEN - aromatic seeds (the 12 spellings of domains/w4_c17) with rules whose
  pattern SPANS A BOND OF THE AROMATIC RING, so the ring is opened: c:c, c:n,
  c:o scission with an explicit aromatic bond, c~c / c~o scission with the
  default SMARTS bond ("single or aromatic"), [#6][#6] scission, together
  with aryl C-C and aryl C-O scission (thorough: also aryl C-H scission).  Reaction SMARTS only: a RING rule that breaks an
  aromatic bond is not electron-balanced (order 1.5) and the reader refuses
  it.  The open-chain fragments keep their aromatic flags and cannot be
  kekulized, so their SMILES presentation is not canonical across
  sanitisation routes; species are therefore compared by a presentation-free
  key of the returned molecule: canonical SMILES of the heavy-atom graph with
  every bond single, aromatic flags and radicals cleared, charges kept and
  the hydrogen count of every atom written out (H-count + connectivity).  In
  this family bond orders only change by breaking a bond, so the key loses
  nothing.  Where the reference closure itself holds two species with one key
  (a ring-less fragment once with and once without aromatic flags, produced by
  `[#6]` and `[c]` product templates) the instance is left unjudged.

Rule entries have the shape used by c17.POOL:
  name -> (reaction SMARTS, RING pattern atoms, RING edit sequence)
"""
from . import w3_c17 as W3
from . import w4_c17 as W4

SCISSION = [('radinc', 0), ('radinc', 1), ('break', 0, 1, None)]
SEED_AS = ('text', 'mol')

# ------------------------------------------------------------------ stereo

# skeleton (no label), labelled spellings
STEREO = [
    ('FC=CF',        ['F/C=C/F', 'F/C=C\\F']),
    ('CC1CO1',       ['C[C@H]1CO1', 'C[C@@H]1CO1']),
    ('[CH2]C(F)Cl',  ['[CH2][C@H](F)Cl', '[CH2][C@@H](F)Cl']),
    ('FC(Cl)Br',     ['F[C@H](Cl)Br', 'F[C@@H](Cl)Br']),
]
STEREO_SEEDS = [s for sk, lab in STEREO for s in [sk] + lab]
STEREO_BASE = ['CH', 'CO', 'DEC', 'INC', 'HSHIFT']       # names of c17.POOL
STEREO_RULES = sorted(STEREO_BASE + ['RCLOSE', 'ROPEN'])


def stereo_pool():
    return {
        # the three-membered ring opens to the 1,3-diradical; reaction SMARTS
        # only, written in ONE product template (RunReactants does not open a
        # ring with the two-template form of the C-O scission; in RING form
        # the C-O scission of the base pool opens it)
        'ROPEN': ('[C:1]1-[C:2]-[O:3]1>>[C:1]-[C:2]-[O:3]', None, None),
        # 1,3-diradical .C-C-O. closes to the three-membered ring
        'RCLOSE': ('[C;v3:1]-[C:2]-[O;v1:3]>>[C:1]1-[C:2]-[O:3]1',
                   [('C.', None), ('C?', ('single', 0)), ('O.', ('single', 1))],
                   [('form', 0, 2, None), ('raddec', 0), ('raddec', 2)]),
    }


def skeleton(seed):
    """The seed text without its stereo labels (own table, no chemistry)."""
    for sk, lab in STEREO:
        if seed == sk or seed in lab:
            return sk
    raise KeyError(seed)


# ------------------------------------------------------------------- hyper

# hetero element, seed
HYPER = [
    ('P',  'C[PH2]=O'), ('S',  'C[SH]=O'), ('S',  'C[SH](=O)=O'),
    ('As', 'C[AsH2]=O'), ('Se', 'C[SeH]=O'), ('Se', 'C[SeH](=O)=O'),
    ('I',  'CI=O'), ('I',  'CI(=O)=O'),
    ('S',  'CS(C)=O'), ('S',  'CS(C)(=O)=O'), ('S',  'O=S=O'),
    ('P',  'OP(O)(O)=O'),
    ('N',  'C[NH3+]'), ('N',  '[NH4+]'), ('O',  'C[OH2+]'), ('O',  '[OH3+]'),
    ('N',  'C[N+](=O)[O-]'), ('B',  'C[BH3-]'), ('B',  '[BH4-]'),
]
HYPER_SEEDS = [s for _, s in HYPER]


def hyper_rules(seed):
    """Names of the rules of a hyper seed (c17.POOL and w3 hetero names)."""
    for x, s in HYPER:
        if s == seed:
            return sorted(set(['CH', 'OH', x + ':XH', x + ':CX']))
    raise KeyError(seed)


def hyper_seedsets(seed):
    return [(seed,), ('C', seed)]


# -------------------------------------------------------------------- open

OPEN_SEEDS = list(W4.ARO_SEEDS)


def open_pool():
    return {
        'op:c:c': ('[c:1]:[c:2]>>[c:1].[c:2]', None, None),
        'op:c:n': ('[c:1]:[n:2]>>[c:1].[n:2]', None, None),
        'op:c:o': ('[c:1]:[o:2]>>[c:1].[o:2]', None, None),
        'op:cc':  ('[c:1][c:2]>>[c:1].[c:2]', None, None),
        'op:co':  ('[c:1][o:2]>>[c:1].[o:2]', None, None),
        'op:66':  ('[#6:1][#6:2]>>[#6:1].[#6:2]', None, None),
    }


# aryl substituent scissions in both tiers; aryl C-H scission (closures of
# 130-140 species on the substituted rings) in the thorough tier only
OPEN_RULES = {'quick': sorted(open_pool()) + ['ar:cC', 'ar:cO'],
              'thorough': sorted(open_pool()) + ['ar:cC', 'ar:cH', 'ar:cO']}


def flat_key(mol):
    """Presentation-free key of a species: heavy-atom connectivity, element,
    charge and hydrogen count of every atom (bond orders, aromatic flags,
    radical counts and stereo labels are not part of it).  Hydrogens bonded
    to a heavy atom are counted on it, whether they are graph atoms or not;
    the count n is written as the isotope label n+1 of the atom (so [4C][1C]
    is CH3-C), which keeps it in the text whatever the writer thinks of the
    valence."""
    from rdkit import Chem

    def folded(a):
        return a.GetAtomicNum() == 1 and any(
            n.GetAtomicNum() != 1 for n in a.GetNeighbors())
    rw = Chem.RWMol()
    idx = {}
    for a in mol.GetAtoms():
        if folded(a):
            continue
        b = Chem.Atom(a.GetAtomicNum())
        b.SetFormalCharge(a.GetFormalCharge())
        nh = a.GetNumExplicitHs()
        if a.GetAtomicNum() != 1:
            nh += sum(1 for n in a.GetNeighbors() if n.GetAtomicNum() == 1)
        b.SetIsotope(nh + 1)        # always written, and part of the ranking
        b.SetNoImplicit(True)
        idx[a.GetIdx()] = rw.AddAtom(b)
    for bd in mol.GetBonds():
        i, j = bd.GetBeginAtomIdx(), bd.GetEndAtomIdx()
        if i in idx and j in idx:
            rw.AddBond(idx[i], idx[j], Chem.BondType.SINGLE)
    m = rw.GetMol()
    m.UpdatePropertyCache(strict=False)
    return Chem.MolToSmiles(m)      # no stereo in m; isotope labels written


def closure_by(seeds, rules, present, max_species=5000):
    """The breadth-first closure of models/closure.py (same preparation of
    seeds and products, same valence filter, same species identity while
    searching), reporting every species through `present(mol)` instead of its
    hydrogen-suppressed SMILES.  -> (sorted keys, n_species, n_transitions)"""
    import collections
    from rdkit import Chem
    from ..models import closure as CL
    seen = {}
    todo = collections.deque()
    for s in seeds:
        m = CL.prep(s)
        k = Chem.MolToSmiles(m)
        if k not in seen:
            seen[k] = m
            todo.append(m)
    ntrans = 0
    while todo:
        m = todo.popleft()
        for r in rules:
            for ps in r.products(m):
                ntrans += 1
                for p in ps:
                    CL.tidy(p)
                    if CL.overvalent(p):
                        continue
                    k = Chem.MolToSmiles(p)
                    if k not in seen:
                        if len(seen) >= max_species:
                            raise OverflowError('closure too large')
                        seen[k] = p
                        todo.append(p)
    return sorted(present(m) for m in seen.values()), len(seen), ntrans


def all_rules():
    out = {}
    out.update(stereo_pool())
    out.update(open_pool())
    return out
