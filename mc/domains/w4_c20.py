"""Fourth-wave alphabets for C20 (nothing here imports pgradd).

1. The COMMON FACTOR applied to all counts: a magnitude ladder from 1e-12 to
   1e12 (17 magnitudes, denser where a count weighted by a mole fraction or a
   Boltzmann population lives: 1e-9 .. 1e-2, with two non-decimal mantissas)
   x both signs, and the two zeros.  k^2 x'Mx stays far inside the double
   range for every matrix of the check, so |k| SE(x) is representable and the
   oracle can be purely RELATIVE (the older families compare with an absolute
   floor of 1e-9, under which a standard error of 1e-11 and one of 0 look the
   same).

2. Libraries assembled BY HAND instead of by GroupLibrary.Load: a history is a
   sequence of builds (route, source) made one after the other in ONE
   process; every library built so far is observed after every step.

   routes   default   GroupLibrary(scheme), then Update(source)
            explicit  GroupLibrary(scheme, {}, {}), then Update(source)
            ctor      GroupLibrary(scheme, source's groups[, copy of the
                      source's uncertainty block]) - no Update at all
            load      a fresh GroupLibrary.Load of the source's file
                      (synthetic sources only: a shipped load costs 0.3 s)
   sources  4 with uncertainty data (2 shipped, 2 synthetic over the same
            scheme and the same basis but different matrices) and 2 without
            (1 shipped, 1 synthetic).
"""
import itertools

# ------------------------------------------------------- common factor

MAGNITUDES = [1e-12, 1e-9, 1e-8, 1e-7, 1e-6, 3e-6, 1e-5, 3e-5, 1e-4, 1e-3,
              1e-2, 1e2, 1e3, 1e4, 1e6, 1e9, 1e12]
ZEROS = [0.0, -0.0]


def factors():
    out = []
    for m in MAGNITUDES:
        out.append(m)
        out.append(-m)
    return out + list(ZEROS)


# ------------------------------------------------------- hand-built libraries

UQ_SOURCES = ['GRWSurface2018', 'GuSolventGA2017Vac', 'syn3', 'synint']
PLAIN_SOURCES = ['synplain', 'GuSolventGA2017Aq']       # no uncertainty data
SOURCES = UQ_SOURCES + PLAIN_SOURCES
SYNTHETIC = ['syn3', 'synint', 'synplain']
ROUTES = ['default', 'explicit', 'ctor', 'load']


def letters():
    """(route, source) pairs a history is made of."""
    return [(r, s) for r in ROUTES for s in SOURCES
            if r != 'load' or s in SYNTHETIC]


# third steps: the two Update routes over the cheap sources
SHORT = [(r, s) for r in ('default', 'explicit') for s in SYNTHETIC]
# thorough: every hand-made route over every source
LONG = [(r, s) for r in ('default', 'explicit', 'ctor') for s in SOURCES]


def histories(tier):
    """Shortest first.  quick: all histories of <= 2 builds over letters(),
    and all of 3 builds over SHORT; thorough: 3 builds over LONG as well."""
    L = letters()
    out = [[a] for a in L]
    out += [[a, b] for a in L for b in L]
    three = [list(h) for h in itertools.product(SHORT, repeat=3)]
    if tier == 'thorough':
        seen = set(tuple(h) for h in three)
        three += [list(h) for h in itertools.product(LONG, repeat=3)
                  if tuple(h) not in seen]
    return out + three
