"""Fifth-wave domain of C16: rules whose pattern REPEATS an atom label.  Plain
data, text building and bookkeeping; nothing here imports pgradd.

Repeated labels are legal RING (the bundled scheme files write e.g. the
hydrogens of a centre all as `H labeled h`), so a rule may name, in an edit, a
label that several pattern atoms carry.  The property does not say which of
them the label then names; it does say that the edits are applied to matched
atoms and that no labelled atom may be left unbalanced.  The family therefore
works with READINGS:

  a pattern   = atoms (structure, as in models/ruleref.py) + labs, the label
                text of every atom (labs[i] == labs[j] <=> atoms i and j share
                a label); a BLOCK is the set of atoms with one label;
  an edit     = a ruleref edit tuple whose atom positions are BLOCK numbers
                (blocks numbered by their first atom), written with the
                block's label;
  a reading   = one carrier atom per block (the label means that atom in every
                edit of the rule);  resolve(seq, reading) is the ordinary
                atom-level edit sequence under that reading.

A verdict is demanded only where every reading gives the same one:
  every reading well defined and unbalanced -> Read must raise RINGReaderError
  every reading well defined and balanced   -> Read must return a rule, and
        there must be ONE reading under which the rule's product sets equal
        the reference product sets for every molecule of the molecule set
  anything else (some reading ill defined / a documented refusal / readings
        that disagree on the balance)       -> enumerated, not judged.

Structure stays unambiguous: `bond to <label>` in the pattern text is only
written where exactly one atom declared before the bonded atom carries that
label (labellings that would need more are left out - see labellings()).

Enumerated:
  rep2 : every two-atom pattern of the unimolecular family, both atoms with
         the same label (one block): all sequences of length <= 3 over
         {radical +1, radical -1, radical := 0, radical := 1} on that label
  rep3 : three-atom patterns over {C?, C., H} with single / double bonds, as a
         chain (third atom on the second) and as a star (third atom on the
         first), x every labelling with a repeated label that keeps the
         structure unambiguous (third atom repeats the first, or repeats the
         second: 2 labellings per shape) x all sequences of length <= 2 over
         the full block-level edit alphabet and of length 3 over the basic one
         (thorough: + 4-atom single-bonded chains and stars over {C?, H} with
         every admissible labelling, sequences of length <= 2 over the basic
         alphabet and over the radical edits {+1, -1, := 0, := 1} of every
         label, length 3 over the radical edits of the first repeated label)
The block-level alphabet offers the bond edits of a bonded pair AND of a
non-bonded pair for every pair of blocks (whether the pair is bonded depends
on the reading).
"""
import itertools

from ..models import ruleref

ATOMS3 = ['C?', 'C.', 'H']


def blocks_of(labs):
    """-> (block number of every atom, carriers per block); blocks are numbered
    in order of their first atom"""
    first, of, carriers = {}, [], []
    for i, l in enumerate(labs):
        if l not in first:
            first[l] = len(carriers)
            carriers.append([])
        of.append(first[l])
        carriers[first[l]].append(i)
    return of, carriers


def readings(labs):
    _, carriers = blocks_of(labs)
    return list(itertools.product(*carriers))


def resolve(seq, reading):
    out = []
    for e in seq:
        k = e[0]
        if k in ('radinc', 'raddec'):
            out.append((k, reading[e[1]]))
        elif k == 'radset':
            out.append((k, reading[e[1]], e[2]))
        elif k in ('inc', 'dec'):
            out.append((k, reading[e[1]], reading[e[2]]))
        else:
            out.append((k, reading[e[1]], reading[e[2]], e[3]))
    return tuple(out)


def unambiguous(atoms, labs):
    """every `bond to <label>` of the pattern text names exactly one of the
    atoms declared before the bonded atom"""
    for k, (_, b) in enumerate(atoms):
        if b is None:
            continue
        j = b[1]
        if any(i != j and labs[i] == labs[j] for i in range(k)):
            return False
    return True


def labellings(atoms):
    """every labelling of the atoms with at least one repeated label that
    keeps the structure unambiguous; a block is called a<first atom>"""
    n = len(atoms)
    out = []

    def grow(prefix, nblocks):
        if len(prefix) == n:
            if nblocks < n:
                firsts = {}
                for i, b in enumerate(prefix):
                    firsts.setdefault(b, i)
                labs = ['a%d' % firsts[b] for b in prefix]
                if unambiguous(atoms, labs):
                    out.append(labs)
            return
        for b in range(nblocks + 1):
            grow(prefix + [b], max(nblocks, b + 1))
    grow([], 0)
    return out


def block_alphabet(nblocks, full):
    E = []
    for b in range(nblocks):
        E += [('radinc', b), ('raddec', b)]
        if full:
            E += [('radset', b, 0), ('radset', b, 1)]
    for i, j in itertools.combinations(range(nblocks), 2):
        E += [('break', i, j, None), ('inc', i, j), ('dec', i, j), ('form', i, j, None)]
        if full:
            E += [('break', i, j, 'single'), ('break', j, i, 'double'),
                  ('modify', i, j, 'single'), ('modify', i, j, 'double'),
                  ('modify', j, i, 'triple'), ('modify', i, j, 'aromatic'),
                  ('form', j, i, 'double'), ('form', i, j, 'aromatic')]
    return E


def rep_sequences(atoms, labs, tier):
    _, carriers = blocks_of(labs)
    nb = len(carriers)
    full = block_alphabet(nb, True)
    basic = block_alphabet(nb, False)
    if nb == 1:
        plan = [(1, full), (2, full), (3, full)]
    elif len(atoms) <= 3:
        plan = [(1, full), (2, full), (3, basic)]
    else:
        rad = [e for e in full if e[0].startswith('rad')]
        plan = [(1, basic), (2, basic), (1, rad), (2, rad), (3, [e for e in rad if e[1] == _repeated(carriers)])]
    seen = set()
    for L, E in plan:
        for seq in itertools.product(E, repeat=L):
            if seq not in seen:
                seen.add(seq)
                yield seq


def _repeated(carriers):
    for b, c in enumerate(carriers):
        if len(c) > 1:
            return b
    return 0


def rep3_structures(tier):
    """-> list of groups (one shard each) of structural patterns"""
    groups = []
    for els in itertools.product(ATOMS3, repeat=3):
        g = []
        for k1, k2 in itertools.product(['single', 'double'], repeat=2):
            for hub in (1, 0):      # chain, star
                g.append([(els[0], None), (els[1], (k1, 0)), (els[2], (k2, hub))])
        groups.append(g)
    if tier == 'thorough':
        for els in itertools.product(['C?', 'H'], repeat=4):
            g = []
            for h2, h3 in ((1, 2), (0, 0), (1, 1), (0, 1), (0, 2), (1, 0)):
                g.append([(els[0], None), (els[1], ('single', 0)),
                          (els[2], ('single', h2)), (els[3], ('single', h3))])
            groups.append(g)
    return groups


def pattern_text(atoms, labs):
    return ruleref.pattern_text(atoms, lambda i: labs[i])


def rule_text(atoms, labs, seq):
    """seq is block-level; a block is written with its label"""
    _, carriers = blocks_of(labs)
    blab = lambda b: labs[carriers[b][0]]      # noqa
    return 'rule x{ reactant r1{ %s } %s }' % (
        pattern_text(atoms, labs), ' '.join(ruleref.edit_text(e, blab) for e in seq))
