"""Third-wave domains for C11 (imports nothing from pgradd).

1. Non-finite magnitudes.  IEEE values for which `not (a < b)` is NOT the same
   as `a >= b` (nan), and the two infinities.  They are appended to the
   magnitude alphabet of C11 everywhere that alphabet is used (every shape
   pair, every form, every operation, unary operations and conversions).

2. A lattice of fractional-exponent dimensions.  All exponent vectors
   m^a s^b with a, b from a small alphabet of quarter/half steps, plus a
   longer run of exponents on m alone.  Every exponent is a multiple of 1/8
   after the powers used by the check, i.e. exactly representable in binary
   floating point, so "same dimension" is unambiguous for the reference.  The
   alphabet is chosen so that for every way of coarsening an exponent that is
   visible as a temptation in FundamentalUnits (truncate, floor, round half
   even, round half up, a tolerance that is too wide) there are two different
   lattice points that the coarsening merges:
       truncate : 1.5|1, 2.5|2, 0.5|-0.5 (both 0), 0.25|0.5, -1.5|-1
       floor    : -0.5|-1, 1.25|1
       round    : 1.5|2, 2.5|2, 0.5|0 and 0.5|1 (other base), 1.25|1
       tolerance: 1.25|1.5 (0.25 apart), 0.25|0.5
   and dimensions that differ in BOTH bases (m^0.5 vs s^0.5: every exponent
   below 1) as well as in one only.

   Each lattice point can be constructed by two routes: the unit text
   ('m^1.5 s^-0.5') and arithmetic on the base units ((m**1.5)*(s**-0.5)).
"""
import math

NAN = float('nan')
INF = float('inf')
NONFINITE = {'quick': [NAN, INF], 'thorough': [NAN, INF, -INF]}

# index of the two lattice bases in the 7-vector m kg s A K mol cd
BASES = (('m', 0), ('s', 2))
E2 = {'quick': (-0.5, 0, 0.5, 1, 1.5),
      'thorough': (-1, -0.5, 0, 0.25, 0.5, 1, 1.5)}
E1 = {'quick': (-1.5, -1, -0.5, 0.25, 0.5, 1, 1.25, 1.5, 2, 2.5),
      'thorough': (-2, -1.5, -1, -0.5, 0.25, 0.5, 0.75, 1, 1.25, 1.5, 2, 2.5, 3)}
LATTICE_MAGS = [1.5, 3.0]           # equal and unequal pairs, both orders
LATTICE_FORMS = ['scalar', 'array']


def _num(e):
    return repr(int(e)) if float(e) == int(e) else repr(float(e))


def lattice_name(a, b):
    parts = []
    for (base, _), e in zip(BASES, (a, b)):
        if e == 0:
            continue
        parts.append(base if e == 1 else '%s^%s' % (base, _num(e)))
    return ' '.join(parts)


def lattice(tier):
    """-> ordered list of (name, exponent 7-tuple, factors) ;
    factors = [(base name, exponent), ...] for the arithmetic route."""
    pts = []
    for a in E2[tier]:
        for b in E2[tier]:
            if (a, b) != (0, 0):
                pts.append((a, b))
    for a in E1[tier]:
        if (a, 0) not in pts:
            pts.append((a, 0))
    out = []
    for a, b in pts:
        v = [0.0] * 7
        v[BASES[0][1]] = float(a)
        v[BASES[1][1]] = float(b)
        fac = [(base, float(e)) for (base, _), e in zip(BASES, (a, b)) if e != 0]
        out.append((lattice_name(a, b), tuple(v), fac))
    return out


def wmag(m):
    """Magnitude as it is written into a witness: non-finite floats as text,
    so that a witness read back from JSON compares equal to the case."""
    m = float(m)
    return m if math.isfinite(m) else repr(m)


def finite(m):
    return math.isfinite(float(m))
