"""Third-wave molecule families for C03 (DESIGN.md 10.9).  Nothing here
imports pgradd; everything is built with RDKit (trusted base) only.

Two families the size bound M(n <= 4) and the curated lists cannot reach:

* bifunctional(): every unordered pair (repeats included) of an alphabet of
  END groups, joined directly and through one CH2.  Two different functional
  groups in ONE molecule are what it takes for the order in which group names
  are first met (= the atom order) to matter to anything that walks the group
  dictionary (remapping, corrections).  The END alphabet has one letter per
  remap source of the shipped scheme files: CH3 and OH on sp3 / C=C / C#C /
  benzene carbon, on C=O and on O; formyl and acyl carbon on O; C=C carbon on
  O; CH2 between C=O and O (through the spacer).

* ring_pairs(): every unordered pair (repeats included) of an alphabet of
  RINGS joined in every way two rings can be joined: by a bond, through one
  CH2, fused (one shared bond), spiro (one shared atom).  Which ring RDKit's
  SSSR lists first depends on the numbering (the ring that holds the
  lowest-numbered ring atom comes first), and Benson's aromatic perception
  walks that list.  Fused benzene + benzene is left out here: it is the
  recorded finding K2 and is enumerated through molecules.CURATED_FUSED.

* moves(n): the identity, the renumberings that move ONE atom to the first
  or to the last position, the others keeping their relative order, and the
  full reversal (<= 2n orders).  Exhaustive over "which atom is numbered
  first / last" and over the relative order of every pair of atoms; apart
  from the reversal a subset of the 1-subset placements (one atom at every
  position), which the thorough tier walks in full.

In the quick tier a ring is attached / fused / spiro-linked at its declared
atom 0 / bond 0 (benzene in both Kekule forms, so that it is fused at a
'double' and at a 'single' bond); the thorough tier uses every rotation of
both rings, i.e. every attachment atom and every fusion bond, and two more
rings.
"""
import functools
import itertools

from rdkit import Chem, RDLogger

RDLogger.DisableLog('rdApp.*')

# attachment atom first; its symbol is one character
ENDS = [
    ('methyl', 'C'), ('hydroxyl', 'O'), ('hydroxymethyl', 'CO'),
    ('methoxy', 'OC'), ('vinyl', 'C=C'), ('ethynyl', 'C#C'),
    ('2-hydroxyvinyl', 'C=CO'), ('1-hydroxyvinyl', 'C(O)=C'),
    ('hydroxyethynyl', 'C#CO'), ('formyl', 'C=O'), ('acetyl', 'C(C)=O'),
    ('carboxyl', 'C(O)=O'), ('formyloxy', 'OC=O'), ('vinyloxy', 'OC=C'),
    ('phenyl', 'c1ccccc1'), ('4-hydroxyphenyl', 'c1ccc(O)cc1'),
]
SPACERS = [('bond', None), ('CH2', 'C')]


def _tag(end, digits):
    return end[0] + '%' + digits + end[1:]


@functools.lru_cache(maxsize=None)
def bifunctional():
    """[(canonical SMILES, description)], deduplicated by canonical SMILES,
    in enumeration order (simplest first)."""
    out, seen = [], set()
    for (sn, sp) in SPACERS:
        for (n1, e1), (n2, e2) in itertools.combinations_with_replacement(ENDS, 2):
            if sp is None:
                smi = _tag(e1, '99') + '.' + _tag(e2, '99')
            else:
                smi = sp + '%98%99.' + _tag(e1, '98') + '.' + _tag(e2, '99')
            m = Chem.MolFromSmiles(smi)
            if m is None:
                continue
            c = Chem.MolToSmiles(m)
            if '.' in c or c in seen:
                continue
            seen.add(c)
            out.append((c, '%s + %s via %s' % (n1, n2, sn)))
    return tuple(out)


# (name, ring atoms in ring order, order of the bond i -> i+1 (cyclic)).
# Atom 0 is the attachment / spiro atom, bond 0 (atoms 0-1) the fusion bond.
RINGS = [
    ('cyclopropane', 'CCC', (1, 1, 1)),
    ('cyclobutane', 'CCCC', (1, 1, 1, 1)),
    ('cyclopentane', 'CCCCC', (1, 1, 1, 1, 1)),
    ('cyclohexane', 'CCCCCC', (1, 1, 1, 1, 1, 1)),
    ('cycloheptane', 'CCCCCCC', (1, 1, 1, 1, 1, 1, 1)),
    ('benzene', 'CCCCCC', (2, 1, 2, 1, 2, 1)),
    ('benzene*', 'CCCCCC', (1, 2, 1, 2, 1, 2)),      # the other Kekule form: fusion at a 'single' bond
    ('cyclohexene', 'CCCCCC', (2, 1, 1, 1, 1, 1)),
    ('1,3-cyclohexadiene', 'CCCCCC', (2, 1, 2, 1, 1, 1)),
    ('oxirane', 'CCO', (1, 1, 1)),
    ('oxane', 'CCCOCC', (1, 1, 1, 1, 1, 1)),
]
RINGS_QUICK = ['cyclopropane', 'cyclobutane', 'cyclopentane', 'cyclohexane',
               'benzene', 'benzene*', 'cyclohexene', 'oxirane', 'oxane']
LINKS = ['bond', 'CH2', 'fused', 'spiro']
_BT = {1: Chem.BondType.SINGLE, 2: Chem.BondType.DOUBLE}


def _join(A, B, link):
    (_, sa, oa), (_, sb, ob) = A, B
    rw = Chem.RWMol()
    ia = [rw.AddAtom(Chem.Atom(s)) for s in sa]
    for i in range(len(ia)):
        rw.AddBond(ia[i], ia[(i + 1) % len(ia)], _BT[oa[i]])
    if link == 'fused':
        if oa[0] != ob[0] or sa[0] != sb[0] or sa[1] != sb[1]:
            return None
        ib = [ia[0], ia[1]] + [rw.AddAtom(Chem.Atom(s)) for s in sb[2:]]
    elif link == 'spiro':
        if sa[0] != sb[0] or oa[0] != 1 or oa[-1] != 1 or ob[0] != 1 or ob[-1] != 1:
            return None
        ib = [ia[0]] + [rw.AddAtom(Chem.Atom(s)) for s in sb[1:]]
    else:
        ib = [rw.AddAtom(Chem.Atom(s)) for s in sb]
    for i in range(len(ib)):
        if link == 'fused' and i == 0:
            continue
        rw.AddBond(ib[i], ib[(i + 1) % len(ib)], _BT[ob[i]])
    if link == 'bond':
        rw.AddBond(ia[0], ib[0], Chem.BondType.SINGLE)
    elif link == 'CH2':
        c = rw.AddAtom(Chem.Atom('C'))
        rw.AddBond(ia[0], c, Chem.BondType.SINGLE)
        rw.AddBond(c, ib[0], Chem.BondType.SINGLE)
    m = rw.GetMol()
    try:
        Chem.SanitizeMol(m)
    except Exception:      # noqa
        return None
    return m


def fused_benzenoid(m):
    """Two all-carbon aromatic six-rings sharing a bond (finding K2)."""
    rings = [set(r) for r in m.GetRingInfo().BondRings() if len(r) == 6 and all(
        m.GetBondWithIdx(b).GetIsAromatic() and
        m.GetBondWithIdx(b).GetBeginAtom().GetSymbol() == 'C' and
        m.GetBondWithIdx(b).GetEndAtom().GetSymbol() == 'C' for b in r)]
    return any(a & b for a, b in itertools.combinations(rings, 2))


def _rotations(ring, every):
    name, sym, orders = ring
    return [(name, sym[r:] + sym[:r], tuple(orders[r:] + orders[:r]))
            for r in range(len(sym) if every else 1)]


@functools.lru_cache(maxsize=None)
def ring_pairs(tier='quick'):
    """[(canonical SMILES, description)], deduplicated by canonical SMILES;
    joins RDKit cannot sanitise, and fused benzenoids (K2), are left out."""
    every = tier != 'quick'
    rings = [r for r in RINGS if every or r[0] in RINGS_QUICK]
    out, seen = [], set()
    for link in LINKS:
        for A0, B0 in itertools.combinations_with_replacement(rings, 2):
            for A in _rotations(A0, every):
                for B in _rotations(B0, every):
                    m = _join(A, B, link)
                    if m is None or fused_benzenoid(m):
                        continue
                    c = Chem.MolToSmiles(m)
                    if Chem.MolFromSmiles(c) is None or c in seen:
                        continue
                    seen.add(c)
                    out.append((c, '%s + %s, %s' % (A[0].rstrip('*'),
                                                    B[0].rstrip('*'), link)))
    return tuple(out)


def moves(n):
    """Identity first; deduplicated; deterministic order."""
    ident = tuple(range(n))
    seen, out = {ident}, [ident]
    for a in range(n):
        rest = [i for i in range(n) if i != a]
        for o in (tuple([a] + rest), tuple(rest + [a])):
            if o not in seen:
                seen.add(o)
                out.append(o)
    o = tuple(reversed(range(n)))
    if o not in seen:
        out.append(o)
    return out


def ring_size_sequence(m):
    """Sizes of the SSSR rings in the order RDKit lists them (hydrogens
    added, as the decomposition does)."""
    return tuple(len(r) for r in Chem.GetSymmSSSR(Chem.AddHs(m)))
