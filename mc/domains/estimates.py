"""Shared alphabets for the estimate properties (C01, C06, C07, C20):
libraries (shipped + synthetic), descriptor->count mappings, evaluation with
captured warnings."""
import itertools
import math
import os
import warnings

from . import libs

COUNTS = [1, 2, 0, -1, 0.5, 0.217, 3.0]
PROPS = ['get_CpoR', 'get_HoRT', 'get_SoR', 'get_GoRT']

SCHEME = ("patterns:\n-   center_name: 'C'\n    periph_name: 'C'\n"
          "    connectivity: 'fragment a{ C labeled c1 }'\n")
# group shapes of the synthetic library
SYN_LIB = """
groups:
  'C(H)4':            # H only
    thermochem: {T_ref: 298.15 K, ND_H_ref: -30.25}
  'C(C)(H)3':         # H + S, with a range
    thermochem: {T_ref: 298.15 K, ND_H_ref: -17.5, ND_S_ref: 15.25, range: [250 K, 1500 K]}
  'C(C)2(H)2':        # H + S + one-point Cp
    thermochem: {T_ref: 298.15 K, ND_H_ref: -8.25, ND_S_ref: 4.75,
                 ND_Cp_data: [[300 K, 2.75]], range: [200 K, 1200 K]}
  'C(C)3(H)':         # 4-point Cp, narrower range
    thermochem: {T_ref: 298.15 K, ND_H_ref: -3.5, ND_S_ref: -6.25,
                 ND_Cp_data: [[300 K, 2.25], [400 K, 3.0], [500 K, 3.5], [600 K, 4.0]],
                 range: [290 K, 900 K]}
  'C(C)4':            # S only
    thermochem: {T_ref: 298.15 K, ND_S_ref: -17.75}
  'O(C)(H)':          # zero-valued data
    thermochem: {T_ref: 298.15 K, ND_H_ref: 0.0, ND_S_ref: 0.0,
                 ND_Cp_data: [[300 K, 0.0], [500 K, 1.5], [800 K, 0.0]],
                 range: [250 K, 1000 K]}
  'O(C)2':            # Cp only
    thermochem: {T_ref: 298.15 K, ND_Cp_data: [[300 K, 1.0], [600 K, 2.0]], range: [280 K, 600 K]}
  'C(H)3(O)': {}      # named in the library but without the property set
"""


def make_synthetic(directory):
    with open(os.path.join(directory, 'scheme.yaml'), 'w') as f:
        f.write(SCHEME)
    p = os.path.join(directory, 'library.yaml')
    with open(p, 'w') as f:
        f.write(SYN_LIB)
    return p


_CACHE = {}


def library(name):
    """Shipped library by name, or 'synthetic'."""
    if name in _CACHE:
        return _CACHE[name]
    if name == 'synthetic':
        import tempfile
        import pgradd.ThermoChem   # noqa
        from pgradd.GroupAdd.Library import GroupLibrary
        d = tempfile.mkdtemp(prefix='pgv_est_')
        try:
            lib = GroupLibrary.Load(make_synthetic(d))
        finally:
            import shutil
            shutil.rmtree(d, ignore_errors=True)
    else:
        lib = libs.load(name)
    _CACHE[name] = lib
    return lib


def fresh(name):
    _CACHE.pop(name, None)
    return library(name)


def with_data(lib):
    return sorted((g for g in lib if 'thermochem' in lib[g]), key=str)


def shape(corr):
    rng = corr.get_range()
    return (corr.ND_H_ref is None, corr.ND_S_ref is None,
            min(len(corr.ND_Cp_data), 5),
            None if rng is None else (float(rng[0]), float(rng[1])),
            float(corr.T_ref))


def class_reps(lib):
    cls = {}
    for g in with_data(lib):
        cls.setdefault(shape(lib[g]['thermochem']), g)
    return list(cls.values())


def ev(f, *a, **k):
    """-> ('ok', value, [warning category names]) | ('exc', type name, [..])"""
    with warnings.catch_warnings(record=True) as w:
        warnings.simplefilter('always')
        try:
            v = f(*a, **k)
            return ('ok', v, [x.category.__name__ for x in w])
        except Exception as e:      # noqa
            return ('exc', type(e).__name__, [x.category.__name__ for x in w])


def is_plain_finite(v):
    import numpy as np
    if isinstance(v, bool):
        return False
    if isinstance(v, (int, float, np.floating, np.integer)):
        return math.isfinite(float(v))
    return False


def mappings(lib, tier, pairs_all_below=0):
    """Yield (tag, [(group, count), ...])."""
    groups = with_data(lib)
    reps = class_reps(lib)
    for g in groups:
        for c in COUNTS:
            yield 'unit', [(g, c)]
    if len(groups) <= pairs_all_below:
        pool = groups
    else:
        pool = reps
    cpairs = [(1, 1), (2, -1), (0.217, 3.0), (0, 1), (-1, 0.5)]
    for a, b in itertools.combinations(pool, 2):
        for ca, cb in cpairs:
            yield 'pair', [(a, ca), (b, cb)]
            yield 'pair', [(b, cb), (a, ca)]
    for a, b, c in itertools.combinations(reps, 3):
        yield 'triple', [(a, 1), (b, 2), (c, 0.5)]
        yield 'triple', [(c, -1), (a, 3.0), (b, 0.217)]


def common_range(lib, mapping):
    rs = []
    for g, _ in mapping:
        r = lib[g]['thermochem'].get_range()
        if r is not None:
            rs.append((float(r[0]), float(r[1])))
    if not rs:
        return None
    return (max(r[0] for r in rs), min(r[1] for r in rs))


def grid_inside(rng, mapping, lib):
    if rng is None:
        ts = {298.15, 500.0, 1000.0}
    else:
        lo, hi = rng
        if lo > hi:
            return []
        ts = {lo, hi, 0.5 * (lo + hi)}
        for g, _ in mapping:
            tr = float(lib[g]['thermochem'].T_ref)
            if lo <= tr <= hi:
                ts.add(tr)
    return sorted(ts)
