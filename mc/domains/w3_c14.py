"""Relocated data trees that DIFFER from the bundled one (wave 3, C14).

The three ways of C14 used a byte-identical copy of the bundled data
directory as "the relocated copy": a loader that takes one of the files of a
library from the package directory although `pgradd_DATA_DIR` selects another
tree could not be told from one that honours the override.  This module
builds, with PyYAML and shutil only (nothing of pgradd is imported), one
relocated tree per library L in which every answer depends on which tree a
file was read from:

  marked    directory L holds L's files, and EVERY file a load of L reads
            (library.yaml, scheme.yaml, every transitively included file)
            carries its own harmless marker: data files an extra group
            'Zz(Mk<i>)' whose non-dimensional reference enthalpy is i+1,
            scheme.yaml an extra remap rule 'Zz(MkS)'.
  fresh     L's unmarked files under each name of FRESH(L): names no bundled
            library has (one of them with a blank, one a single letter).
  rotated   directory next(L) - the bundled name that follows L in the list
            of the nine, cyclically - holds L's unmarked files: in the
            relocated tree that name means the contents of L.  Over the nine
            trees every bundled name is occupied once by foreign contents
            (the names permuted cyclically).

Files of a library directory that no load reaches (surface.test.yaml,
*.lib.yaml, index.yaml) are copied unchanged.
"""
import copy
import os
import shutil

import yaml

from . import libs

# libyaml when present (same YAML 1.1 semantics as the pure-Python classes)
_Loader = getattr(yaml, 'CSafeLoader', yaml.SafeLoader)
_Dumper = getattr(yaml, 'CSafeDumper', yaml.SafeDumper)


def _load(f):
    return yaml.load(f, Loader=_Loader)


MARK_CENTRE = 'Zz'
SCHEME_MARK = 'Zz(MkS)'


def fresh_names(name):
    """Directory names that satisfy the loader's builtin-name rule (no path
    separator, no dot) and that no bundled library has."""
    return [name + 'Moved', 'moved ' + name, 'Z']


def rotated_name(name):
    return libs.LIBS[(libs.LIBS.index(name) + 1) % len(libs.LIBS)]


def mark_name(i):
    return '%s(Mk%d)' % (MARK_CENTRE, i)


def mark_record(i):
    """A complete, dimensionless record: nothing to convert, so the value the
    loaded library must show is known without asking pgradd."""
    return {'thermochem': {
        'T_ref': '300 K',
        'ND_H_ref': float(i + 1),
        'ND_S_ref': 1.0,
        'ND_Cp_data': [['300 K', 1.0], ['400 K', 1.0]]}}


def files_read(libdir):
    """Relative paths of the data files a load of `libdir` reads, in reading
    order: library.yaml, then depth-first every include (relative to the
    including file).  scheme.yaml is not in the list."""
    out, seen = [], set()

    def walk(rel):
        key = os.path.normpath(rel)
        if key in seen:
            return
        seen.add(key)
        out.append(key)
        with open(os.path.join(libdir, key)) as f:
            d = _load(f) or {}
        for inc in d.get('include') or []:
            walk(os.path.join(os.path.dirname(key), inc))
    walk('library.yaml')
    return out


def _rewrite(path, edit):
    with open(path) as f:
        d = _load(f) or {}
    before = copy.deepcopy(d)
    edit(d)
    text = yaml.dump(d, Dumper=_Dumper, sort_keys=False,
                     default_flow_style=None, allow_unicode=True)
    with open(path, 'w') as f:
        f.write(text)
    # the rewritten file must say what the original said, plus the marker
    with open(path) as f:
        again = _load(f)
    return before, again


def build_tree(dest, name, src=None):
    """Create the relocated tree of library `name` under `dest` (must not
    exist).  Returns a description:
        dict(root=, marked=dict(dir=, files=[(relpath, marker name, value)],
             scheme_mark=), fresh=[names], rotated=[name])"""
    src = src or libs.data_dir()
    libsrc = os.path.join(src, name)
    os.makedirs(dest)
    # fresh and rotated: plain copies under other names
    fresh = fresh_names(name)
    rotated = [rotated_name(name)]
    for n in fresh + rotated:
        shutil.copytree(libsrc, os.path.join(dest, n))
    # marked: every file that is read carries its own marker
    mdir = os.path.join(dest, name)
    shutil.copytree(libsrc, mdir)
    files = []
    for i, rel in enumerate(files_read(libsrc)):
        def edit(d, i=i):
            g = d.get('groups')
            if not isinstance(g, dict):
                g = {}
                d['groups'] = g
            assert mark_name(i) not in g
            g[mark_name(i)] = mark_record(i)
        before, again = _rewrite(os.path.join(mdir, rel), edit)
        got = dict(again)
        got['groups'] = dict(again['groups'])
        del got['groups'][mark_name(i)]
        if not (before.get('groups') or {}):
            before = dict(before)
            before['groups'] = {}
        if got != before:
            raise AssertionError('marker rewriting changed the meaning of %s/%s'
                                 % (name, rel))
        files.append((rel, mark_name(i), float(i + 1)))

    def edit_scheme(d):
        r = d.get('remaps')
        if not isinstance(r, dict):
            r = {}
            d['remaps'] = r
        assert SCHEME_MARK not in r
        r[SCHEME_MARK] = [[1, mark_name(0)]]
    before, again = _rewrite(os.path.join(mdir, 'scheme.yaml'), edit_scheme)
    got = dict(again)
    got['remaps'] = dict(again['remaps'])
    del got['remaps'][SCHEME_MARK]
    if not (before.get('remaps') or {}):
        before = dict(before)
        before['remaps'] = {}
    if got != before:
        raise AssertionError('marker rewriting changed the meaning of %s/scheme.yaml'
                             % name)
    return dict(root=dest,
                marked=dict(dir=name, files=files, scheme_mark=SCHEME_MARK,
                            scheme_target=[[1, mark_name(0)]]),
                fresh=fresh, rotated=rotated)
