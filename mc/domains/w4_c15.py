"""Domains added to C15 after the fourth wave of seeded changes (pure data: no
import of pgradd here).

Three families, each enumerated exhaustively within its bound by
mc/props/c15.py:

* prefix   - one library per SI prefix the units database knows (20): the SAME
             bare numbers, molar enthalpy in <prefix>J/mol and molar entropy in
             <prefix>cal/(mol*K).  Loaded in every ordered pair in one process
             (what a unit name resolves to must not depend on which names
             were resolved before: `da` + J against `d` + `aJ`).
* rewrite  - the files behind ONE path change between two loads of that
             path: every file a load reads (scheme.yaml, library.yaml, the
             included extra.yaml) edited on its own, next to the unedited set.
* merge    - merge programs: a receiver made with the constructor next to two
             loaded libraries, Update(target <- source, overwrite in {False,
             True}) over every ordered pair of the three objects.
"""
from .w3_c15 import _UNITS_LIBRARY

# ------------------------------------------------------------ prefix

# pgradd/Units/db.py: UnitsDB.prefixes (all 20), largest first
PREFIXES = ['Y', 'Z', 'E', 'P', 'T', 'G', 'M', 'k', 'h', 'da',
            'd', 'c', 'm', 'u', 'n', 'p', 'f', 'a', 'z', 'y']
# directory names carry the index: 'M'/'m', 'P'/'p', 'Y'/'y', 'Z'/'z' differ by
# case only
PREFIX_LIBS = ['synP%02d_%s' % (i, p) for i, p in enumerate(PREFIXES)]
# thorough: all 3-sequences over the two-letter prefix, its two letters taken
# as prefixes of their own, and three everyday ones
PREFIX_SUB = ['synP%02d_%s' % (PREFIXES.index(p), p) for p in ('da', 'd', 'a', 'k', 'm', 'M')]


def prefix_library(name):
    p = name.split('_', 1)[1]
    return _UNITS_LIBRARY % ('%sJ/mol' % p, '%scal/(mol*K)' % p, 'J/(mol*K)', 'K')


# ------------------------------------------------------------ rewrite

REWRITE_MOLS = ['CCC']      # propane: both groups, one of them remapped by the edited scheme
REWRITE_VARIANTS = ['synR0', 'synRs', 'synRl', 'synRx']
_REMAP = "remaps:\n    'C(C)2(H)2': [[1, 'C(C)(H)3']]\n"


def _edit(text, old, new):
    assert text.count(old) == 1, (old, text.count(old))
    return text.replace(old, new)


def rewrite_variants(scheme, library, extra):
    """name -> {file name: text}.  `library` includes `extra.yaml`.  synR0: the
    files as given; synRs: scheme.yaml gained a remap; synRl: one number of
    library.yaml changed; synRx: one number of the included file changed."""
    return {
        'synR0': {'scheme.yaml': scheme, 'library.yaml': library, 'extra.yaml': extra},
        'synRs': {'scheme.yaml': scheme + _REMAP, 'library.yaml': library, 'extra.yaml': extra},
        'synRl': {'scheme.yaml': scheme,
                  'library.yaml': _edit(library, 'ND_H_ref: -8.25', 'ND_H_ref: -9.5'),
                  'extra.yaml': extra},
        'synRx': {'scheme.yaml': scheme, 'library.yaml': library,
                  'extra.yaml': _edit(extra, 'ND_S_ref: 15.25', 'ND_S_ref: 11.75')},
    }


# ------------------------------------------------------------ merge

# synA: units on every number, 4 groups; synB: include + uncertainty data, 3
# groups (one of them carries Cp data that synA lacks); synK: a `units:` block,
# 2 groups, other numbers and another T_ref
MERGE_LIBS = ['synA', 'synB', 'synK']
MERGE_MOL = 'CCC'


def merge_worlds(tier):
    """The two loaded libraries of a world: every 2-subset of MERGE_LIBS
    (thorough: every ordered pair).  Object 2 of the world is the receiver made
    with the constructor from the scheme of object 0."""
    out = []
    for i, a in enumerate(MERGE_LIBS):
        for j, b in enumerate(MERGE_LIBS):
            if i < j or (tier == 'thorough' and i != j):
                out.append([a, b])
    return out


def merge_events():
    """Update(target <- source, overwrite) over every ordered pair of the
    three objects x {False, True}: 12 events."""
    return [[t, s, ow] for t in (0, 1, 2) for s in (0, 1, 2) if t != s for ow in (0, 1)]
