"""Third-wave domains for C01: libraries that are BUILT rather than loaded.

Three families (all enumerated exhaustively, nothing is sampled):

* constructor-built libraries whose descriptors share correlation objects:
  three descriptors, each given one of a pool of three ThermochemGroup
  instances {X, X' (a distinct instance with the same data as X), Y}; all
  3^3 = 27 assignments (contents given as a mapping; the two families below
  give the constructor a list of pairs);
* synonym libraries: the items of a shipped (or the synthetic) library handed
  to the constructor again together with one extra descriptor that carries the
  very same correlation object as an existing group;
* histories of one library object: descriptors that are absent are looked up /
  estimated, then added with GroupLibrary.Update(), then estimated again.

Nothing in here computes an expected value: the oracles live in props/c01.py
and work on correlation objects the harness created (or took from the library
before the history started) evaluated one by one.
"""
import itertools

from . import estimates as E

# ------------------------------------------------------------ correlations

CP4 = {300.0: 3.1, 500.0: 4.7, 800.0: 6.6, 1000.0: 7.4}
CP4B = {300.0: 3.0, 500.0: 4.0, 800.0: 5.5, 1000.0: 6.0}


def _tg(*a):
    import pgradd.ThermoChem    # noqa: registers 'thermochem'
    from pgradd.ThermoChem import ThermochemGroup
    return ThermochemGroup(*a)


def make_pool():
    """[X, X', Y]: X and X' hold equal data but are two objects; Y differs
    in every datum, in table size and in range."""
    return [_tg(-17.0, 15.25, dict(CP4), 298.15, (200.0, 1200.0)),
            _tg(-17.0, 15.25, dict(CP4), 298.15, (200.0, 1200.0)),
            _tg(14.5, 4.0, {300.0: 2.75}, 298.15, (250.0, 1500.0))]


# count alphabets of the built families (COUNTS of estimates.py for units)
CPAIRS = [(1, 1), (2, -1), (0.217, 3.0), (0, 1), (-1, 0.5)]
CTRIPLES = [(1, 1, 1), (1, 2, 0.5), (-1, 3.0, 0.217), (0.5, -0.5, 1)]

# ------------------------------------------------- constructor-built libraries

CTOR_GROUPS = [('C', ('C', 'H', 'H', 'H')), ('C', ('C[d]', 'H', 'H', 'H')),
               ('C[d]', ('C', 'H'))]
ASSIGNMENTS = list(itertools.product(range(3), repeat=len(CTOR_GROUPS)))


def ctor_names():
    return ['w3ctor:%s' % ''.join(str(a) for a in assign)
            for assign in ASSIGNMENTS]


def ctor_library(name):
    import pgradd.ThermoChem    # noqa
    from pgradd.GroupAdd.Library import GroupLibrary
    from pgradd.GroupAdd.Group import Group
    digits = name.split(':')[1]
    pool = make_pool()
    items = [(Group(None, csg, list(psgs)), {'thermochem': pool[int(a)]})
             for (csg, psgs), a in zip(CTOR_GROUPS, digits)]
    return GroupLibrary(None, dict(items))


def ctor_mappings(lib):
    """Every non-empty subset of the three descriptors: units x COUNTS, pairs
    x CPAIRS in both key orders, the triple x CTRIPLES in both key orders."""
    groups = sorted(lib, key=str)
    for g in groups:
        for c in E.COUNTS:
            yield 'built-unit', [(g, c)]
    for a, b in itertools.combinations(groups, 2):
        for ca, cb in CPAIRS:
            yield 'built-pair', [(a, ca), (b, cb)]
            yield 'built-pair', [(b, cb), (a, ca)]
    for cv in CTRIPLES:
        yield 'built-triple', list(zip(groups, cv))
        yield 'built-triple', list(zip(reversed(groups), reversed(cv)))


# ---------------------------------------------------------- synonym libraries

SYN = 'Q(Z)9'       # a group name no shipped library knows


def private_load(name):
    """A library object nobody else in this process holds."""
    lib = E.fresh(name)
    E._CACHE.pop(name, None)
    return lib


def syn_name(libname, group):
    return 'w3syn:%s|%s' % (libname, group)


def copy_items(base):
    """(key, property sets) pairs of `base`: new dicts, the SAME correlation
    objects (what dict(lib.items()) gives a user)."""
    return [(k, dict(base.contents[k])) for k in base]


def synonym_library(name, base=None):
    import pgradd.ThermoChem    # noqa
    from pgradd.GroupAdd.Library import GroupLibrary
    from pgradd.GroupAdd.Group import Group
    libname, gname = name[len('w3syn:'):].split('|', 1)
    if base is None:
        base = private_load(libname)
    g = [k for k in base if str(k) == gname][0]
    items = copy_items(base)
    items.append((Group.parse(base.scheme, SYN),
                  {'thermochem': base.contents[g]['thermochem']}))
    return GroupLibrary(base.scheme, items)


def syn_mappings(lib, gname, hname):
    """g = the group whose correlation the synonym s shares, h = another
    data-shape representative (None if the library has a single class)."""
    by = dict((str(k), k) for k in lib)
    g, s = by[gname], by[SYN]
    for ca, cb in CPAIRS:
        yield 'synonym-pair', [(g, ca), (s, cb)]
        yield 'synonym-pair', [(s, cb), (g, ca)]
    if hname is not None:
        h = by[hname]
        yield 'synonym-triple', [(g, 1), (s, 1), (h, 1)]
        yield 'synonym-triple', [(g, 1), (h, 2), (s, 0.5)]
        yield 'synonym-triple', [(s, -1), (h, 3.0), (g, 0.217)]


# ------------------------------------------------------------------ histories

D1 = 'C(H)3(O)'         # a Group; the synthetic library names it without data
D2 = 'w3 correction'    # a plain Descriptor (user correction)
NEW = [D1, D2]
PROBES = ['none', 'estimate', 'getitem', 'get']
HIST_CTOR_BASE = 'w3ctor:021'
BUILDS = ['ctor', 'loaded']


def keystyles(name, build):
    """Keys of probes and estimates: strings everywhere; Group / Descriptor
    objects too on the two bases that cost no YAML load and no big tables."""
    if build == 'ctor' and (name == 'synthetic' or name.startswith('w3ctor:')):
        return ['str', 'obj']
    return ['str']


def add_sequences():
    """Every sequence of Update() calls that add disjoint non-empty subsets
    of NEW (|NEW| = 2): 5 sequences."""
    return [[[D1]], [[D2]], [[D1, D2]], [[D1], [D2]], [[D2], [D1]]]


def histories(build):
    """[[probe before the Update, descriptors the Update adds], ...].
    'ctor' objects: every add sequence x every probe before every Update
    (12 + 32 = 44); 'loaded' objects (a YAML load each; libraries without
    uncertainty data only): the one-Update sequence adding both x every
    probe (4)."""
    for seq in add_sequences():
        if build == 'loaded' and seq != [[D1, D2]]:
            continue
        for probes in itertools.product(PROBES, repeat=len(seq)):
            yield [[p, list(a)] for p, a in zip(probes, seq)]


def new_correlations():
    return {D1: _tg(-10.0, 20.0, dict(CP4B), 298.15, (200.0, 1200.0)),
            D2: _tg(1.25, -0.5, {300.0: 1.5}, 298.15, (250.0, 1500.0))}


def key_object(scheme, d):
    from pgradd.GroupAdd.Group import Group, Descriptor
    if d == D2:
        return Descriptor(scheme, d)
    return Group.parse(scheme, d)


def history_library(name, build, base=None):
    """A library object used by ONE history only."""
    import pgradd.ThermoChem    # noqa
    from pgradd.GroupAdd.Library import GroupLibrary
    if name.startswith('w3ctor:'):
        return ctor_library(name)
    if build == 'loaded':
        return private_load(name)
    if base is None:
        base = private_load(name)
    # no uncertainty block: a descriptor outside the uncertainty basis is
    # C20's business (there the estimate must fail)
    return GroupLibrary(base.scheme, copy_items(base))


def extra_library(scheme, ds, corr):
    import pgradd.ThermoChem    # noqa
    from pgradd.GroupAdd.Library import GroupLibrary
    return GroupLibrary(scheme, dict((key_object(scheme, d),
                                      {'thermochem': corr[d]}) for d in ds))


def observation_mappings(g1):
    """Every non-empty subset of [g1, D1, D2], counts (2, 0.5, -1): 7.
    (Count alphabets and key orders are the business of the other families;
    here the history is.)"""
    items = [g1, D1, D2]
    v = dict(zip(items, (2, 0.5, -1)))
    for r in (1, 2, 3):
        for sub in itertools.combinations(items, r):
            yield [(x, v[x]) for x in sub]
