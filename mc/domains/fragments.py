"""RING fragment alphabets, generated from my own statement of the grammar,
kept structured so that every layout / label renaming can be rendered."""
import itertools

PREFIXES = [None, 'aromatic', 'nonaromatic', 'ringatom', 'nonringatom', 'allylic']
SYMBOLS = ['C', 'O', 'N', 'H', 'Pt', 'c', 'o', '$', '&', 'X', 'M', 'any atom',
           'heteroatom', 'heavy atom']
SUFFIXES = [None, '+', '-', '.', ':', '?', '+.', '-.', ':.']
BONDS = ['single', 'double', 'triple', 'quadruple', 'nonring', 'ring',
         'aromatic', 'any', 'strong', 'partial']
OPS = ['=', '>', '<', '>=', '<=']
TARGETS = ['C', 'H', 'O?', '$?', 'C.', 'X']
MOLPREFIX = [(a, b, c) for a in (None, 'positive', 'negative', 'neutral')
             for b in (None, 'aromatic', 'olefinic', 'paraffinic')
             for c in (None, 'cyclic', 'linear')]


def spec(prefix, symbol, suffix):
    """An atom spec is a list of phrases."""
    return ([prefix] if prefix else []) + [symbol + (suffix or '')]


def cnums():
    """(op, digit) forms: ('', '') only where the digit is optional."""
    out = []
    for d in ('0', '1', '2', '3'):
        out.append(('', d))
        for op in OPS:
            out.append((op, d))
    return out


def all_constraints():
    """The 3144 single constraints, each a list of phrases."""
    out = []
    for neg in ('', '!'):
        for (op, d) in [('', '')] + cnums():
            for t in TARGETS:
                for b in [None] + [k for k in BONDS if k != 'quadruple']:
                    ph = ([neg] if neg else []) + ['connected to'] + \
                         ([op] if op else []) + ([d] if d else []) + [t] + \
                         (['with', b, 'bond'] if b else [])
                    out.append(ph)
        for (op, d) in cnums():
            n = ([neg] if neg else [])
            c = ([op] if op else []) + [d]
            out.append(n + ['in ring of size'] + c)
            out.append(n + ['in'] + c + ['ring'])
            out.append(n + ['has'] + c + ['radical electrons'])
    return out


def C(text):
    """Parse a hand-written constraint into phrases (multi-word literals kept
    together)."""
    lits = ['connected to', 'in ring of size', 'radical electrons', 'any atom',
            'heavy atom']
    out = []
    rest = text.strip()
    while rest:
        for l in lits:
            if rest.startswith(l):
                out.append(l)
                rest = rest[len(l):].lstrip()
                break
        else:
            w = rest.split(' ', 1)
            out.append(w[0])
            rest = w[1].lstrip() if len(w) > 1 else ''
    return out


SUB40 = [C(t) for t in [
    'connected to C', '! connected to C', 'connected to 2 H', 'connected to >1 H',
    'connected to <2 $? with any bond', '! connected to >=1 O? with double bond',
    'connected to =0 X with strong bond', 'connected to <=1 C with ring bond',
    'connected to $? with nonring bond', 'connected to C.',
    '! connected to 3 H', 'connected to >=2 X with any bond',
    'connected to 1 O? with single bond', '! connected to <=0 $? with any bond',
    'connected to C with double bond', 'connected to =1 C with triple bond',
    'connected to X with aromatic bond', '! connected to H',
    'in ring of size 3', '! in ring of size 3', 'in ring of size >3',
    'in ring of size <=5', '! in ring of size >=4', 'in ring of size =6',
    'in 1 ring', '! in 1 ring', 'in >=2 ring', 'in <1 ring', '! in >0 ring',
    'in =2 ring', '! in <=1 ring', 'in 0 ring',
    'has 1 radical electrons', '! has 1 radical electrons',
    'has >0 radical electrons', 'has <=1 radical electrons',
    '! has >=2 radical electrons', 'has 0 radical electrons',
    'has =2 radical electrons', '! has <1 radical electrons']]
SUB10 = [SUB40[i] for i in (1, 3, 5, 7, 19, 22, 26, 30, 33, 36)]

ATOMS12 = [spec(None, 'C', None), spec(None, 'C', '?'), spec(None, '$', '?'),
           spec(None, 'O', '?'), spec(None, 'H', None), spec(None, 'X', None),
           spec(None, 'Pt', '?'), spec(None, 'C', '.'), spec(None, '&', '?'),
           spec('ringatom', 'C', '?'), spec('aromatic', 'C', None),
           spec('allylic', 'C', '?')]
ATOMS4 = [spec(None, 'C', '?'), spec(None, '$', '?'), spec(None, 'O', '?'),
          spec(None, 'X', None)]
ATOMS3 = ATOMS4[:3]
BONDS4 = ['single', 'any', 'ring', 'double']
BONDS3 = ['single', 'any', 'double']


def frag(atoms, ringbonds=(), molprefix=(None, None, None)):
    """atoms: list of (spec phrases, bond or None, [constraints]) where bond =
    (kind, index of earlier atom)."""
    return dict(atoms=list(atoms), ringbonds=list(ringbonds),
                molprefix=[p for p in molprefix if p])


LABELS = {
    'a': lambda i: 'a%d' % (i + 1),
    'c': lambda i: 'c%d' % (i + 1),
    'x_': lambda i: 'x_%d' % (i + 1),
    'digit-first': lambda i: '%da' % (i + 1),
    'long': lambda i: 'atomlabel_number_%d_' % (i + 1),
}
LAYOUTS = {
    'line': (' ', ' '),            # (between phrases, before each atom/ringbond)
    'atom-per-line': (' ', '\n'),
    'tabs': ('\t', '\t'),
    'blank-lines': (' ', ' \n\n   '),
    'wide': ('   ', '\n\t  '),
}


def render(f, layout='line', labels='a', name='f'):
    sep, atomsep = LAYOUTS[layout]
    lab = LABELS[labels]
    head = sep.join(list(f['molprefix']) + ['fragment', name, '{'])
    items = []
    for i, (sp, bond, cons) in enumerate(f['atoms']):
        ph = list(sp) + ['labeled', lab(i)]
        if bond is not None:
            ph += [bond[0], 'bond to', lab(bond[1])]
        if cons:
            ph.append('{')
            for k, c in enumerate(cons):
                if k:
                    ph.append(',')
                ph += list(c)
            ph.append('}')
        items.append(sep.join(ph))
    for (i, kind, j) in f['ringbonds']:
        items.append(sep.join(['ringbond', lab(i), kind, 'bond to', lab(j)]))
    return head + atomsep + atomsep.join(items) + atomsep + '}'


# --------------------------------------------------------------- families

def family_A():
    for p, s, x in itertools.product(PREFIXES, SYMBOLS, SUFFIXES):
        yield frag([(spec(p, s, x), None, [])])


B_ATOMS = [spec(None, 'C', None), spec(None, 'C', '?'), spec(None, '$', '?'),
           spec(None, 'O', '?'), spec(None, 'X', None)]


def family_B():
    cons = all_constraints()
    for a in B_ATOMS:
        for c in cons:
            yield frag([(a, None, [c])])


def family_Bpairs(sub=SUB40):
    for a in B_ATOMS:
        for c1 in sub:
            for c2 in sub:
                yield frag([(a, None, [c1, c2])])


def family_C(sub):
    for a, b in itertools.product(ATOMS12, repeat=2):
        for k in BONDS:
            yield frag([(a, None, []), (b, (k, 0), [])])
            for c in sub:
                yield frag([(a, None, [c]), (b, (k, 0), [])])
                yield frag([(a, None, []), (b, (k, 0), [c])])


def family_D(tier):
    for a, b, c in itertools.product(ATOMS4, repeat=3):
        for k1, k2 in itertools.product(BONDS4, repeat=2):
            yield frag([(a, None, []), (b, (k1, 0), []), (c, (k2, 1), [])])    # chain
            yield frag([(a, None, []), (b, (k1, 0), []), (c, (k2, 0), [])])    # branch
            for k3 in BONDS4:
                yield frag([(a, None, []), (b, (k1, 0), []), (c, (k2, 1), [])],
                           ringbonds=[(2, k3, 0)])                             # triangle
    if tier == 'thorough':
        for a, b, c, d in itertools.product(ATOMS3, repeat=4):
            for k1, k2, k3 in itertools.product(BONDS3, repeat=3):
                yield frag([(a, None, []), (b, (k1, 0), []), (c, (k2, 1), []),
                            (d, (k3, 2), [])])                                 # chain
                yield frag([(a, None, []), (b, (k1, 0), []), (c, (k2, 0), []),
                            (d, (k3, 0), [])])                                 # star
                yield frag([(a, None, []), (b, (k1, 0), []), (c, (k2, 1), []),
                            (d, (k3, 2), [])], ringbonds=[(3, 'any', 0)])      # square


BONDS_CONSTRAINT = ['ring', 'nonring', 'strong', 'partial']


def family_D2():
    """3-atom topologies whose bonds all carry a bond CONSTRAINT (the kinds
    that are written as an unspecified query bond plus a constraint), in every
    combination - two constraints of different kinds in one fragment."""
    K = BONDS_CONSTRAINT
    for a, b, c in itertools.product(ATOMS4, repeat=3):
        for k1, k2 in itertools.product(K, repeat=2):
            yield frag([(a, None, []), (b, (k1, 0), []), (c, (k2, 1), [])])
            yield frag([(a, None, []), (b, (k1, 0), []), (c, (k2, 0), [])])
            for k3 in K:
                yield frag([(a, None, []), (b, (k1, 0), []), (c, (k2, 1), [])],
                           ringbonds=[(2, k3, 0)])


def family_E():
    bodies = [[(spec(None, 'C', '?'), None, [])],
              [(spec(None, '$', '?'), None, []),
               (spec(None, '$', '?'), ('any', 0), [])]]
    for mp in MOLPREFIX:
        for b in bodies:
            yield frag(b, molprefix=mp)
