"""Fourth-wave domains for C17 (network generation).

Two families, both enumerated exhaustively by props/c17.py:

ARO - aromatic seeds.  Six aromatic molecules (benzene, toluene, phenol,
  pyridine, furan, pyrrole), each written in the aromatic (lower-case) and in
  the Kekule (alternating double bonds) spelling: the two spellings denote the
  same species and must give the same network.  Rule pool: the base pool of
  props/c17.py plus three scissions that name an aromatic atom (aryl C-H,
  aryl C-C, aryl C-O).  In reaction SMARTS `C` is an aliphatic carbon, so the
  base rules leave the ring alone and only the aryl rules touch it; in RING
  text `C` is any carbon and `c` an aromatic one, so both kinds of rule act on
  ring C-H bonds.  No rule of the pool matches a ring bond of an aromatic ring
  (the patterns ask for single/double bonds), so every species of every
  closure keeps its ring and its aromatic flags.

SESSION - rule objects are caller-owned and live longer than one call: the
  same rules are used for a SEQUENCE of networks.  Alphabet of a step: every
  distinct heavy-atom order in which a seed molecule can be written (the
  order-controlling SMILES writer of domains/molecules; hydrogens follow the
  heavy atoms in RDKit's AddHs order, so the heavy-atom order fixes the whole
  atom order).  A history is an ordered pair of steps (all ordered pairs,
  equal ones included); the rules are handed over either as the same rule
  OBJECTS in a fresh list per call, or as one caller-owned LIST of rule texts
  passed to both calls (the generator replaces the texts in that list by the
  rule objects it builds, so the second call meets the objects of the first).
  Each network of a history is judged against the reference closure of its
  own seed.  Histories over different molecules share species (methanol, the
  hydroxymethyl radical ... occur in the networks of methanol and of ethanol)
  whose atoms arrive in a different order, those over one molecule share all
  of them.

Rule entries have the shape used by c17.POOL:
  name -> (reaction SMARTS, RING pattern atoms, RING edit sequence)
"""
import itertools

SCISSION = [('radinc', 0), ('radinc', 1), ('break', 0, 1, None)]

# name, aromatic spelling, Kekule spelling
AROMATICS = [
    ('benzene',  'c1ccccc1',   'C1=CC=CC=C1'),
    ('toluene',  'Cc1ccccc1',  'CC1=CC=CC=C1'),
    ('phenol',   'Oc1ccccc1',  'OC1=CC=CC=C1'),
    ('pyridine', 'c1ccncc1',   'C1=CC=NC=C1'),
    ('furan',    'c1ccoc1',    'C1=COC=C1'),
    ('pyrrole',  'c1cc[nH]c1', 'C1=CNC=C1'),
]
ARO_SEEDS = [s for _, a, k in AROMATICS for s in (a, k)]


def aro_pool():
    """The three rules that name an aromatic atom."""
    return {
        'ar:cH': ('[c:1][H:2]>>[c:1].[H:2]',
                  [('c?', None), ('H', ('single', 0))], SCISSION),
        'ar:cC': ('[c:1]-[C:2]>>[c:1].[C:2]',
                  [('c?', None), ('C?', ('single', 0))], SCISSION),
        'ar:cO': ('[c:1]-[O:2]>>[c:1].[O:2]',
                  [('c?', None), ('O?', ('single', 0))], SCISSION),
    }


# --------------------------------------------------------------- sessions

SESSION_MOLS = {'quick': ['CO', 'CCO'],
                'thorough': ['CO', 'CCO', 'CC=O', 'CCC']}
SESSION_RULES = ['CC', 'CH', 'CO', 'OH']       # names of c17.POOL
SESSION_MODES = ('objects', 'list')


def spellings(smi):
    """Every distinct text that writes `smi` with its heavy atoms in another
    order (one text per permutation, equal texts merged)."""
    from rdkit import Chem
    from .molecules import writer
    m = Chem.MolFromSmiles(smi)
    Chem.Kekulize(m, clearAromaticFlags=True)
    out = []
    for p in itertools.permutations(range(m.GetNumAtoms())):
        s = writer(m, list(p))
        if s not in out:
            out.append(s)
    return out


def session_alphabet(tier):
    out = []
    for smi in SESSION_MOLS[tier]:
        out.extend(spellings(smi))
    return out


def all_rules():
    return aro_pool()
