"""The nine shipped databases and helpers to load them."""
import os

LIBS = ['BensonGA', 'GRWAqueous2018', 'GRWSurface2018', 'GuSolventGA2017Aq',
        'GuSolventGA2017Vac', 'PPY', 'PtSurface2023', 'SalciccioliGA2012',
        'XieGA2022']
UQ_LIBS = ['GRWAqueous2018', 'GRWSurface2018', 'GuSolventGA2017Vac']


def data_dir():
    from .. import REPO
    return os.path.join(REPO, 'pgradd', 'data')


def load(name):
    import pgradd.ThermoChem  # noqa: registers the 'thermochem' property set
    from pgradd.GroupAdd.Library import GroupLibrary
    return GroupLibrary.Load(name)
