"""Seed texts (valid RING fragments and rules) and the deviation alphabet for
the reader checks (C09), plus the rule generator used by C16/C17."""
import re

from . import fragments as F

FRAGMENT_SEEDS = [
    "fragment a{ C labeled c1 }",
    "fragment a{ C labeled c1 {connected to >1 C with any bond, !in ring of size 3} "
    "C? labeled c2 double bond to c1 $? labeled a3 single bond to c1 "
    "ringbond a3 any bond to c2}",
    "positive olefinic cyclic fragment b{ nonringatom C+ labeled c1 "
    "{has 1 radical electrons} & labeled x ring bond to c1 {! in >=2 ring}}",
    "fragment c{ C labeled c1 C labeled c2 double bond to c1 C labeled c3 single "
    "bond to c1 C labeled c4 single bond to c2 stereo double bond c3 cis to c4 "
    "for double bond between c1 and c2}",
    "fragment d{ C labeled c1 C labeled c2 double bond to c1 C labeled c3 single "
    "bond to c1 C labeled c4 single bond to c2 stereo double bond c3 ! trans to "
    "c4 for double bond between c1 and c2}",
    "negative paraffinic linear fragment e{ heavy atom labeled x1 any atom "
    "labeled x2 strong bond to x1 heteroatom labeled x3 partial bond to x2 }",
    "neutral aromatic fragment f{ aromatic c labeled c1 c labeled c2 aromatic "
    "bond to c1 { connected to =1 H } }",
    "fragment g{ ringatom C labeled c1 { in ring of size <=5 , in 1 ring } "
    "allylic C. labeled c2 nonring bond to c1 { has <2 radical electrons } }",
    "fragment h{ Pt? labeled m1 C: labeled c1 single bond to m1 X labeled x "
    "triple bond to c1 M labeled m2 quadruple bond to x }",
    "fragment i{ C-. labeled c1 N+. labeled n1 single bond to c1 O- labeled o1 "
    "single bond to n1 C:. labeled c2 single bond to c1 H labeled h single bond "
    "to c2 }",
    "fragment j{ $ labeled a { connected to 2 & with double bond , ! connected "
    "to nonaromatic C? } }",
    "fragment k{\n  C labeled c1\n  O labeled o1 double bond to c1\n  O labeled "
    "o2 single bond to c1 { connected to H }\n}",
]

RULE_SEEDS = [
    "rule r{ reactant r1{ C labeled c1 H labeled h1 single bond to c1} break "
    "bond(c1,h1) increase number of radical(c1) increase number of radical(h1)}",
    "rule s{ neutral reactant r1{ C. labeled c1 C. labeled c2 single bond to c1} "
    "increase bond order(c1,c2) decrease number of radical (c1) decrease number "
    "of radical (c2)}",
    "rule t{ reactant r1{ C labeled c1 C labeled c2 double bond to c1} decrease "
    "bond order(c1,c2) increase number of radical(c1) increase number of "
    "radical(c2)}",
    "rule u{ reactant r1{ C. labeled c1 C. labeled c2 single bond to c1} modify "
    "bond(c1,c2,double) modify number of radical (c1, 0) modify number of "
    "radical (c2, 0)}",
    "rule v{ reactant r1{ C. labeled c1 } reactant r2{ C. labeled c2 } form "
    "single bond(c1,c2) decrease number of radical(c1) decrease number of "
    "radical(c2)}",
    "rule w{ reactant r1{ C labeled c1 O labeled o1 single bond to c1} break "
    "single bond(c1,o1) increase formal charge(c1) decrease formal charge(o1)}",
    "rule x{ reactant r1{ C+ labeled c1 } modify atomtype(c1, C.) }",
    "rule y{ reactant r1{ C labeled c1 C labeled c2 double bond to c1 C labeled "
    "c3 single bond to c2 H labeled h single bond to c3} break bond(c3,h) "
    "increase number of radical(h) decrease bond order(c1,c2) increase bond "
    "order(c2,c3) increase number of radical(c1)}",
]

RULE_SEEDS.append(
    "rule u2{ reactant r1{ C. labeled c1 } modify number of radical (c1, 2) "
    "modify number of radical (c1, 1) increase number of radical (c1) }")

# constructs the grammar recognises but the reader does not support
UNSUPPORTED_SEEDS = [
    "rule z{ reactant r1{ C labeled c1 H labeled h1 single bond to c1} "
    "constraints{ r1.size < 5 } break bond(c1,h1) increase number of "
    "radical(c1) increase number of radical(h1)}",
    "rule z2{ reactant r1{ C. labeled c1 } reactant r2 duplicates r1 ( c1 => c2 ) "
    "form bond(c1,c2) decrease number of radical(c1) decrease number of "
    "radical(c2)}",
    "rule z3{ reactant r1 group g ( a => c1 ) increase number of radical(c1) "
    "decrease number of radical(c1)}",
    "fragment z4{ C labeled c1 { connected to group g } }",
    "fragment z5{ C labeled c1 { || connected to C } }",
    "fragment z6{ C* labeled c1 }",
    "rule z7{ reactant r1{ C labeled c1 H labeled h1 single bond to c1} "
    "constraints{ fragment q{ C labeled x } r1 contains >1 of q && r1 is cyclic "
    "|| ( r1.charge =0 ) } break bond(c1,h1) increase number of radical(c1) "
    "increase number of radical(h1)}",
    "rule z8{ reactant r1{ C labeled c1 H labeled h1 single bond to c1} "
    "constraints{ r1 is aromatic && r1 is oxygenate && r1 is heteroaromatic "
    "&& r1 is bridged } break bond(c1,h1) increase number of radical(c1) "
    "increase number of radical(h1)}",
    "rule z9{ reactant r1{ C labeled c1 H labeled h1 single bond to c1} "
    "constraints{ r1.formula is C2H6O || r1 contains =1 of group group g } "
    "break bond(c1,h1) increase number of radical(c1) increase number of "
    "radical(h1)}",
    "rule z10{ reactant r1{ C labeled c1 H labeled h1 single bond to c1} "
    "constraints{ r1 is CCO } break bond(c1,h1) increase number of radical(c1) "
    "increase number of radical(h1)}",
]
# short rules with each constraint kind last in the block (their truncations
# end where a chain rule of the grammar may look for one more link)
for _c in ('a.formula is C2H6O', 'a.size > 2', 'a.charge = 0', 'a is cyclic',
           'a contains >1 of q', 'a.size + a.size < 9', '! a is aromatic'):
    UNSUPPORTED_SEEDS.append(
        "rule q{ reactant a{ C labeled c } constraints{ %s } increase number "
        "of radical(c) decrease number of radical(c)}" % _c)
# nesting: the work must stay proportional to the text (a grammar whose
# alternatives re-try the same nesting level doubles it per level)
for _d in (4, 8, 12, 16):
    UNSUPPORTED_SEEDS.append(
        "rule n%d{ reactant r1{ C labeled c1 H labeled h1 single bond to c1} "
        "constraints{ %sr1.size > x%s } break bond(c1,h1) increase number of "
        "radical(c1) increase number of radical(h1)}" % (_d, '(' * _d, ')' * _d))
    UNSUPPORTED_SEEDS.append(
        "rule m%d{ reactant r1{ C labeled c1 H labeled h1 single bond to c1} "
        "constraints{ %sr1.size > 2%s } break bond(c1,h1) increase number of "
        "radical(c1) increase number of radical(h1)}" % (_d, '(' * _d, ')' * _d))

TOKRE = re.compile(r"[A-Za-z_][A-Za-z0-9_]*|\d|>=|<=|=>|\|\||&&|\+\.|-\.|:\.|"
                   r"[^\sA-Za-z0-9_]")

LEXEMES = [
    'fragment', 'rule', 'reactant', 'labeled', 'bond', 'to', 'single', 'double',
    'triple', 'quadruple', 'ring', 'nonring', 'aromatic', 'any', 'strong',
    'partial', 'connected', 'with', 'in', 'of', 'size', 'has', 'radical',
    'electrons', 'ringbond', 'stereo', 'cis', 'trans', 'notspecified', 'for',
    'between', 'and', 'positive', 'negative', 'neutral', 'olefinic',
    'paraffinic', 'cyclic', 'linear', 'nonaromatic', 'ringatom', 'nonringatom',
    'allylic', 'atom', 'heavy', 'heteroatom', 'group', 'break', 'form', 'modify',
    'increase', 'decrease', 'order', 'number', 'formal', 'charge', 'atomtype',
    'constraints', 'duplicates', 'contains', 'is',
    'C', 'H', 'O', 'N', 'Pt', 'c', '$', '&', 'X', 'M', 'Xx',
    '{', '}', '(', ')', ',', '!', '||', '&&', '+', '-', '.', ':', '?', '*', '+.',
    '-.', ':.', '=', '>', '<', '>=', '<=', '=>', '0', '1', '2', '3', '9',
    'c1', 'zz9', 'é', '٣', '\r', '\x0c', '\x0b', '\xa0', '\u2003',
    # characters str.isdigit() accepts and int() does not
    '²', '①',
    # identifiers spelled like rules of the grammar (the parse tree labels its
    # nodes with these names)
    'AtomLabel', 'BondType',
]
SHORT_ALPHABET = ['a', 'C', '1', '_', ' ', '\n', '\t', '{', '}', '(', ')', ',',
                  '!', '.', 'é', '\r']
KEYWORDS = ['fragment', 'rule', 'reactant', 'labeled', 'single bond to',
            'ringbond', 'connected to', 'in ring of size', 'has', 'in',
            'radical electrons', 'ring', 'with', 'bond', 'stereo double bond',
            'break', 'form', 'modify bond', 'increase bond order',
            'decrease number of radical', 'modify atomtype', 'constraints{',
            'duplicates', 'group', 'positive', 'cyclic', 'aromatic', 'allylic',
            'any atom', 'C', 'c1', 'f', '{', '}', '(', ')', ',', '!', '?', '2',
            '>=', '=>']


def generated_fragment_seeds(n_each=8):
    out = []
    fams = [F.family_A(), F.family_B(), F.family_Bpairs(F.SUB10),
            F.family_C(F.SUB10), F.family_D('quick'), F.family_E()]
    for fam in fams:
        items = list(fam)
        step = max(1, len(items) // n_each)
        for f in items[::step][:n_each]:
            out.append(F.render(f))
    return out


def seeds(tier):
    s = FRAGMENT_SEEDS + RULE_SEEDS + UNSUPPORTED_SEEDS
    g = generated_fragment_seeds(4 if tier == 'quick' else 36)
    return s + [x for x in g if x not in s]


def one_edits(toks, lexemes=LEXEMES):
    for i in range(len(toks)):
        yield ('del', toks[:i] + toks[i + 1:])
        yield ('dup', toks[:i] + [toks[i]] + toks[i:])
        for a in lexemes:
            if a != toks[i]:
                yield ('sub', toks[:i] + [a] + toks[i + 1:])
    for i in range(len(toks) + 1):
        for a in lexemes:
            yield ('ins', toks[:i] + [a] + toks[i:])


# ---- long inputs: every right-recursive chain of the grammar, n links ------
_HEAD = "rule L{ reactant r1{ C labeled c1 H labeled h1 single bond to c1} "
_TAIL = ("break bond(c1,h1) increase number of radical(c1) increase number of "
         "radical(h1)}")


def long_texts(n):
    """One text per chain rule of the grammar with n links (valid for the
    supported constructs, so a reader that copes must accept it)."""
    yield 'AtomChain', "fragment a{ C labeled c1 " + ' '.join(
        'C labeled c%d single bond to c%d' % (i, i - 1) for i in range(2, n + 1)) + " }"
    yield 'RingBondChain', "fragment a{ C labeled c1 C labeled c2 single bond to c1 " + \
        ' '.join('ringbond c1 any bond to c2' for i in range(n)) + " }"
    yield 'AtomConstraintChain', "fragment a{ C labeled c1 {" + ' , '.join(
        '! in ring of size %d' % (3 + i % 6) for i in range(n)) + "} }"
    yield 'TransformationChain', _HEAD + ' '.join(
        'increase number of radical(c1) decrease number of radical(c1)'
        for i in range(n)) + ' ' + _TAIL
    yield 'Reactants', "rule L{ " + ' '.join(
        'reactant r%d{ C labeled c%d H labeled h%d single bond to c%d}' % (i, i, i, i)
        for i in range(1, n + 1)) + ' ' + _TAIL
    yield 'LabelMapping', "rule L{ reactant r1{ C. labeled c1 } reactant r2 duplicates r1 ( " + \
        ' , '.join('c1 => c2' for i in range(n)) + \
        " ) form bond(c1,c2) decrease number of radical(c1) decrease number of radical(c2)}"
    yield 'ConstraintChain', _HEAD + "constraints{ " + ' && '.join(
        'r1.size > 1' for i in range(n)) + " } " + _TAIL
    yield 'SizeChain', _HEAD + "constraints{ " + ' + '.join(
        'r1.size' for i in range(n)) + " > 1 } " + _TAIL
    yield 'ChargeChain', _HEAD + "constraints{ " + ' + '.join(
        'r1.charge' for i in range(n)) + " = 0 } " + _TAIL
    yield 'FragmentChain', _HEAD + "constraints{ " + ' '.join(
        'fragment q%d{ C labeled x }' % i for i in range(n)) + " r1 contains q0 } " + _TAIL
    yield 'MolecularFormulaChain', _HEAD + "constraints{ r1.formula is " + ' '.join(
        ('C', 'H', 'O', 'N')[i % 4] + ' 2' for i in range(n)) + " } " + _TAIL
    yield 'BranchConstraint', _HEAD + "constraints{ " + '( ' * n + 'r1.size > 2' + \
        ' )' * n + " } " + _TAIL
    yield 'Name', "fragment " + 'a' * n + "{ C labeled " + 'c' * n + " }"
    yield 'Whitespace', "fragment a{" + ' \n' * n + "C labeled c1" + '\n ' * n + "}"


LONG_N = {'quick': (8, 40, 120, 400, 1200), 'thorough': (8, 40, 120, 250, 400, 800, 1200, 3000)}
DIGIT_RUNS = (2, 19, 400, 4301, 5000)
