"""Third-wave domains of C16: rules with several reactants.

Everything here is plain data and text building; nothing imports pgradd.

A *multi-reactant rule* is (pats, names, seq):
  pats  = list of reactant patterns, each a list of (atom spec, bond or None)
          with bond = (kind, j) and j an index LOCAL to that reactant
  names = the reactant names, in the order in which the reactants are declared
  seq   = edits in the vocabulary of models/ruleref.py over GLOBAL atom
          numbers: the atoms of the reactants are numbered consecutively in
          declaration order (label of atom k is `a<k>`).
The i-th molecule handed to RunReactants belongs to the i-th declared
reactant, whatever the reactants are called.
"""
import itertools

from ..models import ruleref

# ---- family N: the reactant names are free identifiers --------------------
# Chosen so that declaration order, sorted() order, case-insensitive order,
# order by length and numeric-suffix order all disagree for some pair:
#   sorted(): B < a < r1 < r10 < r2 < z_9
NAMES = {'quick': ['r1', 'r2', 'r10', 'B'],
         'thorough': ['r1', 'r2', 'r10', 'B', 'a', 'z_9']}
# molecule pairs of the name family (quick: a 5 x 5 sub-alphabet of the 8
# molecules of the two-reactant family; thorough: all 8 x 8)
NAME_MOLS = {'quick': ['[CH3]', '[OH]', '[H]', 'C', 'C[O]'],
             'thorough': ['[CH3]', '[OH]', '[H]', 'C', 'CC', 'C[CH2]', 'C[O]', 'O']}
NAME_UNBALANCED_MAXLEN = 2


def name_tuples(tier, k=2):
    """every ordered k-tuple of distinct names"""
    return list(itertools.permutations(NAMES[tier], k))


# ---- family M: full edit alphabet on rules with two reactants -------------
# first reactants of 1 and 2 atoms (so that global label numbers of the second
# reactant are shifted by 1 or 2 against its own atom numbers), second
# reactants of 2 and 3 atoms with single and double bonds in both positions.
M_R1 = [[('C.', None)],
        [('C?', None), ('H', ('single', 0))]]
M_R2 = [[('C?', None), ('H', ('single', 0))],
        [('C?', None), ('C?', ('double', 0))],
        [('C?', None), ('C?', ('double', 0)), ('C?', ('single', 1))],
        [('C?', None), ('C?', ('single', 0)), ('C?', ('double', 1))]]
M_MOLS = ['[CH3]', 'C', 'C=C', 'C=CC', 'C=O', '[CH2]C=C']
M_LEN3_MAX_ATOMS = {'quick': 3, 'thorough': 4}

# ---- family T: three reactants ---------------------------------------------
T_R1 = [[('C.', None)]]
T_R2 = [[('O.', None)], [('C.', None)]]
T_R3 = [[('C?', None), ('H', ('single', 0))], [('C.', None)]]
T_MOLS = ['[CH3]', '[OH]', 'C']
T_NAMES = ['r1', 'r2', 'r3']


def combined(pats):
    """the reactant patterns as ONE pattern with global atom numbers"""
    out, off = [], 0
    for pat in pats:
        out += [(sp, None if b is None else (b[0], b[1] + off)) for sp, b in pat]
        off += len(pat)
    return out


def lab(i):
    return 'a%d' % i


def multi_text(pats, names, seq, rule='b'):
    parts, off = [], 0
    for name, pat in zip(names, pats):
        body = ' '.join('%s labeled a%d%s' % (
            sp, k + off, '' if b is None else ' %s bond to a%d' % (b[0], b[1] + off))
            for k, (sp, b) in enumerate(pat))
        parts.append('reactant %s{ %s }' % (name, body))
        off += len(pat)
    return 'rule %s{ %s %s }' % (rule, ' '.join(parts),
                                 ' '.join(ruleref.edit_text(e, lab) for e in seq))


def basic_edits(atoms):
    """the edit alphabet of the two-reactant family of wave 2"""
    n = len(atoms)
    bonds, _ = ruleref.pattern_tables(atoms)
    E = []
    for i in range(n):
        E += [('radinc', i), ('raddec', i)]
    for i, j in itertools.combinations(range(n), 2):
        if (i, j) in bonds:
            E += [('break', i, j, None), ('dec', i, j)]
        else:
            E += [('form', i, j, None)]
    return E


def middle_edits(atoms):
    """basic edits + increase order + modify bond to single / double"""
    n = len(atoms)
    bonds, _ = ruleref.pattern_tables(atoms)
    E = []
    for i in range(n):
        E += [('radinc', i), ('raddec', i)]
    for i, j in itertools.combinations(range(n), 2):
        if (i, j) in bonds:
            E += [('break', i, j, None), ('inc', i, j), ('dec', i, j),
                  ('modify', i, j, 'single'), ('modify', j, i, 'double')]
        else:
            E += [('form', i, j, None)]
    return E


def seqs_upto(E, maxlen):
    for L in range(1, maxlen + 1):
        for seq in itertools.product(E, repeat=L):
            yield seq


def m_sequences(atoms, full_alphabet, tier):
    """all sequences of length <= 2 over the full alphabet of the unimolecular
    family, then length 3 over middle_edits if the rule is small enough"""
    seen = set()
    for seq in seqs_upto(full_alphabet, 2):
        seen.add(seq)
        yield seq
    if len(atoms) <= M_LEN3_MAX_ATOMS[tier]:
        for seq in itertools.product(middle_edits(atoms), repeat=3):
            if seq not in seen:
                yield seq


def enc_pat(pat):
    return [[sp, None if b is None else [b[0], b[1]]] for sp, b in pat]


def dec_pat(L):
    return [(a[0], None if a[1] is None else (a[1][0], a[1][1])) for a in L]
