"""Fifth-wave domains for C08: rings larger than the numbers the language can
write (pure data and generators; nothing here imports pgradd).

A RING constraint number is ONE digit (0..9), the size of a ring in a molecule
is not.  Up to the fourth wave the largest ring of any enumerated molecule had
8 atoms (bicyclo[3.3.1]nonane) and the digit alphabet of the ring constraints
stopped at 6, so "the ring size compared is the real ring size, whatever it
is" was only ever exercised where size <= digit alphabet.  Family L:

* ring_systems(nmax): EVERY saturated carbon ring system made of one or two
  simple rings with sizes 3..nmax -
    mono    cycloalkane C_a                                   a = 3..nmax
    methyl  methylcycloalkane (one atom outside the ring)     a = 3..nmax
    linked  ring a and ring b joined by a single bond         3 <= a <= b <= nmax
    spiro   ring a and ring b sharing one atom                3 <= a <= b <= nmax
    fused   ring a and ring b sharing one bond                3 <= a <= b <= nmax
  built as plain graphs (all atoms carbon, all bonds single) and written as
  SMILES.  For fused rings the third cycle has a + b - 2 > max(a, b) atoms,
  so the smallest ring set is unique ({a, b}) for every member.
  Quick: two-ring systems with sizes 3..10 (3 x 36), monocycles and
  methyl-monocycles 3..16 (2 x 14): 136 molecules, ring sizes on both sides
  of every digit and of the one/two-digit border.  Thorough: 3..12 and 3..20
  (3 x 55 + 2 x 18 = 201 molecules).
* big_ring_fragments(): the ring vocabulary with the digit alphabet widened to
  ALL digits 0..9 (every `in ring of size` / `in n ring` constraint, plain and
  negated, bare and with each of the five operators, on C and on $?), ring
  prefixes, cyclic/linear, two bonded carbons over {ring, nonring, single, any}
  with a constraint from a sub-alphabet on either atom, ordered constraint
  pairs on one atom, and 3-atom chains (through a ring junction when a bond is
  `nonring`).
"""
import itertools

from . import fragments as F
from . import w3_c08 as W3

DIGITS10 = tuple('0123456789')


def _ring(edges, first, n):
    """add a simple cycle on the vertices first .. first+n-1"""
    for k in range(n):
        edges.append((first + k, first + (k + 1) % n))


def _graph(kind, a, b=None):
    e = []
    if kind == 'mono':
        _ring(e, 0, a)
        return a, e
    if kind == 'methyl':
        _ring(e, 0, a)
        e.append((0, a))
        return a + 1, e
    if kind == 'linked':
        _ring(e, 0, a)
        _ring(e, a, b)
        e.append((a - 1, a))
        return a + b, e
    if kind == 'spiro':
        # vertex 0 is shared: ring a on 0..a-1, ring b on 0, a..a+b-2
        _ring(e, 0, a)
        path = [0] + list(range(a, a + b - 1))
        for k in range(b):
            e.append((path[k], path[(k + 1) % b]))
        return a + b - 1, e
    if kind == 'fused':
        # bond (0, 1) is shared: ring a on 0..a-1, ring b on 1, 0, a..a+b-3
        _ring(e, 0, a)
        path = [0] + list(range(a, a + b - 2)) + [1]
        for k in range(b - 1):
            e.append((path[k], path[k + 1]))
        return a + b - 2, e
    raise ValueError(kind)


def ring_systems(nmax, nmax_mono=None):
    """[(name, SMILES)] of every one- and two-ring system described in the
    module text, ring sizes 3..nmax (monocycles and methyl-monocycles up to
    nmax_mono, default nmax)."""
    out = []
    for a in range(3, (nmax_mono or nmax) + 1):
        for kind in ('mono', 'methyl'):
            n, e = _graph(kind, a)
            out.append(('%s-%d' % (kind, a), W3._smiles(n, e)))
    for a in range(3, nmax + 1):
        for b in range(a, nmax + 1):
            for kind in ('linked', 'spiro', 'fused'):
                n, e = _graph(kind, a, b)
                out.append(('%s-%d-%d' % (kind, a, b), W3._smiles(n, e)))
    return out


def ring_constraints10():
    """every `in ring of size` / `in n ring` constraint over ALL digits:
    2 negations x {bare, =, >, <, >=, <=} x digits 0..9 x 2 kinds = 240."""
    out = []
    for neg in ('', '!'):
        for d in DIGITS10:
            for op in [''] + F.OPS:
                n = [neg] if neg else []
                c = ([op] if op else []) + [d]
                out.append(n + ['in ring of size'] + c)
                out.append(n + ['in'] + c + ['ring'])
    return out


# sub-alphabet for combined constraints: what separates ring sizes around the
# largest digit (`>9` is the only way to say "ten or more"), every operator,
# negation, and the ring counts 1 | 2 of the two-ring systems
BIG_SUB = [F.C(t) for t in [
    'in ring of size >9', '! in ring of size >9', 'in ring of size >=9',
    'in ring of size 9', '! in ring of size <=9', 'in ring of size >6',
    '! in ring of size >6', 'in ring of size <7', 'in ring of size =8',
    'in 2 ring', '! in >1 ring', 'in ring of size 6']]
BIG_SUB8 = [BIG_SUB[i] for i in (0, 1, 2, 4, 5, 6, 9, 11)]


def big_ring_fragments(tier='quick'):
    """L1  {C, $?} x every ring constraint with digits 0..9               480
    L2  {none, ringatom, nonringatom} x {C, $?, H, X}                       12
    L3  {none, cyclic, linear} x the two bodies of family E                  6
    L4  C-C with bond in {ring, nonring, single, any} x (one constraint
        of BIG_SUB8 or none) on each atom                              4 x 9^2
    L5  C { c1 , c2 } for every ordered pair of BIG_SUB                    144
    L6  3-atom chain C-C-C over {ring, nonring}^2 bonds with a constraint
        of BIG_SUB8 on the middle atom                                   4 x 8
        thorough: also with one on each end                             4 x 64
    quick 998 fragments, thorough 1254.
    """
    for a in W3.R_ATOMS:
        for c in ring_constraints10():
            yield W3.frag1(a, [c])
    for p in (None, 'ringatom', 'nonringatom'):
        for s, x in (('C', None), ('$', '?'), ('H', None), ('X', None)):
            yield F.frag([(F.spec(p, s, x), None, [])])
    bodies = [[(F.spec(None, 'C', '?'), None, [])],
              [(F.spec(None, '$', '?'), None, []),
               (F.spec(None, '$', '?'), ('any', 0), [])]]
    for topo in (None, 'cyclic', 'linear'):
        for b in bodies:
            yield F.frag(b, molprefix=(None, None, topo))
    C_ = F.spec(None, 'C', None)
    opt = [None] + BIG_SUB8
    for k in W3.R_BONDS:
        for c1 in opt:
            for c2 in opt:
                yield F.frag([(C_, None, [c1] if c1 else []),
                              (C_, (k, 0), [c2] if c2 else [])])
    for c1 in BIG_SUB:
        for c2 in BIG_SUB:
            yield W3.frag1(C_, [c1, c2])
    for k1, k2 in itertools.product(('ring', 'nonring'), repeat=2):
        for c in BIG_SUB8:
            yield F.frag([(C_, None, []), (C_, (k1, 0), [c]), (C_, (k2, 1), [])])
        for c1 in (BIG_SUB8 if tier == 'thorough' else []):
            for c2 in BIG_SUB8:
                yield F.frag([(C_, None, [c1]), (C_, (k1, 0), []),
                              (C_, (k2, 1), [c2])])
