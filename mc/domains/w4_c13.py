"""Unit systems of included files for C13 (fourth wave).

Pure text generation and arithmetic; nothing here imports pgradd.

A library file may state its data in dimensional form (H_ref, S_ref, Cp_data,
temperatures) either with the unit written on every number, or as BARE numbers
whose units are declared once in the file's own `units:` block.  Every file of
an assembled library has its own block, so the files of one library may use
different unit systems: the data a file "gives" for a group are its numbers in
ITS units.

The reference data are fixed in SI (J/mol, J/(mol K), K); a file's numbers are
obtained by dividing by the factor of the unit the file uses, and the expected
library content is the non-dimensional form  H/(R T_ref), S/R, Cp/R  computed
here from the numbers actually written (to 12 significant digits, the
canonical-state precision of the check).
"""
import itertools

# pgradd's documented gas constant (pgradd/Consts.py, docs): 8.314472 J/(mol K).
# Stated as a literal: nothing is computed by the code under test.
R_GAS = 8.314472

# unit expression -> SI factor (definitions: thermochemical calorie 4.184 J)
FACTOR = {
    'J/mol': 1.0, 'kJ/mol': 1000.0, 'cal/mol': 4.184, 'kcal/mol': 4184.0,
    'J/(mol*K)': 1.0, 'kJ/(mol*K)': 1000.0, 'cal/(mol*K)': 4.184,
    'kcal/(mol*K)': 4184.0, 'mJ/(mol*K)': 1e-3,
    'K': 1.0, 'kK': 1000.0, 'hK': 100.0,
}
KINDS = ('molar enthalpy', 'molar entropy', 'molar heat capacity',
         'temperature')

# name -> (declared in the units: block?, unit) per kind.  A kind that is not
# declared in the block has its unit written on every number of that kind.
SYSTEMS = {
    # no units: block at all, every number carries its unit
    'written': {'molar enthalpy': (False, 'kcal/mol'),
                'molar entropy': (False, 'J/(mol*K)'),
                'molar heat capacity': (False, 'cal/(mol*K)'),
                'temperature': (False, 'K')},
    'kcal': {'molar enthalpy': (True, 'kcal/mol'),
             'molar entropy': (True, 'cal/(mol*K)'),
             'molar heat capacity': (True, 'cal/(mol*K)'),
             'temperature': (True, 'K')},
    'kJ': {'molar enthalpy': (True, 'kJ/mol'),
           'molar entropy': (True, 'J/(mol*K)'),
           'molar heat capacity': (True, 'J/(mol*K)'),
           'temperature': (True, 'K')},
    # entropy and heat capacity in different units, temperature not in K
    'J-kK': {'molar enthalpy': (True, 'J/mol'),
             'molar entropy': (True, 'kJ/(mol*K)'),
             'molar heat capacity': (True, 'kcal/(mol*K)'),
             'temperature': (True, 'kK')},
    # a partial block: two kinds declared, the other two written out
    'partial': {'molar enthalpy': (True, 'cal/mol'),
                'molar entropy': (False, 'cal/(mol*K)'),
                'molar heat capacity': (False, 'kJ/(mol*K)'),
                'temperature': (True, 'K')},
}
SYSTEM_NAMES = tuple(SYSTEMS)

T_REF = 350.0
RANGE = (200.0, 1000.0)
# SI reference data of the group (and of the same data with one datum
# different, for conflicts; and of the other group)
SI = {'H': -50208.0, 'S': 125.52, 'Cp300': 25.104, 'Cp400': 33.472,
      'Cp500': 41.84}
SI_OTHER = {'H': -41840.0, 'S': 129.704, 'Cp300': 29.288, 'Cp400': 37.656,
            'Cp500': 50.208}
KIND_OF = {'H': 'molar enthalpy', 'S': 'molar entropy',
           'Cp300': 'molar heat capacity', 'Cp400': 'molar heat capacity',
           'Cp500': 'molar heat capacity'}
DATA = ('H', 'S', 'Cp300', 'Cp400', 'Cp500')


def number(si_value, kind, system):
    """-> (text as written in a file of `system`, SI value of that text)."""
    declared, unit = SYSTEMS[system][kind]
    x = float(repr(si_value / FACTOR[unit]))
    text = repr(x) if declared else '%r %s' % (x, unit)
    return text, x * FACTOR[unit]


def units_block(system):
    decl = [(k, SYSTEMS[system][k][1]) for k in KINDS if SYSTEMS[system][k][0]]
    if not decl:
        return ''
    return 'units:\n' + ''.join('  %s: %s\n' % kv for kv in decl)


def group_text(name, data, values, system):
    """One group entry.  -> (yaml lines, {datum: SI value as written})."""
    def t(v):
        return number(v, 'temperature', system)[0]
    lines = ['  %r:' % name, '    thermochem:', '      T_ref: %s' % t(T_REF),
             '      range: [%s, %s]' % (t(RANGE[0]), t(RANGE[1]))]
    given = {}
    if 'H' in data:
        text, given['H'] = number(values['H'], KIND_OF['H'], system)
        lines.append('      H_ref: %s' % text)
    if 'S' in data:
        text, given['S'] = number(values['S'], KIND_OF['S'], system)
        lines.append('      S_ref: %s' % text)
    cps = [d for d in data if d.startswith('Cp')]
    if cps:
        lines.append('      Cp_data:')
        for d in cps:
            text, given[d] = number(values[d], KIND_OF[d], system)
            lines.append('        - [%s, %s]' % (t(float(d[2:])), text))
    return '\n'.join(lines), given


def file_text(blocks, includes, system):
    """blocks: list of (group name, data, SI values).  -> (text, given) where
    given[group name][datum] is the SI value the file states."""
    out = [units_block(system).rstrip('\n')] if units_block(system) else []
    given = {}
    if includes:
        out.append('include: [%s]' % ', '.join(includes))
    if blocks:
        out.append('groups:')
        for name, data, values in blocks:
            text, g = group_text(name, data, values, system)
            out.append(text)
            given.setdefault(name, {}).update(g)
    return '\n'.join(out) + '\n', given


def nondimensional(given):
    """{datum: SI value} -> (H/(R T_ref), S/R, ((T, Cp/R), ...)) with None for
    a missing reference value."""
    H = given['H'] / (R_GAS * T_REF) if 'H' in given else None
    S = given['S'] / R_GAS if 'S' in given else None
    Cp = tuple(sorted((float(d[2:]), given[d] / R_GAS)
                      for d in given if d.startswith('Cp')))
    return H, S, Cp


def same_in_every_system():
    """The reference numbers are whole calories chosen so that in every system
    the number written converts back to exactly the same SI value: a datum
    restated in another system is the same datum, not one an ulp away."""
    return all(number(vals[d], KIND_OF[d], s)[1] == vals[d]
               for vals in (SI, SI_OTHER) for d in DATA for s in SYSTEM_NAMES
               ) and all(number(T, 'temperature', s)[1] == T
                         for T in (T_REF,) + RANGE + (300.0, 400.0, 500.0)
                         for s in SYSTEM_NAMES)


assert same_in_every_system()


def system_tuples(k):
    return list(itertools.product(SYSTEM_NAMES, repeat=k))
