"""Fourth-wave domains for C12 (number/unit spellings, file layouts, load
histories in pristine processes).  Nothing here imports pgradd.

* SPELLINGS: how an explicit "<number><separator><unit>" string is written:
  separator in {no blank, one blank, two blanks} (the bundled data write
  `100K`; the documented unit grammar skips blanks and multiplies by
  juxtaposition) x number style in {positional digits as before, 'short':
  an integral value without its '.0', as the bundled data write `300 K`}.
* LAYOUTS: where the data of a group sit relative to the library.yaml that
  is given to GroupLibrary.Load - every bundled library keeps them in an
  INCLUDED file.
* pristine_map(): runs histories, each in its own forked copy of ONE fresh
  interpreter that has imported the modules under test and called the
  caller's init() and nothing else.  Every history therefore starts from the
  same process state: no data file with a unit string has been loaded, no
  unusual unit name looked up.  This is what a history family needs whose
  first step must be the first ever.
* euler_circuit(n): one walk in which every ordered pair of n letters occurs
  once as neighbours.
"""
import importlib
import json
import os
import subprocess
import sys
import traceback

from . import w3_c12 as W3

# ---------------------------------------------------------------- spellings

SEPARATORS = ('', ' ', '  ')
STYLES = ('positional', 'short')
# (sixth wave, C12-m16) the two other spellings float() and the tokenizer's
# number pattern accept: no digit before the point ('.5', '-.5') and no digit
# after it ('5.'); offered with the plain separator only
EXTRA_STYLES = ('nolead', 'trail')
OLD_SPELLING = (' ', 'positional')
SPELLINGS = tuple((sep, st) for st in STYLES for sep in SEPARATORS) + tuple(
    (' ', st) for st in EXTRA_STYLES)
NEW_SPELLINGS = tuple(s for s in SPELLINGS if s != OLD_SPELLING)


def spell_number(x, style):
    s = W3.positional(x)
    if style == 'short' and s.endswith('.0'):
        s = s[:-2]
    elif style == 'nolead':
        if s.startswith('0.') and s != '0.0':
            s = s[1:]
        elif s.startswith('-0.') and s != '-0.0':
            s = '-' + s[2:]
    elif style == 'trail':
        if s.endswith('.0'):
            s = s[:-1]
    elif style not in STYLES:
        raise ValueError(style)
    return s


# positions of the prefix family whose prefixed name directly follows the
# number in an explicit string (`5 pJ/mol`, `298.15 pK`; in `5 J/pmol` the
# number stands against the unprefixed J)
SPELL_PREFIX_POSITIONS = ('J', 'cal', 'K')

# ------------------------------------------------------------------ layouts

LAYOUTS = ('include', 'include-subdir', 'include-chain', 'include-beside-own',
           'include-after-good', 'include-before-good', 'own-beside-include')
IN_INCLUDED_FILE = frozenset(LAYOUTS[:6])


def _inc(*paths):
    return 'include:\n' + ''.join('  - %s\n' % p for p in paths)


def lay_out(layout, text, other):
    """-> {relative path: content}; 'library.yaml' is what is loaded.
    `text` is the complete file (units block + groups) under test, `other` a
    complete valid file holding another group under OTHER default units."""
    if layout == 'self':
        return {'library.yaml': text}
    if layout == 'include':
        return {'library.yaml': _inc('groups.yaml'), 'groups.yaml': text}
    if layout == 'include-subdir':
        return {'library.yaml': _inc('sub/groups.yaml'), 'sub/groups.yaml': text}
    if layout == 'include-chain':
        return {'library.yaml': _inc('mid.yaml'), 'mid.yaml': _inc('sub/groups.yaml'),
                'sub/groups.yaml': text}
    if layout == 'include-beside-own':
        return {'library.yaml': _inc('groups.yaml') + other, 'groups.yaml': text}
    if layout == 'include-after-good':
        return {'library.yaml': _inc('good.yaml', 'groups.yaml'), 'good.yaml': other,
                'groups.yaml': text}
    if layout == 'include-before-good':
        return {'library.yaml': _inc('groups.yaml', 'good.yaml'), 'good.yaml': other,
                'groups.yaml': text}
    if layout == 'own-beside-include':
        return {'library.yaml': _inc('good.yaml') + text, 'good.yaml': other}
    raise ValueError(layout)


def has_other(layout):
    return layout in ('include-beside-own', 'include-after-good', 'include-before-good',
                      'own-beside-include')


# ---------------------------------------------------------------- histories

HISTORY_PREFIXES = ('',) + tuple(W3.PREFIXES)       # '' = the unprefixed unit
# the energy name, the amount, the kelvin (`cal` plays the same part as J and
# is left to the prefix and spelling families)
HISTORY_POSITIONS = ('J', 'mol', 'K')


def euler_circuit(n):
    """A closed walk over 0..n-1 (starting at 0) in which every ordered pair
    (i, j), i == j included, occurs exactly once as two consecutive elements
    (an Eulerian circuit of the complete directed graph with loops):
    n*n + 1 elements."""
    nxt = [0] * n
    stack, out = [0], []
    while stack:
        v = stack[-1]
        if nxt[v] < n:
            nxt[v] += 1
            stack.append(nxt[v] - 1)
        else:
            out.append(stack.pop())
    out.reverse()
    assert len(out) == n * n + 1 and out[0] == 0
    assert len(set(zip(out, out[1:]))) == n * n
    return out


def pristine_map(modname, init, func, items, timeout=3600):
    """[func(item) for item in items], every call in its own forked copy of
    ONE fresh interpreter in which only `modname` was imported and `init()`
    called: every item starts from the same pristine process state.
    -> [dict(ok=result) | dict(crash=text)]."""
    from .. import VERIF
    job = json.dumps(dict(module=modname, init=init, func=func, items=items))
    p = subprocess.run([sys.executable, '-c',
                        'from mc.domains import w4_c12; w4_c12._child_main()'],
                       cwd=VERIF, env=dict(os.environ), input=job.encode(),
                       stdout=subprocess.PIPE, stderr=subprocess.PIPE, timeout=timeout)
    if p.returncode != 0:
        raise RuntimeError('pristine interpreter failed rc=%s: %s' % (
            p.returncode, p.stderr.decode(errors='replace')[-1500:]))
    out = json.loads(p.stdout.decode())
    if len(out) != len(items):
        raise RuntimeError('pristine interpreter answered %d of %d items'
                           % (len(out), len(items)))
    return out


def _call(fn, item):
    try:
        return dict(ok=fn(item))
    except BaseException:       # noqa
        return dict(crash=traceback.format_exc()[-1500:])


def _in_fork(work):
    """work() -> JSON-able, executed in a forked copy of this process."""
    r, w = os.pipe()
    pid = os.fork()
    if pid == 0:
        try:
            os.close(r)
            res = work()
            with os.fdopen(w, 'w') as f:
                json.dump(res, f, default=str)
        finally:
            os._exit(0)
    os.close(w)
    with os.fdopen(r) as f:
        data = f.read()
    os.waitpid(pid, 0)
    try:
        return json.loads(data)
    except ValueError:
        return None


def _child_main():
    real = os.fdopen(os.dup(1), 'w')
    real_err = os.fdopen(os.dup(2), 'w')
    try:
        job = json.load(sys.stdin)
        dn = os.open(os.devnull, os.O_WRONLY)
        os.dup2(dn, 1)
        os.dup2(dn, 2)
        sys.stdout = open(os.devnull, 'w')
        sys.stderr = open(os.devnull, 'w')
        mod = importlib.import_module(job['module'])
        getattr(mod, job['init'])()
        fn = getattr(mod, job['func'])
        died = dict(crash='the forked process ended without an answer')
        out = [_in_fork(lambda item=item: _call(fn, item)) or died
               for item in job['items']]
        json.dump(out, real)
        real.flush()
    except BaseException:       # noqa
        real_err.write(traceback.format_exc())
        real_err.flush()
        os._exit(2)
    os._exit(0)
