"""Fifth-wave domains for C05: a correlation whose data are EDITED after it
was built, and pieces that arrive at ANOTHER reference temperature.

Until now a live correlation only ever grew (family U: update() with pieces
at the receiver's own T_ref).  Two things a ThermochemIncomplete /
ThermochemGroup offers were never exercised:

  family D  the public mutators that take data away or re-frame them -
            del_ND_Cp(T), del_ND_Cp(), del_ND_H_ref(), del_ND_S_ref(),
            set_range() - interleaved with update() calls that bring points
            (back).  "Its heat-capacity table and pair of reference values"
            are then what is left: the property must hold for THAT table
            (new end values held outside the new span, new interpolant).
  family V  update() with a piece whose T_ref differs from the receiver's.
            The piece's data are "H/RT = h and S/R = s AT the piece's T_ref"
            plus its Cp points; after an accepted merge the object must
            return h and s at the PIECE's T_ref, along the MERGED table.

This module states both as dictionary models and enumerates the letters; it
imports nothing from pgradd and computes no thermodynamic value.

Family D - letters (relative to the table Ts, Cps the object was built with)
  del:i       del_ND_Cp(Ts[i]) for i in {0, 1, N//2, N-1}; deleting a point
              that is not held is not an edit (KeyError) - such histories are
              not enumerated
  del:all     del_ND_Cp(); only as the LAST step of a history (it leaves
              ND_Cp_data = None, after which update()/copy() raise - noted in
              DESIGN 10.10 as outside every listed property)
  delH, delS  del_ND_H_ref(), del_ND_S_ref()
  add:above   update() with the new point {Ts[-1]+100: 2.5}
  add:inside  update() with the new point {Ts[0]+40: 3.5}
  put:first   update() with {Ts[0]: Cps[0]+0.75}, overwrite=False: refused
              while Ts[0] is held, a new point after del:0
  range       set_range((lo-25, hi+50)) of the range it was built with
  probes      'end'   - nothing is evaluated before the last step
              'every' - the object is evaluated before the first and after
                        every step (an interpolant kept from before an edit
                        is seen only if it was built before)

Family V - alphabets (relative to the nominal table Ts, Cps = three unequally
spaced points of the non-polynomial sequence)
  receiver    holds the first N0 points of the nominal table (N0 = 0: no
              table at all), T_ref at a placement relative to the nominal
              table, reference values RECV_HS (both / H only / S only / none)
  piece T_ref a placement relative to the nominal table, or the default
              298.15 K, different from the receiver's
  V_CP        none / above {Ts[-1]+100: 2.5} / below {Ts[0]-100: 1.25} /
              inside {Ts[0]+40: 3.5} / other {Ts[0]: Cps[0]+0.75} (a
              contradiction when the receiver holds Ts[0]) / table (the whole
              nominal table) / table+above
  h, s        none / B: HB = 40.0, SB = -55.0, stated at the piece's T_ref
  overwrite   False / True
  HB, SB are chosen so that they contradict ANY reference value the receiver
  can hold at another temperature: carried from T1 to T2 (both in
  [250, 530] K) T*H/RT changes by the integral of Cp/R, at most 10*|T2-T1|
  in magnitude for these tables, S/R by at most 10*ln(530/250) < 8; HB*T1 -
  HA*T2 >= 40*250 + 12.5*250 and |SB - SA| = 86.25 are far outside that, and
  so is HB*T1 - HB*T2 = 40*(T1-T2) for T1 != T2 (S = SB stated at two
  temperatures agrees only if Cp/T integrates to 0, which the model neither
  assumes nor excludes: such a history is 'outside', see VModel).
"""
import itertools

HA, SA = -12.5, 31.25
HB, SB = 40.0, -55.0
RECV_HS = [(HA, SA), (HA, None), (None, SA), (None, None)]
T_REF_DEFAULT = 298.15
V_OTHER, V_ABOVE, V_BELOW, V_INSIDE = 0.75, 2.5, 1.25, 3.5

# ------------------------------------------------------------------ family D

PROBES = ['end', 'every']


def d_letters(N):
    idx = sorted(i for i in set([0, 1, N // 2, N - 1]) if 0 <= i < N)
    return (['del:%d' % i for i in idx] +
            ['delH', 'delS', 'add:above', 'add:inside', 'put:first', 'range',
             'del:all'])


def d_point(letter, Ts, Cps):
    """(T, Cp/R) an update letter brings."""
    return {'add:above': (Ts[-1] + 100.0, V_ABOVE),
            'add:inside': (Ts[0] + 40.0, V_INSIDE),
            'put:first': (Ts[0], Cps[0] + V_OTHER)}[letter]


def d_range2(rng):
    return (rng[0] - 25.0, rng[1] + 50.0)


def d_candidates(Ts):
    return sorted(set(list(Ts) + [Ts[-1] + 100.0, Ts[0] + 40.0]))


class DModel(object):
    """The data a correlation holds after a history of edits."""

    def __init__(self, Ts, Cps, H, S, rng):
        self.Ts0, self.Cps0, self.rng0 = list(Ts), list(Cps), tuple(rng)
        self.table = dict(zip(Ts, Cps))
        self.h, self.s, self.rng = H, S, tuple(rng)
        self.gone = False        # del_ND_Cp() was called

    def step(self, letter):
        """'done' | 'accepted' | 'refused' | 'inapplicable'"""
        if self.gone:
            return 'inapplicable'          # del:all is a last step
        if letter.startswith('del:'):
            if letter == 'del:all':
                self.table = {}
                self.gone = True
                return 'done'
            T = self.Ts0[int(letter[4:])]
            if T not in self.table:
                return 'inapplicable'
            del self.table[T]
            return 'done'
        if letter == 'delH':
            self.h = None
            return 'done'
        if letter == 'delS':
            self.s = None
            return 'done'
        if letter == 'range':
            self.rng = d_range2(self.rng0)
            return 'done'
        T, v = d_point(letter, self.Ts0, self.Cps0)
        if T in self.table and self.table[T] != v:
            return 'refused'
        self.table[T] = v
        return 'accepted'

    def data(self):
        Ts = sorted(self.table)
        return Ts, [self.table[T] for T in Ts], self.h, self.s


def d_histories(N, L):
    """Every applicable history of 1..L letters."""
    letters = d_letters(N)
    Ts = list(range(N))
    out = []
    for n in range(1, L + 1):
        for steps in itertools.product(letters, repeat=n):
            m = DModel(Ts, [0.0] * N, 0.0, 0.0, (0.0, 1.0))
            if all(m.step(st) != 'inapplicable' for st in steps):
                out.append(list(steps))
    return out


# ------------------------------------------------------------------ family V

V_CP = ['none', 'above', 'below', 'inside', 'other', 'table', 'table+above']
V_CP2 = ['none', 'above', 'table']


def v_points(name, Ts, Cps):
    """[(T, Cp/R)] in the order the piece's dict is filled."""
    one = {'above': [(Ts[-1] + 100.0, V_ABOVE)],
           'below': [(Ts[0] - 100.0, V_BELOW)],
           'inside': [(Ts[0] + 40.0, V_INSIDE)],
           'other': [(Ts[0], Cps[0] + V_OTHER)],
           'table': list(zip(Ts, Cps)),
           'none': []}
    out = []
    for p in name.split('+'):
        out.extend(one[p])
    return out


def v_candidates(Ts):
    return sorted(set(list(Ts) + [Ts[-1] + 100.0, Ts[0] - 100.0, Ts[0] + 40.0]))


def _v_pieces(cps):
    out = []
    for cp, h, s, ow in itertools.product(cps, ['none', 'B'], ['none', 'B'],
                                          [False, True]):
        if cp == 'none' and h == 'none' and s == 'none':
            continue
        out.append(dict(cp=cp, h=h, s=s, ow=ow))
    return out


def v_pieces():
    return _v_pieces(V_CP)            # 7*2*2*2 - 2 = 54


def v_pieces2():
    return _v_pieces(V_CP2)           # 3*2*2*2 - 2 = 22


class VModel(object):
    """What a correlation's data are after update() calls whose pieces state
    their reference values at their own T_ref.

    A held reference value is an *anchor* (T, value, kind): "the quantity
    equals value at T".  kind 'own': the receiver's, at its T_ref; 'piece':
    an accepted piece's, at the piece's T_ref - along the table as merged by
    that very step.  If a LATER step changes the table under a 'piece' anchor
    the statement does not say which of the two the object keeps (the
    incoming statement, or the value it has carried to its own T_ref); the
    model then re-anchors at the receiver's T_ref with the value the object
    listed before that step (kind 'carried') and demands that the object
    keeps listing it and stays consistent with it.

    Without overwrite a piece that re-states a held quantity is
      refused   against an 'own' anchor, and for H against a 'piece' anchor
                at another temperature (contradictions by construction, see
                the module docstring);
      accepted  when it is the same statement (same T_ref, same value) and
                the step does not change the table;
      'outside' otherwise (same statement but the table changes with it; a
                'carried' anchor; S = SB at two temperatures): agreement then
                hangs on the arithmetic of the carrying; and when there is
                no table at all, neither held nor brought (the bound on the
                integral of Cp in the module docstring presupposes one).
                Such a history is not judged.
    """

    def __init__(self, Ts, Cps, N0, Ta, hsi):
        self.Ts0, self.Cps0, self.Ta = list(Ts), list(Cps), Ta
        self.table = dict(zip(Ts[:N0], Cps[:N0]))
        H, S = RECV_HS[hsi]
        self.h = None if H is None else (Ta, H, 'own')
        self.s = None if S is None else (Ta, S, 'own')

    def step(self, piece, Tb, listed):
        """'accepted' | 'refused' | 'outside'.  `listed` = (ND_H_ref,
        ND_S_ref) as the object lists them before the step."""
        pts = v_points(piece['cp'], self.Ts0, self.Cps0)
        h = HB if piece['h'] == 'B' else None
        s = SB if piece['s'] == 'B' else None
        changes = any(T not in self.table or self.table[T] != v for T, v in pts)
        if not piece['ow']:
            if any(T in self.table and self.table[T] != v for T, v in pts):
                return 'refused'
            clash = False
            for q, new, held in (('h', h, self.h), ('s', s, self.s)):
                if new is None or held is None:
                    continue
                if not self.table and not pts:
                    # no table at all: nothing is known about Cp, so two
                    # statements at two temperatures neither agree nor
                    # contradict
                    return 'outside'
                if held[2] == 'own':
                    clash = True
                elif held[2] == 'carried':
                    return 'outside'
                elif held[0] == Tb:
                    if changes:
                        return 'outside'
                elif q == 'h':
                    clash = True
                else:
                    return 'outside'
            if clash:
                return 'refused'
        for T, v in pts:
            self.table[T] = v
        if changes:
            if self.h is not None and self.h[2] == 'piece' and h is None:
                self.h = (self.Ta, listed[0], 'carried')
            if self.s is not None and self.s[2] == 'piece' and s is None:
                self.s = (self.Ta, listed[1], 'carried')
        if h is not None:
            self.h = (Tb, h, 'piece')
        if s is not None:
            self.s = (Tb, s, 'piece')
        return 'accepted'

    def data(self):
        Ts = sorted(self.table)
        return Ts, [self.table[T] for T in Ts], self.h, self.s
