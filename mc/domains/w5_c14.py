"""Alphabets of the families added to C14 in wave 5 (data and file-system
helpers only; nothing of pgradd is imported here - the child interpreter of
props/c14.py drives the implementation).

Every process of C14 so far imported the package from ONE place (the tree
under test) and had the data-directory override either absent or present in
its environment from its very start.  "Loads by name" and "a relocated copy
selected through the override" quantify over two more things a caller
controls:

1. Where the package itself lives.  Without the override the bundled data are
   found from the location of the package's own files.  INSTALLED COPIES: the
   package directory is copied to  <tmp>/<a1>/pgradd  (thorough: also to
   <tmp>/<a1>/<a2>/pgradd)  for every chain of ancestor directory names over
   ANCESTOR_NAMES (the letters are the names that a search for "the package
   directory" or "the data directory" inside a path can trip over), imported
   from there in a fresh process, and every library is loaded by name.

2. When the override is put into the environment.  The data directory is
   resolved when it is first needed and then remembered, so a program may
   import the package and select a relocated copy afterwards.  OVERRIDE
   MOMENTS: (what the environment held when the process started) x (what the
   program does to it: point it at another tree / remove it) x (the moment:
   the events of an ordinary program that have already happened), then every
   library is loaded by name.

3. What "an entry with data" is.  The uncertainty-basis clause was walked as
   (descriptor, has a thermochemical property set); DATA_SLOTS are the three
   places such a set keeps data in, read from the loaded object and - with
   the key spellings below - from the raw files.
"""
import os
import shutil

from . import libs

# ------------------------------------------------------------ installed copies

PACKAGE = 'pgradd'

# ancestor directory names; one letter per way a path search can go wrong
ANCESTOR_NAMES = [
    'site-packages',    # neutral
    'pgradd',           # the package's own name (the usual checkout pgradd/pgradd)
    'pgradd-src',       # the package's name as a prefix
    'py-pgradd',        # the package's name as a suffix
    'pgradd.d',         # prefix, with a dot
    'PGRADD',           # other letter case
    'data',             # the name of the data directory
    'GroupAdd']         # the sub-package that holds the locating code
PER_SHARD = 3           # processes of one shard (their dumps are compared)


def install_chains(tier):
    """Chains of ancestor directory names (outermost first).  quick: every
    chain of length 1 over the alphabet (8); thorough: every chain of length
    1 and 2 (72)."""
    two = ANCESTOR_NAMES if tier == 'thorough' else []
    return [(a,) for a in ANCESTOR_NAMES] + [(a, b) for a in two for b in two]


def rotation(i):
    """The nine by-name loads of program number i of a family start with
    library i mod 9 (bundled order, cyclically)."""
    k = i % len(libs.LIBS)
    return libs.LIBS[k:] + libs.LIBS[:k]


def install_shards(tier):
    """[((chain, index), ...)] - quick 2, thorough PER_SHARD programs per
    shard."""
    progs = [(c, i) for i, c in enumerate(install_chains(tier))]
    size = PER_SHARD if tier == 'thorough' else 2
    return [tuple(progs[i:i + size]) for i in range(0, len(progs), size)]


def install_copy(tmp, chain, src_repo):
    """Copy <src_repo>/pgradd to <tmp>/<chain...>/pgradd; returns the directory
    to put on sys.path (its parent)."""
    top = os.path.join(tmp, *chain)
    os.makedirs(top)
    shutil.copytree(os.path.join(src_repo, PACKAGE), os.path.join(top, PACKAGE))
    return top


# ------------------------------------------------------------ override moments

# (label, what the environment holds at process start, what the program does)
#   'A' / 'B' are two relocated copies of the bundled data directory, each
#   with one extra library directory only it has (ONLY_NAMES).
OVERRIDE_PLANS = [
    ('absent, then set', None, 'B'),
    ('set, then set to another tree', 'A', 'B'),
    ('set, then removed', 'A', None)]
ONLY_NAMES = {'A': 'RelocatedOnlyA', 'B': 'RelocatedOnlyB'}
ONLY_SOURCE = 'XieGA2022'       # what the extra directory is a copy of

# the moment of the change: (label, modules imported before it one by one,
# every import of an ordinary program done?, a load by explicit path done?)
_MODS = ['pgradd', 'pgradd.GroupAdd.DataDir', 'pgradd.GroupAdd.Scheme',
         'pgradd.GroupAdd.Library']
MOMENTS = [
    ('before anything of pgradd is imported', [], False, False),
    ('after import pgradd', _MODS[:1], False, False),
    ('after import pgradd.GroupAdd.DataDir', _MODS[:2], False, False),
    ('after import pgradd.GroupAdd.Scheme', _MODS[:3], False, False),
    ('after import pgradd.GroupAdd.Library', _MODS[:4], False, False),
    ('after every import (pgradd.ThermoChem, GroupLibrary)', _MODS[:4], True, False),
    ('after every import and a load of a bundled library.yaml by explicit path',
     _MODS[:4], True, True)]
# events only accumulate, so the moments in between are implied by the later
# ones as far as "resolved too early" goes; quick keeps the first and the two
# last, thorough walks all seven
QUICK_MOMENTS = [0, 5, 6]


def moment_indices(tier):
    return list(range(len(MOMENTS))) if tier == 'thorough' else list(QUICK_MOMENTS)


def moment_shards(tier):
    """[((plan index, moment index, program index), ...)] - one shard per
    plan and PER_SHARD (thorough: up to 4) moments."""
    ms = moment_indices(tier)
    out = []
    n = 0
    for p in range(len(OVERRIDE_PLANS)):
        progs = []
        for m in ms:
            progs.append((p, m, n))
            n += 1
        size = PER_SHARD if len(progs) <= PER_SHARD else 4
        out += [tuple(progs[i:i + size]) for i in range(0, len(progs), size)]
    return out


def build_override_trees(tmp, src_data):
    """Two relocated copies of the data directory, <tmp>/A/data and
    <tmp>/B/data, each with one more library directory under a name only it
    has."""
    trees = {}
    for t in ('A', 'B'):
        root = os.path.join(tmp, t, 'data')
        os.makedirs(os.path.dirname(root))
        shutil.copytree(src_data, root)
        shutil.copytree(os.path.join(src_data, ONLY_SOURCE),
                        os.path.join(root, ONLY_NAMES[t]))
        trees[t] = root
    return trees


# ------------------------------------------------------------ data slots

# where a thermochemical record keeps data: (slot, key spellings in the files)
DATA_SLOTS = [('H_ref', ('H_ref', 'ND_H_ref')),
              ('S_ref', ('S_ref', 'ND_S_ref')),
              ('Cp_data', ('Cp_data', 'ND_Cp_data'))]


def raw_slots(record):
    """(has H, has S, has Cp) of one group record of a data file as PyYAML
    shows it: a slot holds data when one of its keys is there with a value
    that is neither null nor an empty list / mapping.  None when the record
    has no thermochemical property set at all."""
    if not isinstance(record, dict) or not isinstance(record.get('thermochem'), dict):
        return None
    th = record['thermochem']
    out = []
    for _, keys in DATA_SLOTS:
        has = False
        for k in keys:
            v = th.get(k)
            if v is None or (isinstance(v, (list, dict, str)) and len(v) == 0):
                continue
            has = True
        out.append(has)
    return tuple(out)
