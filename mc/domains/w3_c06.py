"""Third-wave alphabets for C06 (pure data + a dictionary model; imports
nothing from pgradd).

Z  correlations WITHOUT a heat-capacity table (and, as a control, with a
   one-point table) x every placement of the declared range relative to the
   reference temperature - including ranges that do not contain T_ref, which
   only ThermochemRawData's constructor refuses.

HIST  a five-group library built with the GroupLibrary constructor, small
   supplements merged with GroupLibrary.Update() (range widened upwards with
   further table points, range widened downwards, a table given to a group
   that had none, a range given to a group that had none), and the histories
   [Estimate(m)] (Update(p) Estimate(m))* over them.  The expected state after
   a history is computed here from the descriptions alone: range = union of
   the declared ranges of the pieces of a group, estimate range = intersection
   over the groups of the mapping.
"""
import itertools
import math

# ------------------------------------------------------------------ Z

Z_CLASSES = ['Incomplete', 'Group']
Z_DATA = [('HS', -12.5, 31.25), ('H', -12.5, None), ('S', None, 31.25)]
Z_TREFS = [298.15, 298.0]
Z_CP = ['none', 'one-point']


def z_ranges(Tref):
    up, dn = math.nextafter(Tref, math.inf), math.nextafter(Tref, -math.inf)
    return [('none', None),
            ('contains', (Tref - 50.0, Tref + 1200.0)),
            ('lo-at-Tref', (Tref, Tref + 1200.0)),
            ('hi-at-Tref', (Tref - 100.0, Tref)),
            ('point', (Tref, Tref)),
            ('above-by-ulp', (up, Tref + 1200.0)),
            ('above', (Tref + 2.0, Tref + 1200.0)),
            ('below-by-ulp', (Tref - 100.0, dn)),
            ('below', (Tref - 100.0, Tref - 2.0))]


def z_table(cp, Tref, rng):
    """The one-point table lies inside the declared range (its midpoint); with
    no declared range the table span is the range, so the point is T_ref."""
    if cp == 'none':
        return {}
    T = Tref if rng is None else 0.5 * (rng[0] + rng[1])
    return {T: 2.5}


def z_tref_inside(Tref, rng):
    return rng is None or rng[0] <= Tref <= rng[1]


# ------------------------------------------------------------------ HIST

H_TREF = 298.15
BASE = {
    # declared range reaches beyond the table on both sides
    'W': dict(H=-10.0, S=5.0, rng=(250.0, 1500.0),
              cp={300.0: 1.0, 400.0: 1.5, 500.0: 1.8, 600.0: 2.0, 800.0: 2.2,
                  1000.0: 2.3}),
    # narrow
    'N': dict(H=-3.5, S=-6.25, rng=(290.0, 900.0),
              cp={300.0: 2.25, 400.0: 3.0, 500.0: 3.5, 600.0: 4.0}),
    # one-point table
    'P': dict(H=-8.25, S=4.75, rng=(200.0, 1200.0), cp={300.0: 2.75}),
    # no heat-capacity data, with a range
    'H': dict(H=-17.5, S=15.25, rng=(250.0, 1000.0), cp={}),
    # no heat-capacity data, no range
    'U': dict(H=-30.25, S=2.5, rng=None, cp={}),
}
GROUPS = ['W', 'N', 'P', 'H', 'U']
_NOMINAL = (250.0, 1000.0)        # range the pieces of 'U' start from
NEW_TABLE = {300.0: 2.0, 500.0: 3.0, 800.0: 3.5}


def pieces_for(g):
    return ['hi', 'lo'] + ([] if BASE[g]['cp'] else ['cp'])


def piece(g, p):
    """-> dict(cp=..., rng=...) : a supplement without reference values."""
    b = BASE[g]
    lo, hi = b['rng'] if b['rng'] is not None else _NOMINAL
    if p == 'hi':
        cp = {}
        if b['cp']:
            tmax = max(b['cp'])
            last = b['cp'][tmax]
            cp = {tmax + 200.0: last + 0.1, tmax + 400.0: last + 0.15}
        return dict(cp=cp, rng=(lo, hi + 400.0))
    if p == 'lo':
        return dict(cp={}, rng=(lo - 100.0, hi))
    if p == 'cp':
        return dict(cp=dict(NEW_TABLE), rng=(lo, hi))
    raise KeyError(p)


MAPPINGS = ([[(g, 1)] for g in GROUPS] +
            [[(a, 1), (b, 2)] for a, b in itertools.permutations(GROUPS, 2)])
MAXLEN = {'quick': 2, 'thorough': 3}


def sequences(mapping, maxlen):
    """All ordered selections without repetition, length 0..maxlen, of the
    pieces applicable to the groups of the mapping."""
    pool = [(g, p) for g, _ in mapping for p in pieces_for(g)]
    for n in range(0, maxlen + 1):
        for s in itertools.permutations(pool, n):
            yield list(s)


def histories(mapping, maxlen):
    """(pre, seq): pre = an Estimate of the mapping is requested before the
    first Update as well."""
    for seq in sequences(mapping, maxlen):
        yield True, seq
        if seq:
            yield False, seq


def model_group(g, applied):
    """State of group g after the pieces `applied` (list of piece names)."""
    b = BASE[g]
    cp = dict(b['cp'])
    rs = [b['rng']] if b['rng'] is not None else []
    for p in applied:
        q = piece(g, p)
        cp.update(q['cp'])
        rs.append(q['rng'])
    rng = None if not rs else (min(r[0] for r in rs), max(r[1] for r in rs))
    return dict(H=b['H'], S=b['S'], cp=cp, rng=rng)


def model_range(states):
    rs = [s['rng'] for s in states if s['rng'] is not None]
    if not rs:
        return None
    return (max(r[0] for r in rs), min(r[1] for r in rs))
