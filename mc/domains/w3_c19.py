"""Third-wave domains for C19 (nothing here imports pgradd).

1. STR_KINDS - the kinds of "plain string" a canonical name may be held as:
   exact `str`, a subclass of `str` (what table / YAML front ends hand out) and
   `numpy.str_` (what comes out of a numpy array of names).

2. Calls that are expected to FAIL (or that the statement is silent about),
   used as the first half of a (failed call, ordinary call) history:
   constructor calls whose peripheral list holds exactly one bad element at any
   position, constructor calls whose centre is not a string, and
   Group.parse() of one-character edits of canonical names.  Calls are plain
   JSON-able descriptors so that a witness can carry the whole history.
"""
import itertools

import numpy


class Label(str):
    """A tagged string: an ordinary subclass of str, nothing overridden."""
    __slots__ = ()


STR_KINDS = [('str', str), ('str-subclass', Label), ('numpy.str_', numpy.str_)]
EXTRA_STR_KINDS = STR_KINDS[1:]

# ------------------------------------------------------------ failing calls

BAD_TOKENS = ['<list>', '<None>', '<int>', '<dict>', '<raise>']
BAD_CENTRES = ['<None>', '<int>', '<list>']
FAIL_PERIPH = ['C', 'H', 'C[d]', 'Pt']
FAIL_CENTRES = ['C', 'N[A]']
FAIL_GOOD_MAX = 2           # good names next to the one bad element
MALFORMED_BASES = ['C(C)(H)3', 'CO(C[d])(O)', 'N[A](H)2(Pt)']
MALFORMED_CHARS = ['', '(', ')', '2', 'x', ' ']


class SourceBroke(RuntimeError):
    pass


def _value(tok):
    if tok == '<list>':
        return ['C', 'H']
    if tok == '<None>':
        return None
    if tok == '<int>':
        return 1
    if tok == '<dict>':
        return {}
    return tok


def build_psgs(tokens):
    """The peripheral argument denoted by a token list.  '<raise>' makes it a
    generator that breaks at that position; otherwise a list."""
    if '<raise>' in tokens:
        def gen():
            for t in tokens:
                if t == '<raise>':
                    raise SourceBroke('source of peripherals broke')
                yield _value(t)
        return gen()
    return [_value(t) for t in tokens]


def build_centre(tok):
    return _value(tok)


def malformed_texts():
    """One-character insertions / substitutions / deletions (the family the
    'malformed' shard records), in enumeration order, with repeats."""
    for name in MALFORMED_BASES:
        for i in range(len(name) + 1):
            for ch in MALFORMED_CHARS:
                for text in (name[:i] + ch + name[i:],
                             name[:i] + ch + name[i + 1:]):
                    yield text


def failing_calls():
    """Every call of the bounded 'expected to fail' family, simplest first."""
    out = []
    for centre in FAIL_CENTRES:
        for k in range(FAIL_GOOD_MAX + 1):
            for good in itertools.product(FAIL_PERIPH, repeat=k):
                for pos in range(k + 1):
                    for bad in BAD_TOKENS:
                        toks = list(good[:pos]) + [bad] + list(good[pos:])
                        out.append(dict(via='ctor', centre=centre, psgs=toks))
    for centre in BAD_CENTRES:
        for k in range(FAIL_GOOD_MAX + 1):
            for good in itertools.product(FAIL_PERIPH, repeat=k):
                out.append(dict(via='ctor', centre=centre, psgs=list(good)))
    seen = set(MALFORMED_BASES)
    for text in malformed_texts():
        if text not in seen:
            seen.add(text)
            out.append(dict(via='parse', text=text))
    return out


def perform(G, call):
    """Execute one such call; returns 'raised:<Type>' or 'accepted'.  Nothing
    is judged here (the statement is silent about malformed input)."""
    try:
        if call['via'] == 'ctor':
            G(None, build_centre(call['centre']), build_psgs(call['psgs']))
        else:
            G.parse(None, call['text'])
    except Exception as e:      # noqa
        return 'raised:' + type(e).__name__
    return 'accepted'
