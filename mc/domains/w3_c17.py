"""Third-wave domains for C17 (network generation).

Two families, both enumerated exhaustively by props/c17.py:

HETERO - the valence filter on every main-group element of periods 2-5 that
  forms a covalent bond to carbon.  For each element X: the seeds methyl-X,
  methylene=X (where X can carry a double bond) and the radical .CH2-X, and the
  rule pool {C-H scission, X-H scission, C-X scission, C-X -> C=X, C=X -> C#X}.
  The two order-raising rules do not remove a hydrogen, so they push X (or C)
  above its default valence unless an earlier scission made room: whether the
  product survives is decided by the stated filter (default valence of the
  element) alone.  Elements with more than one tabulated valence (P, S, As,
  Se, I) are the ones on which "default" and "any allowed" valence differ.
  The order-raising rules exist as reaction SMARTS only: the RING reader
  refuses a rule that is not electron-balanced on every labelled atom, and a
  balanced rule cannot lift an atom above its default valence (radicals are
  re-derived from the valence after every step).

CHAIN3 - rules whose pattern is a chain of three heavy atoms a0-a1-a2 over
  {C, O} and whose edit breaks ONE of its two bonds.  When a0 and a2 have the
  same type the pattern is mirror-symmetric while the edit is not: a molecule
  is then matched by two labellings of the same atom set that give different
  products, and the closure needs both.  Seeds are chains/branches of 3-4
  heavy atoms, symmetric and unsymmetric.

Rule entries have the shape used by c17.POOL:
  name -> (reaction SMARTS, RING pattern atoms, RING edit sequence)
"""
import itertools

# symbol, methyl-X, methylene=X (None: X cannot carry a double bond), .CH2-X
HETERO = [
    ('B',  'CB',       'C=B',       '[CH2]B'),
    ('N',  'CN',       'C=N',       '[CH2]N'),
    ('O',  'CO',       'C=O',       '[CH2]O'),
    ('F',  'CF',       None,        '[CH2]F'),
    ('Si', 'C[SiH3]',  'C=[SiH2]',  '[CH2][SiH3]'),
    ('P',  'CP',       'C=P',       '[CH2]P'),
    ('S',  'CS',       'C=S',       '[CH2]S'),
    ('Cl', 'CCl',      None,        '[CH2]Cl'),
    ('As', 'C[AsH2]',  'C=[AsH]',   '[CH2][AsH2]'),
    ('Se', 'C[SeH]',   'C=[Se]',    '[CH2][SeH]'),
    ('Br', 'CBr',      None,        '[CH2]Br'),
    ('I',  'CI',       None,        '[CH2]I'),
]

SCISSION = [('radinc', 0), ('radinc', 1), ('break', 0, 1, None)]


def hetero_seeds(x):
    for sym, a, b, c in HETERO:
        if sym == x:
            return [s for s in (a, b, c) if s is not None]
    raise KeyError(x)


def hetero_pool(x):
    """The five rules of element x, by name."""
    return {
        'CH': ('[C:1][H:2]>>[C:1].[H:2]',
               [('C?', None), ('H', ('single', 0))], SCISSION),
        x + ':XH': ('[%s:1][H:2]>>[%s:1].[H:2]' % (x, x),
                    [(x + '?', None), ('H', ('single', 0))], SCISSION),
        x + ':CX': ('[C:1]-[%s:2]>>[C:1].[%s:2]' % (x, x),
                    [('C?', None), (x + '?', ('single', 0))], SCISSION),
        x + ':UP1': ('[C:1]-[%s:2]>>[C:1]=[%s:2]' % (x, x),
                     None, None),
        x + ':UP2': ('[C:1]=[%s:2]>>[C:1]#[%s:2]' % (x, x),
                     None, None),
    }


CHAIN_ATOMS = ('C', 'O')
CHAIN_SEEDS = ['CCC', 'CCO', 'COC', 'OCO', 'CCCC', 'CCCO', 'CCOC', 'COCO',
               'CC(C)C', 'CC(C)O', 'CC(O)O', 'OCCO']


def chain_pool():
    """16 rules: a0-a1-a2 over {C,O}^3 x broken bond in {(0,1), (1,2)}."""
    out = {}
    for t in itertools.product(CHAIN_ATOMS, repeat=3):
        for (i, j) in ((0, 1), (1, 2)):
            lhs = '[%s:1]-[%s:2]-[%s:3]' % t
            parts = ['[%s:%d]' % (t[k], k + 1) for k in range(3)]
            rhs = (parts[0] + '.' + parts[1] + '-' + parts[2]) if (i, j) == (0, 1) \
                else (parts[0] + '-' + parts[1] + '.' + parts[2])
            atoms = [(t[0] + '?', None), (t[1] + '?', ('single', 0)),
                     (t[2] + '?', ('single', 1))]
            seq = [('radinc', i), ('radinc', j), ('break', i, j, None)]
            out['%s%s%s/%d%d' % (t + (i, j))] = (lhs + '>>' + rhs, atoms, seq)
    return out


def all_rules():
    out = {}
    for sym, _, _, _ in HETERO:
        for k, v in hetero_pool(sym).items():
            if k != 'CH':
                out[k] = v
    out.update(chain_pool())
    return out
