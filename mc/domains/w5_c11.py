"""Fifth-wave domains for C11 (imports nothing from pgradd).

1. POWER LADDERS.  "Powers combine dimensions by scaling exponents": a chain
   of powers whose exponents multiply out to an integer must give that
   integer dimension, whatever inexact binary fractions stand in between.
   The earlier waves raised to an INTEGER power only quantities whose
   exponents were exact (integers, or the binary fractions of the lattice),
   and applied inexact fractional powers only with a FLOAT exponent behind
   them.  Here every chain is

       t = stage(q)        q = mag * <one of the 14 named shapes>
       r = t ** k          k an integer, presented as int / -int / float ...

   stage alphabet (exact rational factor f by which stage scales q's
   exponents, in brackets):
       ('root', n)     q ** (1.0/n)                 n = 2..NROOT      [1/n]
       ('prod', a, b)  (q ** (a/10)) * (q ** (b/10))  a, b = 1..9   [(a+b)/10]
       ('quot', a, b)  (q ** (a/10)) / (q ** (b/10))  a != b        [(a-b)/10]
   k alphabet: EVERY k in 1..2n (root) / 1..KTEN (prod, quot) for which
   f * k * e is an integer for every exponent e of the shape (the chain lands
   on an integer dimension; all-zero cannot happen because f != 0).  Chains
   landing on a fractional dimension are NOT enumerated: the implementation
   documents snapping for near-integers only and the statement does not say
   how close two fractional exponents must be to count as one dimension
   (DESIGN 10.10, last paragraph).
   The reference works with Fractions for the dimension and Python floats
   for the magnitude.

2. UNIT NAMES.  The earlier waves spelled every operand in a coherent SI unit
   (factor 1).  Here operands are spelled in EVERY name of the units table of
   the reference model (mc/models/unitsref.py, written from the SI / customary
   definitions: 36 names, 15 dimensions), and in every SI-prefixed spelling of
   those names (20 prefixes).  The reference resolves a spelling as the
   documented rule says: the unit's own name first, then a one-letter prefix,
   then 'da' (so 'ft' is the foot, not the femto-tonne; 'min' the minute, not
   the milli-inch).  Spellings that coincide with an own name are listed once.
   Magnitudes are chosen so that the SI magnitudes of the two operands are
   1.5 and 3.0 (never nearly equal across two different names: the
   definitions agree with the implementation's to ~1e-7 only, see
   ASSUMPTIONS of the check).
"""
from fractions import Fraction as Fr

from ..models import unitsref

# ------------------------------------------------------------ power ladders

NROOT = {'quick': 50, 'thorough': 128}
KTEN = {'quick': 10, 'thorough': 40}
TENTHS = tuple(range(1, 10))
STAGE_KINDS = ('root', 'prod', 'quot')
# presentation of the integer exponent k
KPRES = {'quick': ('int', '-int', 'float'),
         'thorough': ('int', '-int', 'float', '-float', 'np.int64',
                      'np.float64')}
LADDER_MAG = 1.5
LADDER_FORMS = {'quick': ('scalar',), 'thorough': ('scalar', 'array')}
# order of (ladder result r, ordinary partner p) under the binary operators
LADDER_ORDERS = {'quick': ('rp',), 'thorough': ('rp', 'pr')}
BASE_NAMES = ('m', 'kg', 's', 'A', 'K', 'mol', 'cd')


def stages(tier, kind):
    if kind == 'root':
        return [('root', n) for n in range(2, NROOT[tier] + 1)]
    if kind == 'prod':
        return [('prod', a, b) for a in TENTHS for b in TENTHS]
    return [('quot', a, b) for a in TENTHS for b in TENTHS if a != b]


def stage_factor(stage):
    if stage[0] == 'root':
        return Fr(1, stage[1])
    if stage[0] == 'prod':
        return Fr(stage[1] + stage[2], 10)
    return Fr(stage[1] - stage[2], 10)


def stage_kmax(tier, stage):
    return 2 * stage[1] if stage[0] == 'root' else KTEN[tier]


def landing(exps, stage, k):
    """exact exponents of (stage(q)) ** k, or None if one is not an integer"""
    f = stage_factor(stage)
    out = [Fr(e).limit_denominator(1000) * f * k for e in exps]
    if any(x.denominator != 1 for x in out):
        return None
    return tuple(int(x) for x in out)


def ladder_ks(tier, exps, stage):
    return [k for k in range(1, stage_kmax(tier, stage) + 1)
            if landing(exps, stage, k) is not None]


def stage_value(mag, stage):
    """float magnitude of stage(q), the same float operations on the number"""
    if stage[0] == 'root':
        return mag ** (1.0 / stage[1])
    x, y = mag ** (stage[1] / 10.0), mag ** (stage[2] / 10.0)
    return x * y if stage[0] == 'prod' else x / y


def kvalue(k, pres):
    """the exponent object handed to ** and its sign"""
    if pres == 'int':
        return int(k), 1
    if pres == '-int':
        return -int(k), -1
    if pres == 'float':
        return float(k), 1
    if pres == '-float':
        return -float(k), -1
    import numpy as np
    if pres == 'np.int64':
        return np.int64(k), 1
    if pres == 'np.float64':
        return np.float64(k), 1
    raise ValueError(pres)


def dim_text(exps):
    """unit text of an integer dimension, e.g. (2, 1, -2, ...) -> 'm^2 kg s^-2'"""
    parts = []
    for b, e in zip(BASE_NAMES, exps):
        if e == 0:
            continue
        parts.append(b if e == 1 else '%s^%d' % (b, e))
    return ' '.join(parts)


def other_dim(exps):
    """an integer dimension different from exps and from the null dimension"""
    o = list(exps)
    o[0] += 1
    if not any(o):
        o[0] += 1
    return tuple(o)


def ladder_count(tier, shape_exps):
    """(chains, with presentations and forms) over the given shapes"""
    n = 0
    for exps in shape_exps:
        for kind in STAGE_KINDS:
            for st in stages(tier, kind):
                n += len(ladder_ks(tier, exps, st))
    return n, n * len(KPRES[tier]) * len(LADDER_FORMS[tier])


# -------------------------------------------------------------- unit names

NAMES = sorted(unitsref.TABLE)
PREFIXES = sorted(unitsref.PREFIX)
NAME_SI = (1.5, 3.0)
NAME_FORMS = ('scalar', 'array')
# relative tolerance on magnitudes in this family (as in C10): the CODATA
# vintage of eV, u and molecule differs by < 2e-7 between the reference
# table and the implementation; a wrong prefix or definition is off by more
NAME_RTOL = 1e-6


def spelled():
    """bare names, then prefix+name for every prefix and name, a spelling
    that is itself an own name ('ft', 'min') listed once (as the own name)"""
    out = list(NAMES)
    seen = set(out)
    for p in PREFIXES:
        for n in NAMES:
            s = p + n
            if s not in seen:
                seen.add(s)
                out.append(s)
    return out


def name_ref(spelling):
    """-> (SI factor, exponent 7-tuple of floats) by the documented rule"""
    f, e = unitsref.lookup(spelling)
    return float(f), tuple(float(x) for x in e)


def name_pairs_si(na, nb):
    """SI magnitude pairs used for the ordered pair of names: unequal both
    ways; equal only where equality is exact (one name) or irrelevant
    (different dimensions)."""
    out = [(1.5, 3.0), (3.0, 1.5)]
    if na == nb or name_ref(na)[1] != name_ref(nb)[1]:
        out.append((3.0, 3.0))
    return out


def names_count():
    n = 0
    for a in NAMES:
        for b in NAMES:
            n += len(name_pairs_si(a, b))
    return n
