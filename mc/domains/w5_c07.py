"""Fifth-wave alphabets for C07: the ends of the temperature axis.

The property quantifies over "all temperatures in range".  The grid used so
far (range ends, midpoint, reference temperature; 298.15 / 500 / 1000 K for an
object without a range) never leaves 100 ... 1500 K, although an object without
a range - and one whose range starts at 0 K - is in range at 0 K, next to it
and far above.  Three families of *inputs*:

 1. boundary temperatures: 0, -0.0, tiny, small, 1, large, huge - each as a
    Python float and in every other presentation of one number (numpy scalar,
    0-d / 1-element array, Python / numpy int where the value is integral),
    and all of them together as one array;
 2. a synthetic library whose groups are valid at 0 K (range starting at 0 K,
    no range at all, reference temperature 0 K, with and without heat capacity
    data) - the YAML loading path, estimates through ThermochemGroupAdditive;
 3. correlations made by the constructor (no library, no YAML): the whole
    product of a small alphabet per constructor argument.

Nothing here computes an expected value; `zero_library` and `build` only
obtain the objects under test.
"""
import itertools
import math

# ------------------------------------------------- boundary temperatures
# value alphabet for "a temperature": exact zero in both signs, the smallest
# magnitudes for which T*R and (H/RT)*T*R are still normal numbers in every
# unit of the table (so that the order of the multiplications cannot matter
# at 1e-12), one, and the large end (1e300*R*|H/RT| stays finite for
# |H/RT| < 1e4).
BOUNDARY_T = [('zero', 0.0), ('minus-zero', -0.0), ('tiny', 1e-300),
              ('micro', 1e-6), ('one', 1.0), ('mega', 1e6), ('huge', 1e300)]


def in_range(t, rng):
    """Is temperature t inside the declared range (None = no restriction)?"""
    if rng is None:
        return True
    return float(rng[0]) <= t <= float(rng[1])


def boundary_cases(rng, units_all, units_few, extra=()):
    """Every presentation of every boundary temperature that lies inside
    `rng` -> [(label, T, unit strings)].

      * as a Python float: all unit strings (`units_all`);
      * as numpy float64, 0-d array, 1-element array: `units_few`;
      * integral values up to 1e6 also as Python int and numpy int64;
      * all in-range boundary values as ONE float array (ascending), and the
        integral ones as one integer-dtype array.

    `extra`: further Python-float temperatures (the object's own grid) that
    are evaluated on all unit strings as well (used for the objects of this
    module, which no other family visits)."""
    import numpy as np
    inside = [(l, t) for l, t in BOUNDARY_T if in_range(t, rng)]
    out = []
    for t in extra:
        out.append(('grid float %r' % t, float(t), units_all))
    for l, t in inside:
        out.append(('%s as float' % l, t, units_all))
    for l, t in inside:
        out.append(('%s as np.float64' % l, np.float64(t), units_few))
        out.append(('%s as 0-d array' % l, np.array(t), units_few))
        out.append(('%s as 1-element array' % l, np.array([t]), units_few))
        if float(t).is_integer() and abs(t) <= 1e6 and math.copysign(1.0, t) > 0:
            out.append(('%s as int' % l, int(t), units_few))
            out.append(('%s as np.int64' % l, np.int64(int(t)), units_few))
    if len(inside) > 1:
        vals = sorted(set(t for _, t in inside))
        out.append(('boundary values as one array', np.array(vals, dtype=float),
                    units_few))
        ints = sorted(set(int(t) for t in vals
                          if float(t).is_integer() and abs(t) <= 1e6))
        if len(ints) > 1:
            out.append(('integral boundary values as one integer array',
                        np.array(ints, dtype=int), units_few))
    return out


def own_grid(rng, t_ref):
    """Python-float grid of an object of this module: range ends, midpoint
    and the reference temperature when inside; 298.15 / 500 / 1000 K and the
    reference temperature for an object without a range."""
    if rng is None:
        ts = {298.15, 500.0, 1000.0, float(t_ref)}
    else:
        lo, hi = float(rng[0]), float(rng[1])
        ts = {lo, hi, 0.5 * (lo + hi)}
        if lo <= float(t_ref) <= hi:
            ts.add(float(t_ref))
    # the boundary alphabet contributes its own members
    return sorted(ts - set(t for _, t in BOUNDARY_T))


# ------------------------------------------------- a library valid at 0 K
ZERO_LIB = """
groups:
  'C(H)4':            # H + S, no heat capacity data, no range
    thermochem: {T_ref: 298.15 K, ND_H_ref: -30.25, ND_S_ref: 22.5}
  'C(C)(H)3':         # H + S, no heat capacity data, range starts at 0 K
    thermochem: {T_ref: 298.15 K, ND_H_ref: -17.5, ND_S_ref: 15.25, range: [0 K, 1000 K]}
  'C(C)2(H)2':        # reference temperature 0 K, no heat capacity data, no range
    thermochem: {T_ref: 0 K, ND_H_ref: -8.25, ND_S_ref: 4.75}
  'C(C)3(H)':         # reference temperature 0 K, range is the single point 0 K
    thermochem: {T_ref: 0 K, ND_H_ref: -3.5, ND_S_ref: -6.25, range: [0 K, 0 K]}
  'C(C)4':            # heat capacity data, range starts at 0 K
    thermochem: {T_ref: 298.15 K, ND_H_ref: 12.5, ND_S_ref: -17.75,
                 ND_Cp_data: [[100 K, 2.25], [300 K, 3.0], [500 K, 3.5]],
                 range: [0 K, 600 K]}
  'O(C)(H)':          # heat capacity datum AT 0 K
    thermochem: {T_ref: 298.15 K, ND_H_ref: -2.5, ND_S_ref: 1.5,
                 ND_Cp_data: [[0 K, 0.5], [400 K, 2.5]], range: [0 K, 800 K]}
  'O(C)2':            # H only, no range
    thermochem: {T_ref: 298.15 K, ND_H_ref: 6.75}
  'C(H)3(O)':         # S only, range starts at 0 K
    thermochem: {T_ref: 298.15 K, ND_S_ref: 9.5, range: [0 K, 500 K]}
"""


def zero_library():
    """Load ZERO_LIB (with the scheme of the synthetic library of
    domains.estimates) through GroupLibrary.Load from a scratch directory."""
    import os
    import shutil
    import tempfile
    import pgradd.ThermoChem   # noqa: registers the 'thermochem' property set
    from pgradd.GroupAdd.Library import GroupLibrary
    from . import estimates as E
    d = tempfile.mkdtemp(prefix='pgv_c07z_')
    try:
        with open(os.path.join(d, 'scheme.yaml'), 'w') as f:
            f.write(E.SCHEME)
        p = os.path.join(d, 'library.yaml')
        with open(p, 'w') as f:
            f.write(ZERO_LIB)
        return GroupLibrary.Load(p)
    finally:
        shutil.rmtree(d, ignore_errors=True)


def zero_mappings(lib):
    """Unit estimates (count 1 and 0.5) of every group and both orders of
    every pair of groups with counts (1, 1) and (2, -1): [(tag, mapping)]."""
    from . import estimates as E
    groups = E.with_data(lib)
    for g in groups:
        for c in (1, 0.5):
            yield 'unit', [(g, c)]
    for a, b in itertools.combinations(groups, 2):
        for ca, cb in ((1, 1), (2, -1)):
            yield 'pair', [(a, ca), (b, cb)]
            yield 'pair', [(b, cb), (a, ca)]


# ------------------------------------------------- constructor path
CTOR_CLASSES = ('ThermochemIncomplete', 'ThermochemGroup')
CTOR_H = (None, -10.0, 0.0)
CTOR_S = (None, 20.0)
CTOR_CP = ([], [[300.0, 2.5]], [[0.0, 1.0], [300.0, 2.5]])
CTOR_TREF = (298.15, 0.0)
CTOR_RANGE = (None, [0.0, 1000.0], [0.0, 0.0])


def ctor_specs():
    """The whole product of the constructor alphabets (a correlation with
    neither H nor S has nothing to evaluate and is left out)."""
    out = []
    for cls, h, s, cp, tref, rng in itertools.product(
            CTOR_CLASSES, CTOR_H, CTOR_S, CTOR_CP, CTOR_TREF, CTOR_RANGE):
        if h is None and s is None:
            continue
        out.append(dict(cls=cls, H=h, S=s, Cp=[list(x) for x in cp],
                        T_ref=tref, range=None if rng is None else list(rng)))
    return out


def build(spec):
    """Call the constructor described by `spec` (may raise: the constructor
    refuses data outside the declared range)."""
    import pgradd.ThermoChem as TC
    from pgradd.ThermoChem.group_data import ThermochemGroup
    cls = ThermochemGroup if spec['cls'] == 'ThermochemGroup' else TC.ThermochemIncomplete
    rng = None if spec['range'] is None else (spec['range'][0], spec['range'][1])
    return cls(ND_H_ref=spec['H'], ND_S_ref=spec['S'],
               ND_Cp_data=dict((float(t), float(v)) for t, v in spec['Cp']),
               T_ref=spec['T_ref'], range=rng)
