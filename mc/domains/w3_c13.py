"""Include trees for C13 (third wave): shapes, directory placements, holders.

Pure combinatorics; nothing here imports pgradd.

A library assembled from n files is an ORDERED ROOTED TREE of includes: node 0
is the top file (library.yaml), the children of a node are the files it
includes, in include order.  Trees are given as the parent list of their
depth-first (pre-order) numbering, e.g. (-1, 0, 1) is the chain
top -> a -> b and (-1, 0, 0) the flat top -> [a, b].

Every file except the top one is either stored NEXT TO the file that includes
it ('same') or in a SUBDIRECTORY of its own ('sub').  File names are local to
the directory, as in a real data tree (every sub-collection has its own
index.yaml, its own c0.yaml, ...), so the same relative include string occurs
in several directories and denotes a different file in each.
"""
import itertools
import posixpath


def _forests(n):
    """All ordered forests with n nodes, as tuples of trees; a tree is the
    tuple of its child trees."""
    if n == 0:
        yield ()
        return
    for first in range(1, n + 1):           # size of the first tree
        for sub in _forests(first - 1):     # its children
            for rest in _forests(n - first):
                yield (sub,) + rest


def trees(n):
    """All ordered rooted trees with exactly n nodes, as pre-order parent
    tuples.  Their number is the Catalan number C(n-1): 1, 1, 2, 5, 14."""
    out = []
    for kids in _forests(n - 1):
        parents = [-1]

        def walk(children, me):
            for c in children:
                parents.append(me)
                walk(c, len(parents) - 1)
        walk(kids, 0)
        out.append(tuple(parents))
    return sorted(out)


def children(parents):
    ch = [[] for _ in parents]
    for v, p in enumerate(parents):
        if p >= 0:
            ch[p].append(v)
    return ch


def depth(parents):
    d = [0] * len(parents)
    for v, p in enumerate(parents):
        if p >= 0:
            d[v] = d[p] + 1
    return max(d)


def placements(n):
    """All ways to store the n-1 included files: 'same' directory as the
    including file, or an own 'sub'directory.  Index 0 (the top file) is
    always None."""
    for flags in itertools.product(('same', 'sub'), repeat=n - 1):
        yield (None,) + flags


def place(parents, placement):
    """-> (paths, includes): paths[v] is the file of node v relative to the
    directory of the top file, includes[v] the string by which its parent
    refers to it (relative to the parent's directory, as the loader resolves
    it).

    Naming: a directory is owned by one file (library.yaml at the top,
    index.yaml in every subdirectory).  A node reached from the owner through
    children number i, j, ... that all stay in the directory is called
    c<i>_c<j>....yaml; if it moves to a subdirectory, that is c<i>_c<j>....d and
    the node becomes its index.yaml.
    """
    n = len(parents)
    ch = children(parents)
    dirs, local, paths, includes = [''] * n, [''] * n, [''] * n, [None] * n
    paths[0] = 'library.yaml'
    for v in range(1, n):
        p = parents[v]
        lid = (local[p] + '_' if local[p] else '') + 'c%d' % ch[p].index(v)
        if placement[v] == 'sub':
            dirs[v] = posixpath.join(dirs[p], lid + '.d')
            local[v] = ''
            paths[v] = posixpath.join(dirs[v], 'index.yaml')
            includes[v] = lid + '.d/index.yaml'
        else:
            dirs[v] = dirs[p]
            local[v] = lid
            paths[v] = posixpath.join(dirs[v], lid + '.yaml')
            includes[v] = lid + '.yaml'
    assert len(set(paths)) == n and 'scheme.yaml' not in paths
    return paths, includes


def holder_assignments(n, k):
    """All injective maps of k data blocks to the n files: tuple h with
    h[j] = node holding block j.  n!/(n-k)! of them."""
    return list(itertools.permutations(range(n), k))


def same_include_string_elsewhere(parents, placement):
    """True when one relative include string is used for two different
    files (only possible with subdirectories)."""
    paths, includes = place(parents, placement)
    seen = {}
    for v in range(1, len(parents)):
        if seen.setdefault(includes[v], paths[v]) != paths[v]:
            return True
    return False
