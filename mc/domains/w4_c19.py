"""Fourth-wave domains for C19 (nothing here imports pgradd).

1. Letter case.  Names that differ ONLY in letter case are different names
   ('CO' carbonyl, 'Co' cobalt): every letter-case variant of the names C, CO
   and H as peripherals, and of C and CO as centres.

2. Results that the caller edits.  `Group.psgs` / `Group.csg` are public; the
   first half of a (build, edit the result, build again) history is a
   construction of a small identity by one of four routes followed by one edit
   of the object it returned.  Calls are plain JSON-able descriptors so that a
   witness can carry the whole history.

3. Library histories.  A universe of 20 identities with fixed roles (held by
   library A, by B1, by B2, by nobody; B3 holds one of A's identities with a
   different datum), an alphabet of 12 operations on ONE library object
   (look-ups by object / by name of a member of A, of B1, of nobody; `in`;
   iteration; Update(B1), Update(B2), Update(B3), Update(B3, overwrite)) and a
   dictionary model of what the library must hold after a sequence of them.
"""
import itertools

# ------------------------------------------------------------ 1. letter case


def case_variants(name):
    """Every letter-case variant of `name`, upper-case-first order."""
    opts = [(ch.upper(), ch.lower()) if ch.isalpha() else (ch,)
            for ch in name]
    return [''.join(t) for t in itertools.product(*opts)]


CASE_PERIPH = [v for n in ('C', 'CO', 'H') for v in case_variants(n)]
CASE_CENTRES = [v for n in ('C', 'CO') for v in case_variants(n) if v != 'cO'
                and v != 'co']           # C, c, CO, Co
KCASE = {'quick': 3, 'thorough': 4}      # spellings family
CASE_PAIRMAX = 2                         # 'exactly when' family, library file


def case_idents(kmax):
    out = []
    for c in CASE_CENTRES:
        for k in range(kmax + 1):
            for ms in itertools.combinations_with_replacement(CASE_PERIPH, k):
                out.append((c, ms))
    return out


# ------------------------------------------------- 2. build, edit, build again

MUT_PERIPH = ['C', 'H']
MUT_CENTRES = ['C', 'N[A]']
MUT_K = 2
MUT_ROUTES = ['ctor', 'parse-canonical', 'parse-descending', 'parse-twice']
MUT_NEW = 'Pt'
MUT_OPS = ['append', 'insert-front', 'pop-last', 'pop-first', 'clear',
           'reverse', 'sort', 'replace-first', 'extend', 'rebind']


def _canonical_text(centre, ms):
    """Reference spelling: sorted names, a repeat count behind a repeated
    name (written here from the documented syntax, not by asking pgradd)."""
    out = centre
    for name, grp in itertools.groupby(sorted(ms)):
        n = len(list(grp))
        out += '(%s)' % name + ('%d' % n if n > 1 else '')
    return out


def descending_text(centre, ms):
    return centre + ''.join('(%s)' % p for p in sorted(ms, reverse=True))


def edit_calls():
    """Every (construction, edit of its result) of the bounded family."""
    out = []
    for centre in MUT_CENTRES:
        for k in range(MUT_K + 1):
            for ms in itertools.combinations_with_replacement(MUT_PERIPH, k):
                for route in MUT_ROUTES:
                    for op in MUT_OPS:
                        out.append(dict(via='build-edit', centre=centre,
                                        psgs=list(ms), route=route, op=op))
    return out


def _edit(g, op):
    p = g.psgs
    if op == 'append':
        p.append(MUT_NEW)
    elif op == 'insert-front':
        p.insert(0, MUT_NEW)
    elif op == 'pop-last':
        p.pop()
    elif op == 'pop-first':
        del p[0]
    elif op == 'clear':
        del p[:]
    elif op == 'reverse':
        p.reverse()
    elif op == 'sort':
        p.sort(reverse=True)
    elif op == 'replace-first':
        p[0] = MUT_NEW
    elif op == 'extend':
        p += [MUT_NEW, MUT_NEW]
    elif op == 'rebind':
        g.psgs = [MUT_NEW]
        g.csg = MUT_NEW
    else:
        raise ValueError(op)


def perform_edit(G, call):
    """Build a group, edit the object that came back.  Nothing is judged here:
    the statement says nothing about an edited object; what is built
    AFTERWARDS is judged.  Returns 'edited' / 'edit-changed-nothing' (e.g. a
    one-element list reversed) / 'edit-raised:<Type>' (an edit of an empty
    list) / 'build-raised:<Type>'."""
    centre, ms, route = call['centre'], list(call['psgs']), call['route']
    try:
        if route == 'ctor':
            g = G(None, centre, list(reversed(ms)))
        elif route == 'parse-canonical':
            g = G.parse(None, _canonical_text(centre, ms))
        elif route == 'parse-descending':
            g = G.parse(None, descending_text(centre, ms))
        else:
            G.parse(None, descending_text(centre, ms))
            g = G.parse(None, descending_text(centre, ms))
    except Exception as e:      # noqa
        return 'build-raised:' + type(e).__name__
    try:
        before = (g.csg, list(g.psgs))
        _edit(g, call['op'])
    except Exception as e:      # noqa
        return 'edit-raised:' + type(e).__name__
    return 'edited' if (g.csg, list(g.psgs)) != before else 'edit-changed-nothing'


# ------------------------------------------------------ 3. library histories

LH_PERIPH = ['C', 'H', 'CO']
LH_CENTRES = ['C', 'CO']
LH_K = 2
LH_ROLES = ['A', 'B1', 'A', 'B2', 'absent']
LH_LEN = {'quick': 3, 'thorough': 4}
LH_ROUTES = ['load', 'ctor']            # how the receiving library is made


def lh_universe():
    """[(n, centre, multiset, role, value)]"""
    out = []
    n = 0
    for c in LH_CENTRES:
        for k in range(LH_K + 1):
            for ms in itertools.combinations_with_replacement(LH_PERIPH, k):
                out.append((n, c, ms, LH_ROLES[n % len(LH_ROLES)], n + 0.5))
                n += 1
    return out


def lh_ident(c, ms):
    return (c, tuple(sorted(ms)))


def lh_member(role):
    """The member of `role` the probing operations ask for: the first one with
    two different peripherals."""
    for n, c, ms, r, val in lh_universe():
        if r == role and len(set(ms)) == 2:
            return c, ms
    raise LookupError(role)


def lh_sources():
    """{library name: [(centre, multiset, value)]}.  B3 holds the probed
    member of A with another datum and nothing else (so a refused Update has
    nothing it could have merged before it was refused)."""
    src = {'A': [], 'B1': [], 'B2': []}
    for n, c, ms, role, val in lh_universe():
        if role in src:
            src[role].append((c, ms, val))
    c, ms = lh_member('A')
    src['B3'] = [(c, ms, 1000.5)]
    return src


LH_OPS = ([['getitem', form, who] for form in ('object', 'name')
           for who in ('A', 'B1', 'absent')] +
          [['contains', 'name', 'B1'], ['iterate']] +
          [['update', 'B1'], ['update', 'B2'], ['update', 'B3'],
           ['update-overwrite', 'B3']])


def lh_histories(maxlen):
    """Every operation sequence of length <= maxlen, shortest first."""
    out = []
    for L in range(maxlen + 1):
        for seq in itertools.product(LH_OPS, repeat=L):
            out.append([list(op) for op in seq])
    return out


def lh_model(ops):
    """Dictionary model: identity -> datum after the operations.  Look-ups do
    not change anything; Update adds what is new and is refused as a whole
    when it brings a different datum for a held identity, unless told to
    overwrite."""
    src = lh_sources()
    model = dict((lh_ident(c, ms), val) for c, ms, val in src['A'])
    for op in ops:
        if op[0] in ('update', 'update-overwrite'):
            new = dict((lh_ident(c, ms), val) for c, ms, val in src[op[1]])
            clash = any(k in model and model[k] != v for k, v in new.items())
            if clash and op[0] == 'update':
                continue
            model.update(new)
    return model
