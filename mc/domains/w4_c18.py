"""Fourth-wave domains for C18 (used only by mc/props/c18.py).

The statement says "to the six significant digits written".  Up to the third
wave that was judged with a relative tolerance of 1e-5, i.e. up to TEN units
of the sixth digit for a number written 9.99999: a reference temperature that
comes back 0.002 K off (two units of the sixth digit of 298.152) or a value
that comes back 1.5e-6 off passed.  This module holds

* the sharper reading of "six significant digits" - the number read back may
  differ from the one that was formatted by at most HALF A UNIT of the sixth
  significant digit of the number as it is written in the chosen units (that
  is all one correct rounding to six digits can cost);
* the families that need it, each enumerated exhaustively within its bound:

  - temperatures: an alphabet of temperatures that need all six digits,
    clustered around the values a loader could take for granted (the schema
    default 298.15 K +- 1..6, 10 units of the sixth digit; 298, 300, 273.15,
    1000 K +- one unit), and five that need more than six (298.15 K +- 0.4,
    0.6 of a unit, and the float next to 298.15), placed in T_ref, in a
    tabulated temperature and in either end of the range;
  - ranges: every pair (lo, lo + w) for lo in a small alphabet and w from 0
    (a single temperature), through widths below, at and above one unit of
    the sixth digit of lo (the two ends are then WRITTEN as the same / as
    neighbouring six-digit numbers), to ordinary widths;
  - six-digit data: dimensional values that are exactly a six-digit number
    mantissa x 10**e in the units they are given in (as in a literature
    table), mantissas spread over the whole decade incl. its two edges, in
    every value slot, for every combination of enthalpy and entropy units,
    built by loading a file in those units and directly, written in the same
    units, read back.

Nothing here imports pgradd at module level and nothing computes an expected
value with it.  The gas constant and the unit factors below are this model's
own (they only decide which decimal digit of a written number is its sixth).
"""
import math

from . import w3_c18 as W3

R0 = 8.314472            # J/(mol K), the library's documented gas constant
H_FACTOR = {'kcal/mol': 4184.0, 'kJ/mol': 1000.0, 'J/mol': 1.0}
S_FACTOR = {'cal/(mol K)': 4.184, 'J/(mol K)': 1.0, 'kJ/(mol K)': 1000.0}
SLACK = 1.0 + 1e-9       # floating-point noise of unit conversions


# ---------------------------------------------------------------- sixth digit

def sixth_unit(x):
    """One unit of the sixth significant digit of x (0 for x == 0)."""
    x = abs(float(x))
    if x == 0.0 or x != x or x == float('inf'):
        return 0.0
    return 10.0 ** (math.floor(math.log10(x)) - 5)


def same_sixth(a, b):
    """b is what a correct six-digit rounding of a can read back as.
    Scaling by a power of ten (K, kK, mK, MK) does not change the verdict."""
    a, b = float(a), float(b)
    if a == b:
        return True
    return abs(a - b) <= 0.5 * sixth_unit(a) * SLACK


def is_six_digit(x):
    """x is exactly representable with six significant digits."""
    return float('%.6g' % x) == float(x)


def value_tol(v, scale):
    """Largest |v' - v| a correct six-digit rounding allows for the
    non-dimensional value v that is written as the number v * scale."""
    w = float(v) * scale
    if scale == 0.0:
        return 0.0
    return 0.5 * sixth_unit(w) / abs(scale) * SLACK


def scales(units, T_ref):
    """written number = non-dimensional value x scale, per kind of value."""
    h = H_FACTOR.get(units.get('molar enthalpy'))
    s = S_FACTOR.get(units.get('molar entropy'))
    c = S_FACTOR.get(units.get('molar heat capacity'))
    return (None if h is None else R0 * float(T_ref) / h,
            None if s is None else R0 / s,
            None if c is None else R0 / c)


def strict_problems(src, back, units):
    """The comparison of the statement with the half-a-unit reading of "six
    significant digits".  Only deviations are judged here; presence, table
    length and the exactness of the non-dimensional form are judged by the
    module's first comparison."""
    probs = []

    def temp(a, b, what):
        if not same_sixth(a, b):
            probs.append('%s sixth digit: %r -> %r (more than half a unit of the '
                         'sixth significant digit)' % (what, float(a), float(b)))
    Ta, Tb = float(src.T_ref), float(back.T_ref)
    temp(Ta, Tb, 'T_ref')
    ra, rb = src.get_range(), back.get_range()
    if ra is not None and rb is not None:
        temp(ra[0], rb[0], 'range')
        temp(ra[1], rb[1], 'range')
    hs, ss, cs = scales(units, Ta)

    def val(a, b, scale, what, extra=0.0):
        if a is None or b is None or scale is None:
            return
        a, b = float(a), float(b)
        if abs(a - b) > value_tol(a, scale) + extra * abs(a):
            probs.append('%s sixth digit: %r -> %r (written as %.9g: more than '
                         'half a unit of its sixth significant digit)'
                         % (what, a, b, a * scale))
    # the enthalpy is written multiplied by T_ref and divided by the T_ref
    # read back: when T_ref itself needs more than six digits its own
    # (separately judged) rounding is allowed on top
    val(src.ND_H_ref, back.ND_H_ref, hs, 'H_ref',
        0.0 if is_six_digit(Ta) else abs(Tb - Ta) / Ta * SLACK)
    val(src.ND_S_ref, back.ND_S_ref, ss, 'S_ref')
    a = sorted((float(k), v) for k, v in (src.ND_Cp_data or {}).items())
    b = sorted((float(k), v) for k, v in (back.ND_Cp_data or {}).items())
    if len(a) == len(b):
        for (ka, va), (kb, vb) in zip(a, b):
            temp(ka, kb, 'Cp temperature')
            val(va, vb, cs, 'Cp(%g)' % ka)
    return probs


# ---------------------------------------------------------------- temperatures

def _near(x, ks):
    u = sixth_unit(x)
    return [float('%.6g' % (x + k * u)) for k in ks]


# exactly six-digit numbers ...
TEMPS6 = sorted(set(
    _near(298.15, (-10, -6, -5, -4, -3, -2, -1, 0, 1, 2, 3, 4, 5, 6, 10)) +
    _near(298.0, (-1, 1)) + _near(300.0, (-1, 1)) + _near(273.15, (0, 1)) +
    _near(1000.0, (-1, 1)) + [999.999]))
# ... and ones that need more: 0.4 and 0.6 of a unit to either side of the
# default, and the float next to it (what a unit conversion can leave behind)
TEMPS7 = [298.1494, 298.1496, 298.1504, 298.1506, 298.15000000000003]
TEMPS = TEMPS6 + TEMPS7
assert all(is_six_digit(T) for T in TEMPS6) and not any(is_six_digit(T) for T in TEMPS7)
TEMP_SLOTS = ('T_ref', 'table', 'range-lo', 'range-hi')
TEMP_SHAPES = ('no-Cp', 'Cp')


def temp_case(T, slot, shape):
    """The correlation that carries the temperature T in one slot."""
    c = dict(tab={}, H=-12.5, S=3.75, rng=(150.0, 2500.0), tref=300.0)
    if shape == 'Cp':
        c['tab'] = {200.0: 1.5, 1200.0: 2.25}
    if slot == 'T_ref':
        c['tref'] = T
    elif slot == 'table':
        if shape != 'Cp':
            return None
        c['tab'] = dict(c['tab'])
        c['tab'][T] = 2.0
    elif slot == 'range-lo':
        c['rng'] = (T, 2500.0)
        c['tref'] = 1100.0
        if shape == 'Cp':
            c['tab'] = {1100.0: 1.5, 1200.0: 2.25}
    elif slot == 'range-hi':
        c['rng'] = (150.0, T)
        c['tref'] = 200.0
        if shape == 'Cp':
            c['tab'] = {200.0: 1.5, 250.0: 2.25}
    return c


def temp_cases():
    out = []
    for T in TEMPS:
        for slot in TEMP_SLOTS:
            for shape in TEMP_SHAPES:
                if temp_case(T, slot, shape) is not None:
                    out.append((T, slot, shape))
    return out


# the temperature families use the non-dimensional form and one dimensional
# form per temperature unit (K, kK, mK, MK): indices into W3.EXT_UNITS
TEMP_UNITS = [0, 1, 12, 19, 24]


# ---------------------------------------------------------------- ranges

RANGE_LOS = (200.0, 298.15, 300.0, 1000.0)
# widths in units of the sixth digit of lo; 0 = a single temperature
RANGE_WIDTHS = (0.0, 0.001, 0.1, 0.4, 0.6, 1.0, 2.0, 10.0, 1e5)
RANGE_SHAPES = ('no-Cp', 'Cp-inside', 'T_ref-inside')


def range_case(lo, w, shape):
    hi = lo if w == 0.0 else lo + w * sixth_unit(lo)
    c = dict(tab={}, H=-3.5, S=1.25, rng=(lo, hi), tref=298.15)
    if shape == 'T_ref-inside':
        c['tref'] = lo
    elif shape == 'Cp-inside':
        c['tref'] = lo
        # two tabulated temperatures that are WRITTEN as the same six-digit
        # number cannot come back as two points: the statement promises the
        # temperatures only "to the six significant digits written"
        one = '%.6g' % lo == '%.6g' % hi
        c['tab'] = {lo: 1.5} if one else {lo: 1.5, hi: 2.25}
    return c


def range_cases():
    return [(lo, w, shape) for lo in RANGE_LOS for w in RANGE_WIDTHS
            for shape in RANGE_SHAPES]


# ---------------------------------------------------------------- six-digit data

# six-digit mantissas over the whole decade, both edges included, and the
# three seven-digit ones whose rounding crosses / touches an edge
MANTISSAS6 = (1.0, 1.00001, 1.23457, 2.99792, 3.16228, 4.99999, 5.00001,
              7.65432, 8.76543, 9.87654, 9.99999, 9.999995, 1.000005, 9.999994)


def six_decades(tier):
    return (-1, 0, 1, 2) if tier == 'quick' else (-3, -2, -1, 0, 1, 2, 3, 4)


def six_values(tier):
    out = []
    for e in six_decades(tier):
        for m in MANTISSAS6:
            for sign in (1.0, -1.0):
                out.append(sign * float('%re%d' % (m, e)))
    return out


# every combination of enthalpy and entropy units (temperature in K):
# indices into W3.BASE_UNITS, which is ordered h x s x t
SIX_UNITS = [i for i, u in enumerate(W3.BASE_UNITS) if u and u['temperature'] == 'K']


def six_trefs(tier):
    return (298.15,) if tier == 'quick' else (298.15, 500.0)



def six_text(d, units, tref):
    """File body: the number d in every value slot, in the given units."""
    p = W3.positional
    h, s, t = units['molar enthalpy'], units['molar entropy'], units['temperature']
    return '\n'.join([
        'T_ref: %s %s' % (p(tref), t),
        'H_ref: %s %s' % (p(d), h),
        'S_ref: %s %s' % (p(d), s),
        'Cp_data:',
        '    - [%s %s, %s %s]' % (p(200.0), t, p(d), s),
        '    - [%s %s, %s %s]' % (p(400.0), t, p(3.9), s),
        '    - [%s %s, %s %s]' % (p(600.0), t, p(-d), s),
        'range: [%s %s, %s %s]' % (p(150.0), t, p(2000.0), t)])


def six_case(d, units, tref):
    """The same correlation in non-dimensional terms, by this model's own
    constants (for the directly built object)."""
    h = H_FACTOR[units['molar enthalpy']]
    s = S_FACTOR[units['molar entropy']]
    return dict(tab={200.0: d * s / R0, 400.0: 3.9 * s / R0, 600.0: -d * s / R0},
                H=d * h / (R0 * tref), S=d * s / R0, rng=(150.0, 2000.0), tref=tref)


def six_cases(tier):
    return [(d, ui, tref) for d in six_values(tier) for ui in SIX_UNITS
            for tref in six_trefs(tier)]
