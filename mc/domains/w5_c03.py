"""Fifth-wave family for C03: molecule OBJECTS in every state of preparation.
Nothing here imports pgradd; everything is built with RDKit (trusted base).

What the earlier space could not reach: every molecule object handed to
GetDescriptors had been made by Chem.MolFromSmiles (or was a renumbered /
hydrogen-added / Kekulised copy of such an object), i.e. it was fully
sanitised: rings perceived (symmetrised SSSR), conjugation and hybridisation
flags set, aromaticity perceived.  "A molecule object versus its SMILES" also
covers the objects callers really hold - the products of RWMol editing or of
RDKit reactions, parsed with sanitize=False, built atom by atom - which carry
the same chemical information (atoms, bonds, charges, hydrogen and radical
counts, double-bond labels) but none, or only some, of the DERIVED
information.  The decomposition has to derive what it needs itself.

An object state is the product of four independent axes (state(...) builds
one object; states(...) lists the labels in enumeration order):

* source - where atoms and bonds come from
    parse-canonical   Chem.MolFromSmiles(canonical SMILES, sanitize=False)
                      (aromatic rings arrive as aromatic atoms / bonds)
    parse-kekule      the same from the Kekule spelling (only where that text
                      differs from the canonical one, i.e. aromatic molecules)
    built             Chem.RWMol filled atom by atom and bond by bond from
                      the atom / bond table of the Kekule spelling (element,
                      charge, hydrogen count, radical count, isotope, bond
                      order, / and \\ bond direction)
    built-reversed    the same with the atoms added in reverse order
                      (thorough tier)
  followed in every case by what makes the object a usable molecule without
  deriving any ring / flag information: UpdatePropertyCache(strict=False),
  Chem.AssignRadicals (after a parse), and - for molecules with an E/Z label
  only - Chem.AssignStereochemistry(cleanIt=True, force=True), because the
  label is part of which molecule is meant.
* rings - the four states RDKit's ring information can be in
    none   never perceived            fast   Chem.FastFindRings
    sssr   Chem.GetSSSR               symm   Chem.GetSymmSSSR
* flags - derived per-atom / per-bond flags: every subset of
    {Chem.SetConjugation, Chem.SetHybridization}
  (quick tier: the empty and the full subset)
* hydrogens - implicit, or explicit atoms (Chem.AddHs applied last)

Every object is checked, before it is used, to denote the molecule: a
sanitised copy with hydrogens removed must have the molecule's canonical
isomeric SMILES (denotes()).
"""
import itertools

from rdkit import Chem, RDLogger

RDLogger.DisableLog('rdApp.*')

SOURCES = {'quick': ('parse-canonical', 'parse-kekule', 'built'),
           'thorough': ('parse-canonical', 'parse-kekule', 'built',
                        'built-reversed')}
RINGS = ('none', 'fast', 'sssr', 'symm')
FLAGS = {'quick': ('none', 'conj+hyb'),
         'thorough': ('none', 'conj', 'hyb', 'conj+hyb')}
HYDROGENS = ('implicit', 'explicit')


def kekule_text(m, kek, stereo):
    return Chem.MolToSmiles(m if stereo else kek, kekuleSmiles=True)


def labels(tier, aromatic_text_differs=True):
    """All state labels 'source|rings=..|flags=..|H=..' of a tier."""
    out = []
    for src, rg, fl, hs in itertools.product(SOURCES[tier], RINGS, FLAGS[tier],
                                             HYDROGENS):
        if src == 'parse-kekule' and not aromatic_text_differs:
            continue
        out.append('%s|rings=%s|flags=%s|H=%s' % (src, rg, fl, hs))
    return out


def _build(tab, reverse):
    """RWMol filled from the atom / bond table `tab` (an unsanitised parse of
    the Kekule spelling with its property cache updated and radicals
    assigned): nothing but what a caller building the molecule by hand
    supplies."""
    n = tab.GetNumAtoms()
    order = list(reversed(range(n))) if reverse else list(range(n))
    new = {}
    rw = Chem.RWMol()
    for old in order:
        a = tab.GetAtomWithIdx(old)
        b = Chem.Atom(a.GetAtomicNum())
        b.SetFormalCharge(a.GetFormalCharge())
        b.SetNumExplicitHs(a.GetTotalNumHs())
        b.SetNoImplicit(True)
        b.SetNumRadicalElectrons(a.GetNumRadicalElectrons())
        if a.GetIsotope():
            b.SetIsotope(a.GetIsotope())
        new[old] = rw.AddAtom(b)
    bonds = list(tab.GetBonds())
    if reverse:
        bonds.reverse()
    for bd in bonds:
        rw.AddBond(new[bd.GetBeginAtomIdx()], new[bd.GetEndAtomIdx()],
                   bd.GetBondType())
        # the / and \ marks of the spelling (direction begin -> end)
        rw.GetBondBetweenAtoms(new[bd.GetBeginAtomIdx()],
                               new[bd.GetEndAtomIdx()]).SetBondDir(bd.GetBondDir())
    return rw.GetMol()


def _parse(text):
    x = Chem.MolFromSmiles(text, sanitize=False)
    x.UpdatePropertyCache(strict=False)
    Chem.AssignRadicals(x)
    return x


def state(canon, kek_text, labelled, label):
    """The molecule object for one state label.  `canon`: canonical isomeric
    SMILES, `kek_text`: Kekule spelling, `labelled`: the molecule has an E/Z
    (or R/S) label."""
    src, rg, fl, hs = label.split('|')
    rg, fl, hs = rg.split('=')[1], fl.split('=')[1], hs.split('=')[1]
    if src == 'parse-canonical':
        x = _parse(canon)
    elif src == 'parse-kekule':
        x = _parse(kek_text)
    elif src in ('built', 'built-reversed'):
        x = _build(_parse(kek_text), src == 'built-reversed')
        x.UpdatePropertyCache(strict=False)
    else:
        raise ValueError(label)
    if labelled:
        Chem.AssignStereochemistry(x, cleanIt=True, force=True)
    if rg == 'fast':
        Chem.FastFindRings(x)
    elif rg == 'sssr':
        Chem.GetSSSR(x)
    elif rg == 'symm':
        Chem.GetSymmSSSR(x)
    elif rg != 'none':
        raise ValueError(label)
    if 'conj' in fl:
        Chem.SetConjugation(x)
    if 'hyb' in fl:
        Chem.SetHybridization(x)
    if hs == 'explicit':
        x = Chem.AddHs(x)
    return x


def denotes(x, canon):
    """Does the object, once sanitised the ordinary way, have the canonical
    isomeric SMILES `canon`?  (Works on a copy.)"""
    c = Chem.Mol(x)
    try:
        Chem.SanitizeMol(c)
        c = Chem.RemoveHs(c)
        return Chem.MolToSmiles(c) == canon
    except Exception:      # noqa
        return False


def rings_known(x):
    """Has the object's ring information been perceived?  (Counted only.)"""
    try:
        return x.GetRingInfo().NumRings() >= 0
    except RuntimeError:   # RDKit: 'RingInfo not initialized'
        return False
