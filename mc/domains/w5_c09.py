"""Fifth wave, C09: label references in rules with several reactants.

A transformation of a RING rule names its atoms by label; the labels of all
reactants share one name space, but the reader has to find each atom again
inside the reactant that declares it (a position in that reactant's pattern,
not in the rule).  The hand-written seeds have one rule with two reactants and
one atom in each, so a label was never looked up in a reactant of another
size than the one it belongs to.

Family (complete within the bound):

  reactants   every ordered pair (and, smaller alphabet, every ordered triple)
              of the patterns in SHAPES: 1-3 carbon atoms, atom i bonded to
              its predecessor (chain) or to the first atom (star), bond
              single, double or `any` (the star is left to the thorough tier)
  labels      reactant k declares a1.., b1.., c1..; or (`shared`) every
              reactant re-declares the labels a1.. of the first
  operation   each of the 11 spellings of the five two-label transformations
              (break / form / increase order / decrease order / modify, with
              and without a bond type) and each of the 6 one-label
              transformations
  operands    every ordered pair (every single one) of: all declared labels,
              an undefined label, a reactant name used as a label
  tail        the radical edits that balance the operation's electron count
              when the operation is applicable (so that applicable rules are
              accepted and the rest must be refused by a RING error); and
              nothing (the reader must then refuse with its electron-balance
              message) - for the two-label operations that have a balancing
              tail the bare form is read in the thorough tier only

What the reader answers is not predicted: the C09 oracle (a query of the
announced kind consumed in full, or one of the RING errors) judges every text.
"""
import itertools

# (name, [(bond words, index of the atom bonded to), ...] for atoms 2..n)
SHAPES = [
    ('1', []),
    ('2s', [('single', 0)]),
    ('2d', [('double', 0)]),
    ('2any', [('any', 0)]),
    ('3chain', [('single', 0), ('single', 1)]),
    ('3star', [('single', 0), ('single', 0)]),
]
SHAPE = dict(SHAPES)
PAIR_SHAPES = {'quick': [n for n, _ in SHAPES if n != '3star'],
               'thorough': [n for n, _ in SHAPES]}
TRIPLE_SHAPES = {'quick': ['1', '2s'], 'thorough': ['1', '2s', '3chain']}

UNDEFINED = 'zz9'

INC_R = 'increase number of radical (%s)'
DEC_R = 'decrease number of radical (%s)'

# (text with two label slots, balancing edit per atom, how many of them)
OPS2 = [
    ('break bond(%s,%s)', INC_R, 1),
    ('break single bond(%s,%s)', INC_R, 1),
    ('break double bond(%s,%s)', INC_R, 2),
    ('form bond(%s,%s)', DEC_R, 1),
    ('form single bond(%s,%s)', DEC_R, 1),
    ('form double bond(%s,%s)', DEC_R, 2),
    ('increase bond order(%s,%s)', DEC_R, 1),
    ('decrease bond order(%s,%s)', INC_R, 1),
    ('modify bond(%s,%s,single)', None, 0),
    ('modify bond(%s,%s,double)', DEC_R, 1),
    ('modify bond(%s,%s,triple)', DEC_R, 2),
]
# (text with one label slot, its inverse)
OPS1 = [
    (INC_R, DEC_R),
    (DEC_R, INC_R),
    ('increase formal charge (%s)', 'decrease formal charge (%s)'),
    ('decrease formal charge (%s)', 'increase formal charge (%s)'),
    ('modify number of radical (%s, 1)', DEC_R),
    ('modify atomtype (%s, C.)', DEC_R),
]


def reactant(k, shape, shared):
    """-> (text of reactant number k (0-based), its labels)."""
    letter = 'a' if shared else 'abc'[k]
    bonds = SHAPE[shape]
    labels = ['%s%d' % (letter, i + 1) for i in range(len(bonds) + 1)]
    parts = ['C labeled ' + labels[0]]
    for i, (bond, to) in enumerate(bonds):
        parts.append('C labeled %s %s bond to %s' % (labels[i + 1], bond,
                                                     labels[to]))
    return 'reactant r%d{ %s }' % (k + 1, ' '.join(parts)), labels


def rule_texts(shapes, shared, tier='thorough'):
    """Every text of the family for one tuple of reactant shapes (quick: a
    two-label operation that has a balancing tail is read with it only)."""
    rs, labels = [], []
    for k, sh in enumerate(shapes):
        t, ls = reactant(k, sh, shared)
        rs.append(t)
        labels += [x for x in ls if x not in labels]
    head = 'rule xr{ ' + ' '.join(rs) + ' '
    operands = labels + [UNDEFINED, 'r%d' % len(shapes)]
    for (op, bal, n), x, y in itertools.product(OPS2, operands, operands):
        tail = ''.join(' ' + bal % z for z in (x, y) for _ in range(n))
        if not tail or tier == 'thorough':
            yield 'xr2', head + op % (x, y) + ' }'
        if tail:
            yield 'xr2-balanced', head + op % (x, y) + tail + ' }'
    for (op, inv), x in itertools.product(OPS1, operands):
        yield 'xr1', head + op % x + ' }'
        yield 'xr1-balanced', head + op % x + ' ' + inv % x + ' }'


def shape_tuples(tier):
    out = list(itertools.product(PAIR_SHAPES[tier], repeat=2))
    out += list(itertools.product(TRIPLE_SHAPES[tier], repeat=3))
    return out
