"""Fourth-wave domains for C08 (pure data and generators; nothing here imports
pgradd).

Three families, each enumerated exhaustively within its bound by
mc/props/c08.py:

* S  element vocabulary.  The symbol alphabet of the earlier families is
     {C, O, N, H, Pt, c, o} plus the class symbols.  Here: EVERY element symbol
     of the periodic table (Z = 1..118) in its ordinary and in its lower-case
     ("aromatic") spelling, in every place of a fragment where an element can be
     written (first atom with / without suffix, bonded atom, target of a
     neighbour-count constraint, plain and negated), against a bare atom of
     every element plus the aromatic and non-aromatic compounds of every
     element RDKit can make aromatic (b, c, n, o, p, s, se, te, si) and a few
     first-letter look-alikes (Cl / Co / Cu next to C, Si / Se / Sn next to S).
     `Xe` is not in the alphabet: the language reads `X` as the heavy-atom
     class, so `Xe labeled a` is a syntax error for the implementation and
     the reference reader alike (`xe` is in).
* N  embedding counts.  Symmetric two-shell star fragments (a centre, k equal
     arms, j hydrogens on every arm) against every alkane skeleton up to 6
     carbons and a curated list of highly symmetric molecules.  The number
     of embeddings is k-permutations x products of hydrogen permutations, so
     the family walks the count from 1 through the thousands up to the
     matcher's stated capacity (MATCH_CAP raw embeddings) and a little beyond.
* K  ways of calling.  The call-form alphabet of GetQueryMatches: the optional
     `debug` argument absent / 0 / False / 1 / True, given by position and by
     keyword, and the molecule given by keyword.

"""
import itertools

from . import fragments as F
from . import w3_c08 as W3

# ------------------------------------------------------------------ S

ELEMENTS = (
    'H He Li Be B C N O F Ne Na Mg Al Si P S Cl Ar K Ca Sc Ti V Cr Mn Fe Co Ni '
    'Cu Zn Ga Ge As Se Br Kr Rb Sr Y Zr Nb Mo Tc Ru Rh Pd Ag Cd In Sn Sb Te I '
    'Xe Cs Ba La Ce Pr Nd Pm Sm Eu Gd Tb Dy Ho Er Tm Yb Lu Hf Ta W Re Os Ir Pt '
    'Au Hg Tl Pb Bi Po At Rn Fr Ra Ac Th Pa U Np Pu Am Cm Bk Cf Es Fm Md No Lr '
    'Rf Db Sg Bh Hs Mt Ds Rg Cn Nh Fl Mc Lv Ts Og').split()
assert len(ELEMENTS) == 118 and len(set(ELEMENTS)) == 118

# symbols that can be WRITTEN: `Xe` reads as the class symbol X followed by
# junk (syntax error in implementation and reference alike)
UNWRITABLE = ('Xe',)


def element_symbols():
    """ordinary spelling of every element (but Xe), then the lower-case
    spelling of every element: 117 + 118 = 235 symbols."""
    up = [e for e in ELEMENTS if e not in UNWRITABLE]
    return up + [e.lower() for e in ELEMENTS]


# compounds of the elements RDKit can hold aromatic, with non-aromatic partners,
# and look-alikes by first letter
ELEMENT_MOLS = [
    # five-membered heteroaromatics: n o p s se te
    'c1cc[nH]c1', 'c1ccoc1', 'c1cc[pH]c1', 'c1ccsc1', 'c1cc[se]c1', 'c1cc[te]c1',
    # six-membered: b c n p si, and the chalcogen cations
    'b1ccccc1', 'c1ccccc1', 'c1ccncc1', 'c1ccpcc1', 'c1cc[siH]cc1',
    'c1cc[o+]cc1', 'c1cc[s+]cc1', 'c1cc[se+]cc1', 'c1cc[te+]cc1',
    # two different aromatic hetero atoms / fused / substituted
    'c1c[se]cn1', 'c1cscn1', 'c1ccc2[se]ccc2c1', 'Cc1ccc[se]1', 'Cc1ccc[te]1',
    '[se]1cccc1-c1cccs1',
    # the same elements, not aromatic
    'C1CC[Se]C1', 'C1CC[Te]C1', 'C1CCSC1', 'C1CCOC1', 'C1CCNC1', 'C1CCPC1',
    'C1=C[AsH]C=C1', 'C1=CC=[As]C=C1', 'B1C=CC=C1', 'C1=C[SiH2]C=C1',
    'C[Se]C', 'C[Te]C', 'C[As](C)C', 'CSC', 'CP', 'CB(C)C', 'C[Si](C)(C)C',
    'C=[Se]', '[SeH2]', '[TeH2]', '[AsH3]',
    # look-alikes by first letter
    'CCl', 'ClC(Cl)Cl', 'CBr', 'CF', 'CI', 'C[Sn](C)(C)C', 'C[Ge](C)(C)C',
    'Clc1ccccc1', 'Brc1ccsc1', 'C[Co]', 'C[Cu]', 'C[Ni]', 'C[Pt]', 'C[Pd]',
    'O[Os]', 'N[Ni]', 'N[Na]', 'C[Hg]C', '[NH4+].[Cl-]', '[Na+].[Br-]',
]


def element_atoms():
    """a bare atom of every element"""
    return ['[%s]' % e for e in ELEMENTS]


def element_fragments():
    """Every place an element symbol can be written x every symbol:
    S1  sym labeled a1                                  (neutral, no radical)
    S2  sym? labeled a1
    S3  $? labeled a1   sym? labeled a2 any bond to a1  (bonded atom)
    S4  $? labeled a1 { connected to sym? with any bond }
    S5  $? labeled a1 { ! connected to sym? with any bond }
    5 x 235 = 1175 fragments."""
    any_ = F.spec(None, '$', '?')
    for s in element_symbols():
        yield F.frag([(F.spec(None, s, None), None, [])])
        yield F.frag([(F.spec(None, s, '?'), None, [])])
        yield F.frag([(any_, None, []), (F.spec(None, s, '?'), ('any', 0), [])])
        yield F.frag([(any_, None, [['connected to', s + '?', 'with', 'any', 'bond']])])
        yield F.frag([(any_, None, [['!', 'connected to', s + '?', 'with', 'any', 'bond']])])


# ------------------------------------------------------------------ N

MATCH_CAP = 10000       # pgradd/RDkitWrapper/MolQuery.py: raw matches asked of RDKit


def alkanes(nmax):
    """every alkane skeleton (tree) with <= nmax carbons, from the exhaustive
    skeleton enumeration of the third wave (no ring-closure digit = acyclic)."""
    return [s for s in W3.skeletons(nmax) if not any(ch.isdigit() for ch in s)]


# highly symmetric molecules above that bound / with other centres
STAR_CURATED = [
    'CC(C)(C)C(C)(C)C',          # hexamethylethane
    'C[N+](C)(C)C', '[NH4+]',
    'OC(O)(O)O', 'NC(N)(N)N', 'CC(C)(C)O', 'CC(C)(C)N', 'CN(C)C', 'COC',
    'CC(C)=C(C)C', 'Cc1c(C)c(C)c(C)c(C)c1C',
    'C1CCCCC1', 'C12C3C4C1C5C2C3C45', 'C1C2CC3CC1CC(C2)C3',
    'CCCCCCCC', 'CCCCCCCCCCCC',
    '[CH3]', 'C[C](C)C', '[H][H]', 'O',
]
# thorough tier only (each costs the reference matcher several seconds)
STAR_CURATED_T = [
    'CC(C)(C)CC(C)(C)C',         # 2,2,4,4-tetramethylpentane
    'CC(C)(C)C(C)(C)C(C)(C)C',   # three quaternary carbons in a row
    'C[Si](C)(C)C',
]

STAR_CENTRES = [F.spec(None, 'C', None), F.spec(None, '$', '?'), F.spec(None, 'X', None)]
STAR_ARMS = [F.spec(None, 'H', None), F.spec(None, 'C', None), F.spec(None, '$', '?'),
             F.spec(None, 'X', None)]
STAR_BONDS = ['single', 'any']


def star(centre, arm, k, bond, j):
    """centre; k arms bonded to it; then j hydrogens on every arm (declared
    after all arms, arm by arm)."""
    atoms = [(centre, None, [])]
    for _ in range(k):
        atoms.append((arm, (bond, 0), []))
    H = F.spec(None, 'H', None)
    for a in range(k):
        for _ in range(j):
            atoms.append((H, ('single', 1 + a), []))
    return F.frag(atoms)


def star_shapes():
    """(k, j) of every star; arms that are H carry no second shell."""
    return [(k, j) for k in (1, 2, 3, 4) for j in (0, 1, 2, 3)]


def star_fragments(tier='quick'):
    """quick: centres {C, $?} x [H arms: 4 k x 2 bonds; {C, $?} arms: 4 k x
    2 bonds x 4 j] = 2 x (8 + 64) = 144 fragments of 2 .. 17 atoms;
    thorough: centres {C, $?, X}, arms {H, C, $?, X}: 3 x (8 + 96) = 312.
    Each is yielded with its shape (k, j)."""
    centres = STAR_CENTRES if tier == 'thorough' else STAR_CENTRES[:2]
    arms = STAR_ARMS if tier == 'thorough' else STAR_ARMS[:3]
    for c in centres:
        for arm in arms:
            for bond in STAR_BONDS:
                for (k, j) in star_shapes():
                    if arm[0] == 'H' and j:
                        continue
                    yield (k, j), star(c, arm, k, bond, j)


def relaxed_star(k, j):
    """The same graph with every atom `any atom`, every bond `any`: its
    number of embeddings bounds the raw substructure matches of every star of
    that shape from above, however the matcher splits the work between the
    substructure search and the later filtering."""
    any_ = F.spec(None, '$', '?')
    atoms = [(any_, None, [])]
    for _ in range(k):
        atoms.append((any_, ('any', 0), []))
    for a in range(k):
        for _ in range(j):
            atoms.append((any_, ('any', 1 + a), []))
    return F.frag(atoms)


# ------------------------------------------------------------------ K

# name -> (positional extras, keyword arguments, molecule by keyword?)
CALL_FORMS = [
    ('pos:0', (0,), {}, False),
    ('pos:False', (False,), {}, False),
    ('kw:debug=0', (), {'debug': 0}, False),
    ('kw:debug=False', (), {'debug': False}, False),
    ('pos:1', (1,), {}, False),
    ('pos:True', (True,), {}, False),
    ('kw:debug=1', (), {'debug': 1}, False),
    ('kw:debug=True', (), {'debug': True}, False),
    ('kw:mol', (), {}, True),
    ('kw:mol,debug=True', (), {'debug': True}, True),
]
FORM = dict((n, (a, k, mk)) for n, a, k, mk in CALL_FORMS)


def call(q, m, form):
    a, k, molkw = FORM[form]
    if molkw:
        return q.GetQueryMatches(mol=m, **k)
    return q.GetQueryMatches(m, *a, **k)


# hydrogen-rich, radical, charged, cyclic, aromatic, multiple bonds
CALL_MOLS = ['C', 'CC', 'CO', 'CCO', 'C=O', 'C=C', 'C#C', '[CH3]', 'C[CH2]', '[OH]',
             'O', '[H][H]', 'C1CC1', 'c1ccccc1', 'C[NH3+]', 'C[O-]', 'CN', 'OCC=C']

CALL_ATOM = F.spec(None, 'C', None)


def call_fragments():
    """K1  every one-atom fragment of family A                              756
    K2  C { c } for every single constraint                               3144
    K3  every two-atom fragment of family C without constraint            1440
    K4  every 3-atom chain / branch / triangle of family D over the atom
        specs {C?, $?} (2^3 x 4^2 x (2 + 4))                                768
    """
    for f in F.family_A():
        yield f
    for c in F.all_constraints():
        yield F.frag([(CALL_ATOM, None, [c])])
    for a, b in itertools.product(F.ATOMS12, repeat=2):
        for k in F.BONDS:
            yield F.frag([(a, None, []), (b, (k, 0), [])])
    A2 = F.ATOMS4[:2]
    for a, b, c in itertools.product(A2, repeat=3):
        for k1, k2 in itertools.product(F.BONDS4, repeat=2):
            yield F.frag([(a, None, []), (b, (k1, 0), []), (c, (k2, 1), [])])
            yield F.frag([(a, None, []), (b, (k1, 0), []), (c, (k2, 0), [])])
            for k3 in F.BONDS4:
                yield F.frag([(a, None, []), (b, (k1, 0), []), (c, (k2, 1), [])],
                             ringbonds=[(2, k3, 0)])
