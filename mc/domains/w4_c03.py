"""Fourth-wave molecule family for C03 (DESIGN.md 10.11).  Nothing here
imports pgradd; everything is built with RDKit (trusted base) only.

What the earlier space could not reach: every cis/trans-labelled double bond
in the curated lists was 1,2-DIsubstituted (but-2-ene, pent-2-ene, ...).  On
such a bond the two atoms RDKit stores as the stereo reference atoms are the
only substituents there are, so "which substituent is the reference atom of
which end" never has two answers.  A tri- or tetra-substituted double bond
has a substituent that is NOT a reference atom, and Benson's tert-butyl cis
correction ('tbCis') is an asymmetric pattern (one embedding per double bond,
no mirror image that would cover a wrong answer), so there the answer of the
stereo constraint hangs on the indices of four atoms and on which end of the
bond is written first.

* ethenes(tier): every substituted ethene R1R2C=CR3R4 with R over SUBST =
  {H, methyl, ethyl, isopropyl, tert-butyl} (the quick tier leaves isopropyl
  out: 97 instead of 230 molecules) - every constitution once (all
  unordered pairs of unordered pairs), and for every double bond that can
  carry a label (R1 != R2 and R3 != R4) the three stereo spellings: none, E,
  Z.  2-18 heavy atoms.  The alphabet has one letter per way a substituent
  enters Benson's cis corrections: absent (H), a plain carbon (methyl), a
  carbon with a gauche-capable tail (ethyl), a secondary carbon (isopropyl,
  which must NOT count as tert-butyl), a quaternary carbon (tert-butyl).

* core(m): the two double-bond carbons and their (<= 4) heavy neighbours.
  These are the atoms whose indices reach the stereo constraint (two
  reference substituents, two bond atoms).

* core_orders(m): all renumberings that permute the core atoms among the
  positions the core atoms hold in the numbering of the family's own
  spelling (the `order` is relative to that spelling), every other atom
  staying where it is (<= 6! = 720 per molecule).  Exhaustive over the
  relative order of the core atoms.

* core_first_orders(m): as core_orders, but for the permutations of the
  <= 4-atom sub-cores only: for every choice of one heavy neighbour on each
  end (the two atoms a stereo statement 'a cis to b' names) all 24 relative
  orders of (a, C, C', b), the remaining atoms keeping their places.  A
  subset of core_orders; this is what the quick tier walks besides the
  single-atom moves.
"""
import functools
import itertools

from rdkit import Chem, RDLogger

RDLogger.DisableLog('rdApp.*')

#            as a prefix (attached by its LAST atom), as a suffix / branch
SUBST = {'H': ('', ''), 'Me': ('C', 'C'), 'Et': ('CC', 'CC'),
         'iPr': ('CC(C)', 'C(C)C'), 'tBu': ('CC(C)(C)', 'C(C)(C)C')}


def _branch(r):
    return '(%s)' % SUBST[r][1] if r != 'H' else ''


LETTERS = {'quick': ('H', 'Me', 'Et', 'tBu'),
           'thorough': ('H', 'Me', 'Et', 'iPr', 'tBu')}


@functools.lru_cache(maxsize=None)
def ethenes(tier='thorough'):
    """[(SMILES, description)], deduplicated by canonical isomeric SMILES, in
    enumeration order (fewest / smallest substituents first).  quick: 97
    molecules over 4 letters; thorough: 230 over all 5."""
    names = list(LETTERS[tier])
    ends = list(itertools.combinations_with_replacement(names, 2))
    out, seen = [], set()

    def put(s, what):
        m = Chem.MolFromSmiles(s)
        assert m is not None, s
        c = Chem.MolToSmiles(m)
        if c not in seen:
            seen.add(c)
            out.append((s, what))
    for (a, b), (c, d) in itertools.combinations_with_replacement(ends, 2):
        what = '%s,%s / %s,%s' % (a, b, c, d)
        put('C%s%s=C%s%s' % (_branch(a), _branch(b), _branch(c), _branch(d)),
            what + ' unlabelled')
        if a != b and c != d:
            # the marked substituent of each end: a non-hydrogen one
            ma, oa = (b, a) if a == 'H' else (a, b)
            mc, oc = (d, c) if c == 'H' else (c, d)
            for mark in ('/', '\\'):
                put('%s/C%s=C%s%s%s' % (SUBST[ma][0], _branch(oa), _branch(oc),
                                        mark, SUBST[mc][1]),
                    what + ' labelled ' + mark)
    return tuple(out)


def double_bond(m):
    """The one acyclic C=C bond of an ethenes() molecule: (begin, end)."""
    bs = [b for b in m.GetBonds() if b.GetBondType() == Chem.BondType.DOUBLE]
    assert len(bs) == 1
    return bs[0].GetBeginAtomIdx(), bs[0].GetEndAtomIdx()


def core(m):
    """(c, c', neighbours of c, neighbours of c') as index tuples."""
    c1, c2 = double_bond(m)
    n1 = tuple(a.GetIdx() for a in m.GetAtomWithIdx(c1).GetNeighbors()
               if a.GetIdx() != c2)
    n2 = tuple(a.GetIdx() for a in m.GetAtomWithIdx(c2).GetNeighbors()
               if a.GetIdx() != c1)
    return c1, c2, n1, n2


def _permute_in_place(n, atoms):
    """All orders (order[new] = old) that permute `atoms` among the positions
    `atoms` hold, everything else fixed."""
    slots = sorted(atoms)
    for p in itertools.permutations(atoms):
        order = list(range(n))
        for s, a in zip(slots, p):
            order[s] = a
        yield tuple(order)


def core_orders(m):
    c1, c2, n1, n2 = core(m)
    seen, out = set(), []
    for o in _permute_in_place(m.GetNumAtoms(), (c1, c2) + n1 + n2):
        if o not in seen:
            seen.add(o)
            out.append(o)
    return out


def core_first_orders(m):
    c1, c2, n1, n2 = core(m)
    n = m.GetNumAtoms()
    seen, out = set(), []
    subs = [(a, c1, c2, b) for a in n1 for b in n2] or \
           [(a, c1, c2) for a in n1] or [(c1, c2, b) for b in n2] or [(c1, c2)]
    for sub in subs:
        for o in _permute_in_place(n, sub):
            if o not in seen:
                seen.add(o)
                out.append(o)
    return out


def bond_written_first(m):
    """Which end of the double bond RDKit lists as the begin atom, relative to
    the canonical ranking of the two ends: 'low-first' / 'high-first' /
    'tie' (symmetric ends).  Used only to COUNT that both orientations were
    reached (non-vacuity), never to judge."""
    c1, c2 = double_bond(m)
    r = list(Chem.CanonicalRankAtoms(m, breakTies=False))
    if r[c1] == r[c2]:
        return 'tie'
    return 'low-first' if r[c1] < r[c2] else 'high-first'
