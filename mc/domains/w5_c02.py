"""Fifth-wave additions to the C02 domains.  Imports nothing from pgradd.

A scheme file may qualify a pattern atom by a COUNT: `{connected to <3 C}`,
`{in ring of size 6}`, `{in 1 ring}`, `{has =1 radical electrons}`, each
optionally negated with `!`.  The count is an operator and a digit.  The
shipped files use the bare digit, `=`, `>=` and (once, in the Benson ether
correction) a strict `<`; the synthetic pool of domains/schemes.py used only
`=1` and the implicit ">= 1".  So no enumerated (scheme, molecule) pair ever had
an atom sitting EXACTLY ON the declared limit of a strict or a non-strict
inequality - the only place where `<` and `<=` (or `>` and `>=`) differ.  Two
families, each enumerated in full:

K  synthetic schemes whose declaration carries a count, over

     operator  in {bare digit, =, >, <, >=, <=}
     digit     in 0..4
     counted   in {C neighbours, H neighbours, size of a ring the atom is in,
                   number of rings the atom is in, radical electrons}
                   (thorough: also O neighbours and heavy neighbours)

   in two ROLES:
     descriptor  the count qualifies the (first) atom of a correction
                 descriptor, plain or negated with `!`, in two shapes: the
                 single carbon atom, and - for the neighbour counts - the
                 asymmetric three-atom C{count}-O-C pattern in the form of
                 Benson's 'Ether oxygen gauche' (counted once per distinct
                 atom set, so a symmetric ether counts once if either end
                 qualifies);
     centre      the scheme's carbon is classified by TWO centre patterns,
                 'Ca' = C{count(op, n)} and 'Cb' = C{! count(op', n)}: with
                 op' = op they partition the carbons and every group name
                 tells on which side of the limit its centre fell; with
                 op' != op some counts are claimed by both or by neither and
                 the call must fail with the pattern-match error exactly for
                 the molecules that hold such a carbon.  All 36 (op, op')
                 pairs for the neighbour counts, op' = op for the other
                 counts (thorough: all 36 everywhere).

   run on K_MOLECULES: carbons with 0..4 carbon and 0..4 hydrogen neighbours
   (methane ... neopentane), unsaturated and radical carbons with 1-3 radical
   electrons, three- and four-membered rings, a carbon in two rings, and all
   ten ethers R-O-R' over {Me, Et, iPr, tBu} (alpha carbons with 0..3
   carbons on either side of the oxygen).

L  shipped schemes on the SUBSTITUTION LADDER R-Y-R': R, R' over
   {H, Me, Et, iPr, tBu} (0..3 carbons on the atom next to the linker) and the
   linker Y over {O, OO, C(=O), CH2, C(=O)O}; unordered pairs for the
   symmetric linkers, ordered pairs for the ester, de-duplicated by canonical
   SMILES.  These are the molecules the Benson 'Ether oxygen gauche' /
   'Ditertiary ether' / alkane-gauche corrections distinguish by the number
   of carbons on an atom; M(n) stops at 3-4 heavy atoms, where no alpha
   carbon reaches three carbons.
"""
import itertools

from . import molecules as MD

OPS = ('', '=', '>', '<', '>=', '<=')
DIGITS = (0, 1, 2, 3, 4)
KINDS_Q = ('conn-C', 'conn-H', 'ringsize', 'nring', 'radical')
KINDS_T = KINDS_Q + ('conn-O', 'conn-heavy')
NEIGHBOUR = {'conn-C': 'C?', 'conn-H': 'H', 'conn-O': 'O?', 'conn-heavy': 'X?'}
NEG = ('', '! ')


def kinds(tier):
    return KINDS_Q if tier == 'quick' else KINDS_T


def count_text(kind, op, n, neg=''):
    """The text between the braces."""
    if kind in NEIGHBOUR:
        return '%sconnected to %s%d %s' % (neg, op, n, NEIGHBOUR[kind])
    if kind == 'ringsize':
        return '%sin ring of size %s%d' % (neg, op, n)
    if kind == 'nring':
        return '%sin %s%d ring' % (neg, op, n)
    if kind == 'radical':
        return '%shas %s%d radical electrons' % (neg, op, n)
    raise ValueError(kind)


P_ANYC = 'fragment c{ C? labeled c1 }'
P_O = 'fragment o{ O? labeled o1 }'
P_H = 'fragment h{ H labeled h1 }'


def _pat(cn, pn, conn):
    return dict(center_name=cn, periph_name=pn, connectivity=conn)


def count_schemes(tier):
    """('descriptor', kind, shape, neg, op, n) | ('centre', kind, op, op2, n)"""
    out = []
    for kind in kinds(tier):
        shapes = ('atom', 'C-O-C') if kind in NEIGHBOUR else ('atom',)
        for shape in shapes:
            for neg in NEG:
                for op in OPS:
                    for n in DIGITS:
                        out.append(('descriptor', kind, shape, neg, op, n))
    for kind in kinds(tier):
        for op in OPS:
            for op2 in OPS:
                if op2 != op and tier == 'quick' and kind not in NEIGHBOUR:
                    continue
                for n in DIGITS:
                    out.append(('centre', kind, op, op2, n))
    return out


def scheme_dict(desc):
    if desc[0] == 'descriptor':
        _, kind, shape, neg, op, n = desc
        c = count_text(kind, op, n, neg)
        if shape == 'atom':
            conn = 'fragment k{ C? labeled c1 {%s} }' % c
        else:
            conn = ('fragment k{ C? labeled c1 {%s} O labeled o1 single bond '
                    'to c1 C? labeled c2 single bond to o1 }' % c)
        return {'patterns': [_pat('C', 'C', P_ANYC), _pat('O', 'O', P_O),
                             _pat('none', 'H', P_H)],
                'other_descriptors': [dict(name='K', connectivity=conn)]}
    _, kind, op, op2, n = desc
    a = 'fragment a{ C? labeled c1 {%s} }' % count_text(kind, op, n)
    b = 'fragment b{ C? labeled c1 {%s} }' % count_text(kind, op2, n, '! ')
    return {'patterns': [_pat('Ca', 'Ca', a), _pat('Cb', 'Cb', b),
                         _pat('O', 'O', P_O), _pat('none', 'H', P_H)]}


def tag(desc):
    return 'synthetic-count/%s/%s' % (desc[0], desc[1])


def to_json(desc):
    return list(desc)


def from_json(j):
    return tuple(j)


ETHER_R = {'Me': 'C', 'Et': 'CC', 'iPr': 'C(C)C', 'tBu': 'C(C)(C)C'}


def ethers():
    return ['O(%s)%s' % (ETHER_R[a], ETHER_R[b])
            for a, b in itertools.combinations_with_replacement(ETHER_R, 2)]


K_MOLECULES = (
    # carbons with 0..4 C and 4..0 H neighbours
    ['C', 'CC', 'CCC', 'CC(C)C', 'CC(C)(C)C',
     # unsaturated carbons, radical carbons with 1, 2, 3 radical electrons
     'C=C', 'CC=C', 'C#C', 'C=C=C', '[CH3]', '[CH2]', '[CH]', 'C[CH2]',
     'C[CH]C', 'C[C](C)C', 'C[CH]',
     # rings of size 3, 4, a substituted ring, a carbon in two rings
     'C1CC1', 'C1CCC1', 'C1CC1C', 'C1CC2CC12', 'C1CC12CCC2',
     # oxygen next to carbon
     'O', 'CO', 'OCO', 'C=O', 'CC(C)(C)O']
    + ethers())


# ------------------------------------------------------------------ L

LADDER_R = ('H', 'Me', 'Et', 'iPr', 'tBu')
#          written before the linker (attached by its last atom) / after it
_PRE = {'H': '', 'Me': 'C', 'Et': 'CC', 'iPr': 'CC(C)', 'tBu': 'CC(C)(C)'}
_POST = {'H': '', 'Me': 'C', 'Et': 'CC', 'iPr': 'C(C)C', 'tBu': 'C(C)(C)C'}
LINKERS_SYM = ('O', 'OO', 'C(=O)', 'C')
LINKERS_ASYM = ('C(=O)O',)


def ladder():
    """-> list of SMILES, deduplicated by canonical SMILES."""
    out, seen = [], set()

    def put(s):
        c = MD.canon(s)
        assert c is not None, s
        if c not in seen:
            seen.add(c)
            out.append(s)
    for y in LINKERS_SYM:
        for a, b in itertools.combinations_with_replacement(LADDER_R, 2):
            put(_PRE[a] + y + _POST[b])
    for y in LINKERS_ASYM:
        for a, b in itertools.product(LADDER_R, repeat=2):
            put(_PRE[a] + y + _POST[b])
    return out
