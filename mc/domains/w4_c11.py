"""Fourth-wave domain for C11 (imports nothing from pgradd).

BUNDLES.  `ArrayQuantity([q1, q2, ...], units=...)` is the one public route on
which several quantities are combined into one object WITHOUT an arithmetic
operator: the list-of-quantities constructor.  The earlier waves built every
array operand as `unit * ndarray`, so this route was never walked.

Element alphabet (tokens, also the witness spelling):
    '<mag> <dim>'   a scalar quantity eval_qty(dim) * mag, e.g. '3.0 m',
                    '-0.0 s', '1e-20 J/mol', 'nan K'
    '#0' '#0.0'     a bare zero (int / float): the only dimensionless
                    operand the property accepts
    '#2.5'          a plain non-zero number
Enumerated (all exhaustive, no sampling):
    full  : every list of length 1..2 over the FULL alphabet
            (dims x {0.0, -0.0, 3.0, -2.0, 1e-20 [thorough: nan, inf, 1e300]}
             + '#0' '#0.0' '#2.5')
    small3: every list of length 3 over the SMALL alphabet
            (dims x {0.0, 3.0} + '#0')
    small4: thorough only: every list of length 4 over the SMALL alphabet of
            the six quick dimensions
each x the `units=` argument over {absent} + every dimension of the tier.
Dimensions: quick m, s, K, J, J/mol, m^0.5 (base, derived, one-exponent apart,
fractional); thorough all 14 named shapes of the check.

Reference (expect): what the property says about such a list, from the
(dimension name, magnitude) pairs alone.
  * two NON-ZERO-valued quantities of different dimensions -> units error,
    whatever stands between them and whatever `units=` says;
  * one dimension among the non-zero-valued quantities and a `units=` of
    another dimension -> units error (a non-zero quantity would change
    dimension);
  * quantities of ONE dimension (bare zeros allowed), `units=` absent or the
    same dimension -> the bundle exists, has that dimension and the SI
    magnitudes of its elements;
  * a plain non-zero number next to a quantity -> refused (UnitsError,
    TypeError or ValueError; the statement names no error for a constructor);
  * OPEN, as everywhere in C11: a zero-VALUED quantity of another dimension.
    The constructor may refuse the list or accept it, but if it accepts, the
    bundle must have the dimension of the non-zero-valued quantities (if there
    are none: of one of the elements / of `units=`) and the right magnitudes.
  * no quantity in the list at all: not a bundle of quantities, unjudged.
"""
import itertools
import math

ALL_DIMS = ['m', 'kg', 's', 'A', 'K', 'mol', 'cd', 'N', 'J', 'Pa', 'J/mol',
            'J/(mol K)', '1/K', 'm^0.5']
QUICK_DIMS = ['m', 's', 'K', 'J', 'J/mol', 'm^0.5']
DIMS = {'quick': QUICK_DIMS, 'thorough': ALL_DIMS}
MAGS_FULL = {'quick': [0.0, -0.0, 3.0, -2.0, 1e-20],
             'thorough': [0.0, -0.0, 3.0, -2.0, 1e-20,
                          float('nan'), float('inf'), 1e300]}
MAGS_SMALL = [0.0, 3.0]
BARE_FULL = ['#0', '#0.0', '#2.5']
BARE_SMALL = ['#0']
# family -> (alphabet kind, lengths, dimension list used for the elements)
FAMILIES = {'quick': {'full': ('full', (1, 2), QUICK_DIMS),
                      'small3': ('small', (3,), QUICK_DIMS)},
            'thorough': {'full': ('full', (1, 2), ALL_DIMS),
                         'small3': ('small', (3,), ALL_DIMS),
                         'small4': ('small', (4,), QUICK_DIMS)}}


def token(dim, mag):
    return '%r %s' % (float(mag), dim)


def alphabet(tier, fam):
    kind, _, dims = FAMILIES[tier][fam]
    mags = MAGS_FULL[tier] if kind == 'full' else MAGS_SMALL
    bare = BARE_FULL if kind == 'full' else BARE_SMALL
    return [token(d, m) for d in dims for m in mags] + list(bare)


def kwargs_of(tier):
    return [None] + list(DIMS[tier])


def lists_of(tier, fam, first):
    """every token list of the family that starts with `first`"""
    _, lengths, _ = FAMILIES[tier][fam]
    alpha = alphabet(tier, fam)
    for n in lengths:
        for rest in itertools.product(alpha, repeat=n - 1):
            yield [first] + list(rest)


def shards(tier):
    out = []
    for fam in FAMILIES[tier]:
        for first in alphabet(tier, fam):
            out.append(('bundle', fam, first))
    return out


def count(tier):
    """(lists, constructor calls) of the tier"""
    n = 0
    for fam, (_, lengths, _) in FAMILIES[tier].items():
        a = len(alphabet(tier, fam))
        n += sum(a ** k for k in lengths)
    return n, n * len(kwargs_of(tier))


def parse(tok):
    """token -> (dimension name or '#bare' / '#num', magnitude)"""
    if tok.startswith('#'):
        v = float(tok[1:])
        return ('#bare' if v == 0 else '#num'), (int(v) if tok == '#0' else v)
    mag, dim = tok.split(' ', 1)
    return dim, float(mag)


def nonzero(m):
    return not (m == 0)        # nan is not a zero; -0.0 is


def expect(elems, kw):
    """elems: [(dim | '#bare' | '#num', magnitude)], kw: dimension name | None
    -> (verdict, class label, dims)
       verdict 'unjudged' | 'refused' | 'UnitsError' | 'val' | 'open'
       dims: for 'val' the one dimension; for 'open' the set of dimensions an
       accepted bundle may have."""
    qs = [(d, m) for d, m in elems if not d.startswith('#')]
    if not qs:
        return 'unjudged', 'no-quantity', None
    if any(d == '#num' for d, _ in elems):
        return 'refused', 'plain-number', None
    nz = set(d for d, m in qs if nonzero(m))
    alld = set(d for d, _ in qs)
    if len(nz) >= 2:
        return 'UnitsError', 'mixed-nonzero', None
    if len(nz) == 1:
        d = next(iter(nz))
        if kw is not None and kw != d:
            return 'UnitsError', 'other-units-argument', None
        if alld == nz:
            return 'val', 'one-dim', d
        return 'open', 'foreign-zero', set([d])
    if len(alld) == 1 and kw in (None, next(iter(alld))):
        return 'val', 'one-dim-all-zero', next(iter(alld))
    return 'open', 'all-zero-mixed', alld | (set([kw]) if kw else set())


def si_values(elems):
    """every dimension name of the alphabet is a coherent SI unit (factor 1)"""
    return [float(m) for _, m in elems]


def nontrivial(elems, kw):
    dims = set(d for d, _ in elems)
    if kw is not None:
        dims.add(kw)
    return len(dims) > 1 or any(not nonzero(m) or not math.isfinite(m)
                                for _, m in elems)
