"""Third-wave alphabets for C20 (nothing here imports pgradd).

1. Library files for the uncertainty data: every ORDER of a 3-descriptor
   basis x an alphabet of STORED matrices (symmetric, one entry above or below
   the diagonal perturbed - every such entry -, asymmetric everywhere, with
   float and with whole-number entries) x where the uncertainty block sits
   (in the library file itself / in an included uq.yaml, as the shipped
   libraries do).  The matrix is defined in stored-index space: entry [i][j]
   belongs to (basis[i], basis[j]) of the order at hand.

2. What a caller can do to its own mapping after handing it to Estimate():
   every single-step edit over the mapping's keys, at both moments relative to
   the first standard-error call.
"""
import itertools

DESCRIPTORS = ['C(C)(H)3', 'C(C)2(H)2', 'C(C)3(H)']     # string-sorted
ORDERS = [''.join(map(str, p)) for p in itertools.permutations(range(3))]

_SYM = [[1.5, 0.25, -0.75], [0.25, 0.5, 0.125], [-0.75, 0.125, 2.0]]


def _bump(i, j, d):
    m = [list(r) for r in _SYM]
    m[i][j] += d
    return m


# the symmetric part of every matrix is positive definite (checked by
# selfcheck() below with a pure-Python eigenvalue), so x'Mx > 0 for x != 0
MATS = {
    'sym': _SYM,
    # one stored entry differs from its mirror image: every position
    'up01': _bump(0, 1, 0.5), 'up02': _bump(0, 2, -0.375), 'up12': _bump(1, 2, 0.25),
    'lo10': _bump(1, 0, 0.5), 'lo20': _bump(2, 0, -0.375), 'lo21': _bump(2, 1, 0.25),
    # no entry equals its mirror image
    'full': [[1.5, 0.5, -0.25], [0.0, 0.75, 0.375], [-1.0, -0.125, 2.0]],
    # the same with whole numbers only (loads with an integer dtype)
    'fullint': [[4, 2, 0], [0, 3, -2], [1, 0, 2]],
}
PLACEMENTS = ['inline', 'include']
INCLUDE_MATS = ['sym', 'full']


def lib_names():
    """'synx:<order>:<matrix>:<placement>'"""
    out = []
    for o in ORDERS:
        for m in MATS:
            out.append('synx:%s:%s:inline' % (o, m))
        for m in INCLUDE_MATS:
            out.append('synx:%s:%s:include' % (o, m))
    return out


def spec(name):
    _, o, m, place = name.split(':')
    basis = [DESCRIPTORS[int(ch)] for ch in o]
    return basis, [list(r) for r in MATS[m]], place


def selfcheck():
    from ..models import thermoref as tr
    for k, m in MATS.items():
        s = [[0.5 * (m[i][j] + m[j][i]) for j in range(3)] for i in range(3)]
        assert tr.jacobi_min_eig(s) > 0.05, (k, tr.jacobi_min_eig(s))
        if k != 'sym':
            assert any(m[i][j] != m[j][i] for i in range(3) for j in range(3))


# ------------------------------------------------- caller-owned mapping

TIMINGS = ['before-first-SE', 'after-first-SE']


def edits(items, basis):
    """Every single-step edit of a mapping with these items (op tuples that
    apply_edit understands).  `basis` supplies a descriptor to add."""
    keys = [g for g, _ in items]
    ops = [('clear',), ('scale', -2)]
    for i in range(len(keys)):
        ops.append(('set', i, 7))
        ops.append(('del', i))
    spare = [g for g in basis if g not in keys]
    if spare:
        ops.append(('add', spare[0], 2))
    ops.append(('add', 'Q(Z)9', 5))          # outside the basis
    ops.append(('replace',))                 # re-used for the next mapping
    return ops


def apply_edit(d, items, op, other=None):
    keys = [g for g, _ in items]
    if op[0] == 'clear':
        d.clear()
    elif op[0] == 'scale':
        for k in list(d):
            d[k] = d[k] * op[1]
    elif op[0] == 'set':
        d[keys[op[1]]] = op[2]
    elif op[0] == 'del':
        del d[keys[op[1]]]
    elif op[0] == 'add':
        d[op[1]] = op[2]
    elif op[0] == 'replace':
        d.clear()
        d.update(dict(other))
    else:
        raise ValueError(op)
