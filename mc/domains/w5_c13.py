"""Path spellings for C13 (fifth wave): where the files of a library live and
how they are NAMED - by the caller (the path given to Load, relative to which
current directory) and by the including file (the include string).

Pure combinatorics; nothing here imports pgradd.

Include trees are those of w3_c13 (pre-order parent tuples).  The whole
library lives below one scratch directory TOP (only known when the files are
written: absolute names carry the marker `TOP` until then); the top file is
TOP/lib/library.yaml, its scheme TOP/lib/scheme.yaml.

PLACEMENTS - where an included file is stored, relative to the directory D of
the file that includes it:
  same     D/<id>.yaml
  sub      D/<id>.d/index.yaml              (a subdirectory of its own)
  sibling  D/../<name of D>.<id>.s/index.yaml   (a directory BESIDE D; for the
           files included by the top file that is outside the library's own
           directory)

SPELLINGS - how the including file writes the include string for it:
  rel      the plain relative path from D (contains .. for `sibling`)
  dot      ./<rel>
  abs      the absolute path of the file
  updown   ../<name of D>/<rel>             (leaves D and enters it again)

ROOTS - how the caller names the top file: (current directory, path)
  abs      (unchanged,      TOP/lib/library.yaml)
  rel      (TOP,            lib/library.yaml)
  bare     (TOP/lib,        library.yaml)
  dot      (TOP/lib,        ./library.yaml)
  dotdot   (TOP/lib/cwd.d,  ../library.yaml)
"""
import itertools
import posixpath

PLACEMENTS = ('same', 'sub', 'sibling')
SPELLINGS = ('rel', 'dot', 'abs', 'updown')
ROOTS = ('abs', 'rel', 'bare', 'dot', 'dotdot')
TOP = '@TOP@'
LIBDIR = 'lib'
CWD_SUB = 'cwd.d'


def children(parents):
    ch = [[] for _ in parents]
    for v, p in enumerate(parents):
        if p >= 0:
            ch[p].append(v)
    return ch


def edge_labels(n):
    """All (placement, spelling) tuples for the n-1 included files: index 0
    (the top file) is None in both."""
    per_edge = list(itertools.product(PLACEMENTS, SPELLINGS))
    for combo in itertools.product(per_edge, repeat=n - 1):
        yield ((None,) + tuple(c[0] for c in combo),
               (None,) + tuple(c[1] for c in combo))


def place(parents, placement, spelling):
    """-> (paths, includes): paths[v] = file of node v relative to TOP;
    includes[v] = the string by which its parent refers to it (absolute ones
    start with the marker TOP)."""
    n = len(parents)
    ch = children(parents)
    dirs, local, paths, includes = [''] * n, [''] * n, [''] * n, [None] * n
    dirs[0] = LIBDIR
    paths[0] = posixpath.join(LIBDIR, 'library.yaml')
    for v in range(1, n):
        p = parents[v]
        lid = (local[p] + '_' if local[p] else '') + 'c%d' % ch[p].index(v)
        if placement[v] == 'same':
            dirs[v], local[v] = dirs[p], lid
            paths[v] = posixpath.join(dirs[v], lid + '.yaml')
        else:
            if placement[v] == 'sub':
                dirs[v] = posixpath.join(dirs[p], lid + '.d')
            elif placement[v] == 'sibling':
                dirs[v] = posixpath.join(
                    posixpath.dirname(dirs[p]),
                    posixpath.basename(dirs[p]) + '.' + lid + '.s')
            else:
                raise ValueError(placement[v])
            local[v] = ''
            paths[v] = posixpath.join(dirs[v], 'index.yaml')
        rel = posixpath.relpath(paths[v], dirs[p])
        sp = spelling[v]
        if sp == 'rel':
            includes[v] = rel
        elif sp == 'dot':
            includes[v] = './' + rel
        elif sp == 'abs':
            includes[v] = posixpath.join(TOP, paths[v])
        elif sp == 'updown':
            includes[v] = '../' + posixpath.basename(dirs[p]) + '/' + rel
        else:
            raise ValueError(sp)
    assert len(set(paths)) == n
    assert not any(posixpath.basename(x) == 'scheme.yaml' for x in paths)
    # every file is a regular file: no file is a directory of another
    assert not any(a != b and b.startswith(a + '/') for a in paths for b in paths)
    return paths, includes


def root(name):
    """-> (cwd relative to TOP or None = leave the current directory alone,
    path string given to Load; absolute ones start with the marker TOP)."""
    lib = posixpath.join(LIBDIR, 'library.yaml')
    return {'abs': (None, posixpath.join(TOP, lib)),
            'rel': ('', lib),
            'bare': (LIBDIR, 'library.yaml'),
            'dot': (LIBDIR, './library.yaml'),
            'dotdot': (posixpath.join(LIBDIR, CWD_SUB), '../library.yaml'),
            }[name]


def holder_orders(n, tier):
    """Every file holds one block of the group's data (k = n).  quick: block j
    in file j (pre-order); thorough: all n! assignments."""
    if tier == 'quick':
        return [tuple(range(n))]
    return list(itertools.permutations(range(n)))
