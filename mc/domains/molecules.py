"""Molecule domains (DESIGN.md section 4).

M(n): all connected graphs on <= n heavy atoms over an element alphabet with
bond orders 1-3 respecting standard valences, every distribution of <= r
radical electrons, deduplicated by canonical SMILES, kept if RDKit sanitises
them.  Nothing here imports pgradd.
"""
import functools
import itertools
import json
import os

from rdkit import Chem, RDLogger

RDLogger.DisableLog('rdApp.*')
VAL = {'C': 4, 'O': 2, 'N': 3}
_BT = {1: Chem.BondType.SINGLE, 2: Chem.BondType.DOUBLE, 3: Chem.BondType.TRIPLE}


def _enum(n, elems, maxrad):
    out = {}
    pairs = [(i, j) for i in range(n) for j in range(i + 1, n)]
    for els in itertools.combinations_with_replacement(elems, n):
        for orders in itertools.product((0, 1, 2, 3), repeat=len(pairs)):
            deg = [0] * n
            for (i, j), o in zip(pairs, orders):
                deg[i] += o
                deg[j] += o
            if any(deg[i] > VAL[els[i]] for i in range(n)):
                continue
            adj = {i: set() for i in range(n)}
            for (i, j), o in zip(pairs, orders):
                if o:
                    adj[i].add(j)
                    adj[j].add(i)
            seen, st = {0}, [0]
            while st:
                x = st.pop()
                for y in adj[x]:
                    if y not in seen:
                        seen.add(y)
                        st.append(y)
            if len(seen) != n:
                continue
            free = [VAL[els[i]] - deg[i] for i in range(n)]
            for rads in itertools.product(*[range(0, min(f, 2) + 1) for f in free]):
                if sum(rads) > maxrad:
                    continue
                rw = Chem.RWMol()
                for i in range(n):
                    a = Chem.Atom(els[i])
                    a.SetNumRadicalElectrons(rads[i])
                    a.SetNoImplicit(True)
                    a.SetNumExplicitHs(free[i] - rads[i])
                    rw.AddAtom(a)
                for (i, j), o in zip(pairs, orders):
                    if o:
                        rw.AddBond(i, j, _BT[o])
                m = rw.GetMol()
                try:
                    Chem.SanitizeMol(m)
                except Exception:     # noqa
                    continue
                smi = Chem.MolToSmiles(m)
                if Chem.MolFromSmiles(smi) is None:
                    continue
                out.setdefault(smi, None)
    return sorted(out)


@functools.lru_cache(maxsize=None)
def enum(n, elems=('C', 'O'), maxrad=2):
    """Molecules with exactly n heavy atoms."""
    if n >= 5:
        from .. import VERIF
        d = os.path.join(VERIF, '.cache')
        os.makedirs(d, exist_ok=True)
        p = os.path.join(d, 'mol_%d_%s_%d.json' % (n, ''.join(elems), maxrad))
        if os.path.exists(p):
            try:
                return tuple(json.load(open(p)))
            except Exception:     # noqa
                pass
        r = _enum(n, elems, maxrad)
        tmp = p + '.%d.tmp' % os.getpid()
        with open(tmp, 'w') as f:
            json.dump(r, f)
        os.replace(tmp, p)
        return tuple(r)
    return tuple(_enum(n, elems, maxrad))


def M(nmax, elems=('C', 'O'), maxrad=2):
    out = []
    for n in range(1, nmax + 1):
        out.extend(enum(n, elems, maxrad))
    return out


def adsorbates(smiles_list, metal='Pt'):
    """Every radical electron of every radical becomes a bond to a metal
    atom (one metal atom per electron)."""
    out = {}
    for smi in smiles_list:
        m = Chem.MolFromSmiles(smi)
        if not any(a.GetNumRadicalElectrons() for a in m.GetAtoms()):
            continue
        rw = Chem.RWMol(m)
        for a in list(rw.GetAtoms()):
            k = a.GetNumRadicalElectrons()
            if not k:
                continue
            h = a.GetTotalNumHs()
            a.SetNumRadicalElectrons(0)
            a.SetNoImplicit(True)
            a.SetNumExplicitHs(h)
            for _ in range(k):
                j = rw.AddAtom(Chem.Atom(metal))
                rw.AddBond(a.GetIdx(), j, Chem.BondType.SINGLE)
        mm = rw.GetMol()
        try:
            Chem.SanitizeMol(mm)
        except Exception:      # noqa
            continue
        s = Chem.MolToSmiles(mm)
        if Chem.MolFromSmiles(s) is not None:
            out[s] = None
    return sorted(out)


CHARGED = ['[NH4+]', 'C[NH3+]', 'C[O-]', '[OH-]', 'C[N+](=O)[O-]', '[C-]#[O+]']

# What the size bound cannot reach.
CURATED_GAS = [
    # the twelve molecules of the suite (gas-phase ones)
    'C1CO1', 'C(=O)OC', 'CCCCCC', 'C1=CC=CC=C1', 'CC(C)C', 'CC(C)(C)C',
    # rings C3-C7, aromatics
    'C1CC1', 'C1CCC1', 'C1CCCC1', 'C1CCCCC1', 'C1CCCCCC1', 'C1=CCCCC1',
    'c1ccccc1', 'Cc1ccccc1', 'Cc1ccccc1C', 'Cc1cccc(C)c1', 'Cc1ccc(C)cc1',
    'Oc1ccccc1', 'c1ccoc1', 'C1=CC=CC1', 'C1CCOC1', 'C1CCOCC1',
    # cis / trans, gauche-prone branched alkanes
    r'C/C=C\C', 'C/C=C/C', 'CC=CC', 'CC(C)C(C)C', 'CC(C)CC(C)C', 'CC(C)(C)CC',
    'CC(C)(C)C(C)(C)C', 'CCC(C)C', r'C/C=C\CC', 'C=CC=C', 'C=C=C',
    # bicyclics
    'C1CC2CC12', 'C1CC2CCC1C2', 'C1CCC2CCCCC2C1',
    # long chains (indices >= 8 and >= 16)
    'CCCCCCCCC', 'CCCCCCCCCCCCCCCCCC', 'C1CC1CCCCCC', 'C1C(CCCCCC)C1',
    # oxygenates
    'CC(=O)O', 'CC(=O)C', 'CCOCC', 'OCCO', 'CC(O)C', 'C=CC=O', 'COC=O',
    'OC(=O)C(=O)O', 'CC(=O)OC(C)=O', 'OO', 'COO',
    # alkynes
    'CC#CC', 'C#CC=C',
    # hydrogen itself (centre patterns whose centre atom is H)
    '[H][H]', '[H]',
    # one molecule / mixture reaching a correction name through two scheme entries
    r'C/C=C\CCC=C(C)C', 'CC(C)C(C)CCCCC(C)(C)CC', 'CCC(C)(C)C.CC(C)C(C)C',
    # radical centres next to substituted double bonds
    'CC([CH2])=CC', 'C[CH]C(C)=CC', 'CC([CH2])=C(C)C', '[CH2]C=CC', 'C=C([CH2])C',
    # remap source before / after a direct instance of the remap target
    'COCC', 'CCOC', 'CC=CCC', 'CCC=CC', 'CC(=O)CC', 'CCC(=O)C',
]
CURATED_FUSED = ['Cc1cccc2ccccc12', 'Oc1cccc2ccccc12', 'c1ccc2ccccc2c1',
                 'c1ccc2cc3ccccc3cc2c1', 'c1ccc2c(c1)ccc1ccccc12']
CURATED_SURFACE = [
    'C([Pt])C[Pt]', 'C(=O)([Pt])O', 'C([Pt])([Pt])C[Pt]', '[Pt]C([Pt])=O',
    'OC([Pt])C[Pt]', 'C([Pt])([Pt])([Pt])C', 'O([Pt])C', 'C(=O)([Pt])',
    '[Pt]OC([Pt])C', 'C([Pt])C(O)C[Pt]', 'OC(C([Pt])[Pt])C', 'O=C([Pt])C[Pt]',
    '[Pt]C(O)C(O)[Pt]', 'C([Pt])([Pt])=C([Pt])[Pt]', '[Pt]C#C[Pt]',
    'O[Pt]', '[H][Pt]', 'O=[Pt]', '[Pt]C([Pt])([Pt])[Pt]',
    # physisorbed species: '~' (unspecified / weak) bonds to the surface
    'O=C(=O)~[Pt]', 'C~[Pt]', 'O~[Pt]', 'CO~[Pt]', 'C=C~[Pt]',
]
CURATED_RU = [s.replace('Pt', 'Ru') for s in CURATED_SURFACE] + [
    'C([Ru])C([Ru])O', 'OC(O)C([Ru])([Ru])', 'CC(=O)O[Ru]']
OUTSIDE_VOCAB = ['CCl', 'CS', 'c1ccncc1', 'C[Si](C)(C)C', 'CF', 'CP', 'C[Na]',
                 'CN', 'C#N', 'N', '[He]']


def canon(smi):
    m = Chem.MolFromSmiles(smi)
    return None if m is None else Chem.MolToSmiles(m)


# --------------------------------------------------------------------
# Order-controlling SMILES writer: emits the heavy atoms in any prescribed
# order as dot-separated bracket atoms with ring-closure numbers for bonds.

_SYM = {Chem.BondType.SINGLE: '-', Chem.BondType.DOUBLE: '=',
        Chem.BondType.TRIPLE: '#', Chem.BondType.AROMATIC: ':',
        Chem.BondType.UNSPECIFIED: '~', Chem.BondType.DATIVE: '->'}


def writer(mol, order, aromatic=False):
    """`mol`: H-suppressed molecule (Kekulised unless aromatic=True).  `order`:
    a permutation of its atom indices.  No stereo marks are written."""
    pos = {a: i for i, a in enumerate(order)}
    num = {b.GetIdx(): k + 10 for k, b in enumerate(mol.GetBonds())}
    parts = []
    for a in order:
        at = mol.GetAtomWithIdx(a)
        h = at.GetTotalNumHs()
        sym = at.GetSymbol()
        if aromatic and at.GetIsAromatic():
            sym = sym.lower()
        s = '[' + sym + ('H%d' % h if h > 1 else 'H' if h == 1 else '')
        q = at.GetFormalCharge()
        if q:
            s += ('+' if q > 0 else '-') + (str(abs(q)) if abs(q) > 1 else '')
        s += ']'
        for b in at.GetBonds():
            o = b.GetOtherAtomIdx(a)
            s += (_SYM[b.GetBondType()] if pos[a] < pos[o] else '') + '%' + str(num[b.GetIdx()])
        parts.append(s)
    return '.'.join(parts)


def has_stereo(mol):
    return any(b.GetStereo() != Chem.BondStereo.STEREONONE for b in mol.GetBonds()) \
        or any(a.GetChiralTag() != Chem.ChiralType.CHI_UNSPECIFIED for a in mol.GetAtoms())


def heavy_count(smi):
    return Chem.MolFromSmiles(smi).GetNumAtoms()
