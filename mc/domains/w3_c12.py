"""Third-wave domains for C12 (unit space, prefixes, number spellings).

Everything here is derived from the reference unit model mc/models/unitsref.py
(written from the SI / customary definitions); nothing imports pgradd.

* energy_exprs(): EVERY unit expression with at most two names of the
  reference table that has the dimension of energy: a single name, `a b`,
  `a/b`, `a b^2`, `a b^3` over all ordered pairs (a, b) of the 33 table names.
* PREFIXES: all 20 SI prefixes of the reference model (y ... Y, incl. da, h),
  put on the energy unit (J, cal), on the amount (mol) and on the kelvin.
* yaml_float / positional: how a number is spelled.  A bare number in a data
  file is a YAML float (PyYAML's YAML-1.1 float needs a '.' in the mantissa and
  a signed exponent, which repr() gives except for a one-digit mantissa); a
  number inside a "<number> <unit>" string is written positionally because the
  documented unit grammar has no e/E exponents.  For 1e-4 <= |x| < 1e16 both
  are identical to repr(float(x)).
"""
from decimal import Decimal

from ..models import unitsref as U

ENERGY = U.TABLE['J'][1]
E_PER_MOL = U.evaluate('J/mol')[1]
E_PER_MOL_K = U.evaluate('J/(mol K)')[1]
KELVIN = U.TABLE['K'][1]

# names whose definition contains a measured or rounded constant: the
# implementation may carry another vintage / rounding of it (CODATA eV and
# Avogadro number; lbf written with 9 digits; psi and hp derive from lbf)
INEXACT = ('eV', 'molecule', 'lbf', 'psi', 'hp', 'u')

FORMS = ('%s %s', '%s/%s', '%s %s^2', '%s %s^3')


def energy_exprs():
    names = sorted(U.TABLE)
    out = [a for a in names if U.TABLE[a][1] == ENERGY]
    for a in names:
        for b in names:
            for form in FORMS:
                t = form % (a, b)
                try:
                    v = U.evaluate(t)
                except (U.RefParseError, U.RefUnsupported):
                    continue
                if v[1] == ENERGY:
                    out.append(t)
    return out


PREFIXES = sorted(U.PREFIX, key=lambda p: U.PREFIX[p])
PREFIX_POSITIONS = ('J', 'cal', 'mol', 'K')


def triple(E, amount='mol', kelvin='K'):
    """(molar enthalpy, molar entropy, molar heat capacity) units made of
    the energy expression E."""
    return ('%s/%s' % (E, amount), '%s/(%s %s)' % (E, amount, kelvin),
            '%s/(%s*%s)' % (E, amount, kelvin))


def prefix_units(pos, p):
    """-> (uH, uS, uC, uT) with prefix p at position pos."""
    if pos in ('J', 'cal'):
        return triple(p + pos) + ('K',)
    if pos == 'mol':
        return triple('J', amount=p + 'mol')[:2] + (triple('cal', amount=p + 'mol')[2], 'K')
    if pos == 'K':
        return ('J/mol', 'J/(mol %sK)' % p, 'cal/(mol*%sK)' % p, p + 'K')
    raise ValueError(pos)


def si_factor(unit, dims):
    """SI magnitude of one `unit`, by the reference model; the dimension
    must be `dims` (else the harness itself is wrong)."""
    m, e = U.evaluate(unit)
    if e != dims:
        raise AssertionError('harness: %r has dimension %r, wanted %r' % (unit, e, dims))
    return m


def inexact(unit):
    toks = U.tokenize(unit)
    for t in toks:
        if not t.isalpha():
            continue
        for n in INEXACT:
            if t == n or (t.endswith(n) and t[:-len(n)] in U.PREFIX and t not in U.TABLE):
                return True
    return False


def yaml_float(x):
    """Spelling of a bare number that PyYAML (YAML 1.1) reads as a float."""
    s = repr(float(x))
    if 'e' in s:
        m, e = s.split('e')
        if '.' not in m:
            m += '.0'
        if e[0] not in '+-':
            e = '+' + e
        s = m + 'e' + e
    return s


def positional(x):
    """Spelling of a number inside a '<number> <unit>' string: the shortest
    round-trip digits of the float, without exponent."""
    s = repr(float(x))
    if 'e' not in s and 'n' not in s:
        return s
    return format(Decimal(s), 'f')
