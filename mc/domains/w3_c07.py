"""Third-wave alphabets for C07 (DESIGN.md 10.9): how the *arguments* of the
getters may be presented, and in which order one library object is asked to
decompose molecules before the elemental clause is evaluated.

Nothing here computes an expected value; these are only enumerated inputs.
"""
import itertools
import math


# ------------------------------------------------- S_elements presentations
# The switch "relative to the elements" is a truth value.  A caller may hold it
# as a Python bool, as 0/1, or as what comes out of a numpy mask/array.

def truthy_flags():
    """[(label, value)] - every one of these requests the elemental reference.
    The first entry is the singleton True (the case enumerated before)."""
    import numpy as np
    return [('True', True), ('int-1', 1), ('float-1.0', 1.0),
            ('np.True_', np.True_), ('np.int64-1', np.int64(1)),
            ('np.array(True)', np.array(True))]


def falsy_flags():
    """[(label, value)] - none of these requests it.  None and False are the
    cases enumerated before."""
    import numpy as np
    return [('None', None), ('False', False), ('int-0', 0), ('float-0.0', 0.0),
            ('np.False_', np.False_), ('np.int64-0', np.int64(0)),
            ('np.array(False)', np.array(False))]


# ------------------------------------------------- temperature presentations
# units on which every presentation of T is tried: the trivial one, a molar
# customary one, a per-molecule one
UNITS_T = ['J/mol', 'kcal/mol', 'eV']


def temperature_presentations(temps):
    """All ways the grid `temps` (sorted python floats inside the common
    range) is handed to a getter other than as one python float:

      scalar-like (each on the first grid temperature): numpy float64, 0-d
      array, 1-element array, python int (first integral grid temperature);
      arrays: the whole grid (float64), the grid in descending order, the
      grid as a column (n,1), the grid with its first point repeated, an
      integer-dtype array of the integral points ceil(lo), floor(hi).

    -> [(label, T)]
    """
    import numpy as np
    out = []
    if not temps:
        return out
    t0 = temps[0]
    out.append(('np.float64', np.float64(t0)))
    out.append(('0-d array', np.array(t0)))
    out.append(('1-element array', np.array([t0])))
    ints = [t for t in temps if float(t).is_integer()]
    if ints:
        out.append(('python int', int(ints[0])))
    out.append(('grid array', np.array(temps, dtype=float)))
    if len(temps) > 1:
        out.append(('grid array, descending', np.array(temps[::-1], dtype=float)))
    out.append(('grid array, column', np.array(temps, dtype=float).reshape(-1, 1)))
    out.append(('grid array, first point twice', np.array([t0] + list(temps), dtype=float)))
    lo, hi = int(math.ceil(temps[0])), int(math.floor(temps[-1]))
    if lo <= hi:
        out.append(('integer array', np.array(sorted({lo, hi}), dtype=int)))
    return out


# ------------------------------------------------- decomposition histories
# letters: ('s', SMILES) = GetDescriptors(SMILES string),
#          ('m', SMILES) = GetDescriptors(molecule object made from SMILES).
# Per library: three different molecules (different elemental sums), a second
# spelling of one of them, and one of them as a molecule object.
HIST_LETTERS = {
    'BensonGA': [('s', 'CC'), ('s', 'CCO'), ('s', 'C=CC'),
                 ('s', 'OCC'), ('m', 'CC')],
    'GRWSurface2018': [('s', 'CC'), ('s', 'CCO'), ('s', 'C[CH2][Pt]'),
                       ('s', 'OCC'), ('m', 'CC')],
    'XieGA2022': [('s', 'CC'), ('s', 'CCC'), ('s', 'C[CH2][Ru]'),
                  ('s', 'C(C)C'), ('m', 'CC')],
}
HIST_LEN = {'quick': (3,), 'thorough': (3, 4)}


def histories(name, first, length):
    """Every sequence of `length` letters of the library's alphabet whose
    first letter has index `first`, in lexicographic order."""
    letters = HIST_LETTERS[name]
    for rest in itertools.product(range(len(letters)), repeat=length - 1):
        yield [list(letters[i]) for i in (first,) + rest]
