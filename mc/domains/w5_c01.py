"""Fifth-wave domains for C01.

Three families (all enumerated exhaustively, nothing is sampled; nothing in
here computes an expected value - the oracles live in props/c01.py and sum
over the constituents' own correlation objects, evaluated one by one):

* how the temperature is PRESENTED.  "At any temperature" was, so far, one
  python float at a time.  The getters of a correlation also accept numpy
  scalars and arrays of any shape (Cp/R of a table is evaluated by a spline
  that maps over arrays), and the estimate of a mapping must then be the
  count-weighted sum element by element, in the shape the constituents give:
  scalar-likes (python int, numpy float64, 0-d and 1-element arrays; NOT
  float32, whose single-precision answers cannot be held to 1e-9), 1-D arrays, every 2-D shape (a, b) with a, b <= 3 (so that
  the leading dimensions coincide with the number of terms of the mapping
  as well as differ from it), 3-D arrays, integer dtype, Fortran order,
  strided views, python lists / tuples;

* call histories on ONE estimate object.  An estimate is asked more than once:
  every sequence of <= 2 calls over the alphabet {Cp/R, H/RT, S/R, G/RT} x two
  temperatures x {switch absent, off, on (True), on (1)} (switch only for S/R
  and G/RT).  Every call that does not request the element correction is
  judged against the plain sum, whatever was asked before;

* how the constituents' RANGES relate.  A library with one descriptor per
  closed interval [a, b], a <= b, over the four temperatures 200, 300, 400,
  500 K (ten intervals, four of them single points) and one without a range,
  each in two data shapes (with a heat-capacity table inside the interval /
  reference values only): every ordered pair of descriptors realises every
  relation two intervals can have (disjoint, touching in one point, properly
  overlapping, sharing an end, nested, equal, no range at all).
"""
import itertools
import math
import os

from . import estimates as E

# ------------------------------------------------ temperature presentations

SHAPES_2D = [(1, 1), (1, 2), (1, 3), (2, 1), (2, 2), (2, 3), (3, 1), (3, 2),
             (3, 3)]
SHAPES_3D = [(2, 1, 2), (1, 2, 3), (2, 3, 3)]


def _fill(temps, n):
    return [temps[i % len(temps)] for i in range(n)]


def temperature_presentations(temps):
    """[(label, T)] for the sorted python floats `temps` (grid inside the
    common range, never empty).  Arrays are filled by cycling through the
    grid, so every element is a grid temperature."""
    import numpy as np
    out = []
    mid = temps[len(temps) // 2]
    ints = [t for t in temps if float(t).is_integer()]
    if ints:
        out.append(('python int', int(ints[len(ints) // 2])))
    out.append(('np.float64', np.float64(mid)))
    out.append(('0-d array', np.array(mid)))
    out.append(('1-element array', np.array([mid])))
    out.append(('list of 2', _fill(temps, 2)))
    out.append(('tuple of 2', tuple(_fill(temps, 2))))
    for n in (2, 3):
        out.append(('1-D array of %d' % n, np.array(_fill(temps, n), dtype=float)))
    out.append(('1-D array of 3, reversed',
                np.array(_fill(temps, 3)[::-1], dtype=float)))
    for shp in SHAPES_2D:
        n = shp[0] * shp[1]
        out.append(('2-D array %dx%d' % shp,
                    np.array(_fill(temps, n), dtype=float).reshape(shp)))
    for shp in SHAPES_3D:
        n = shp[0] * shp[1] * shp[2]
        out.append(('3-D array %dx%dx%d' % shp,
                    np.array(_fill(temps, n), dtype=float).reshape(shp)))
    out.append(('2-D array 2x3, Fortran order',
                np.asfortranarray(np.array(_fill(temps, 6),
                                           dtype=float).reshape(2, 3))))
    out.append(('2-D array 3x2, transposed view',
                np.array(_fill(temps, 6), dtype=float).reshape(2, 3).T))
    out.append(('1-D strided view of 3',
                np.array(_fill(temps, 6), dtype=float)[::2]))
    lo, hi = int(math.ceil(temps[0])), int(math.floor(temps[-1]))
    if lo <= hi:
        pts = [lo, hi]
        out.append(('integer 1-D array', np.array(pts, dtype=int)))
        out.append(('integer 2-D array 2x2',
                    np.array(_fill(pts, 4), dtype=int).reshape(2, 2)))
    return out


def describe_T(T):
    import numpy as np
    if isinstance(T, np.ndarray):
        return 'array%s%s' % (T.dtype, T.tolist())
    return '%s(%r)' % (type(T).__name__, T)


# ----------------------------------------- call histories on ONE estimate

GETTERS = ['get_CpoR', 'get_HoRT', 'get_SoR', 'get_GoRT']
SWITCHED = ['get_SoR', 'get_GoRT']
SWITCHES = ['absent', 'off', 'on', 'on-int']
SWITCH_VALUE = {'off': False, 'on': True, 'on-int': 1}
# molecules offered to every library; the first CALL_MOLS[tier] of them that
# the library decomposes into descriptors which all have data are used
CALL_MOLECULES = ['CC', 'CCO', 'CCC', 'C=CC', 'C[CH2][Pt]', 'C[CH2][Ru]']
CALL_MOLS = {'quick': 1, 'thorough': 2}
CALL_LEN = {'quick': 2, 'thorough': 2}
CALL_LEN_ONE_T = {'quick': 0, 'thorough': 3}


def call_letters(n_temps=2):
    """[(getter, temperature index, switch)]: 2 x n + 2 x n x 4 letters."""
    out = []
    for g in GETTERS:
        for ti in range(n_temps):
            for s in (SWITCHES if g in SWITCHED else ['absent']):
                out.append((g, ti, s))
    return out


def call_sequences(tier):
    """Every sequence of 1..CALL_LEN letters over the 20-letter alphabet
    (two temperatures); thorough adds every sequence of exactly 3 letters
    over the 10-letter alphabet of ONE temperature."""
    letters = call_letters(2)
    for n in range(1, CALL_LEN[tier] + 1):
        for seq in itertools.product(letters, repeat=n):
            yield [list(x) for x in seq]
    n1 = CALL_LEN_ONE_T[tier]
    if n1:
        for seq in itertools.product(call_letters(1), repeat=n1):
            yield [list(x) for x in seq]


def do_call(obj, getter, T, switch):
    if switch == 'absent':
        return getattr(obj, getter)(T)
    return getattr(obj, getter)(T, S_elements=SWITCH_VALUE[switch])


def call_subjects(lib, tier):
    """What is estimated: [('fresh', [[name, count], ...])] - the first two
    data-shape representatives (one if there is only one) on a library that
    has decomposed nothing, so that a request for the element correction
    FAILS - and [('mol', smiles)] for molecules the library decomposes, whose
    estimates can honour that request."""
    reps = [str(g) for g in E.class_reps(lib)]
    out = [('fresh', [[g, c] for g, c in zip(reps[:2], (2, 0.5))])]
    n = 0
    for smi in CALL_MOLECULES:
        r = E.ev(lib.GetDescriptors, smi)
        if r[0] != 'ok' or not r[1]:
            continue
        if all('thermochem' in lib[g] for g in r[1]):
            out.append(('mol', smi))
            n += 1
            if n == CALL_MOLS[tier]:
                break
    return out


# --------------------------------------------------- relations of ranges

POINTS = [200.0, 300.0, 400.0, 500.0]
INTERVALS = [(a, b) for a in POINTS for b in POINTS if a <= b] + [None]
RANGE_ROUTES = ['ctor', 'yaml']
RANGE_LIBS = ['w5ranges:' + r for r in RANGE_ROUTES]


def range_descriptors():
    """[(name, spec)], spec = dict(H, S, cp, T_ref, range).  Shape 'cp': a
    heat-capacity table whose knots (and T_ref) lie inside the interval;
    shape 'ref': reference values only (any T_ref is allowed then)."""
    out = []
    for i, iv in enumerate(INTERVALS):
        if iv is None:
            tag, knots, tref = 'none', [250.0, 350.0, 450.0], 298.15
        else:
            a, b = iv
            tag = '%d_%d' % (a, b)
            knots = sorted({a, 0.5 * (a + b), b})
            tref = a if i % 2 == 0 else b
        cp = dict((t, 2.0 + 0.25 * i + 0.5 * j) for j, t in enumerate(knots))
        out.append(('cp' + tag, dict(H=-5.0 + 1.75 * i, S=10.0 - 0.5 * i,
                                     cp=cp, T_ref=tref, range=iv)))
        out.append(('ref' + tag, dict(H=3.5 - 1.25 * i, S=-4.0 + 0.75 * i,
                                      cp={}, T_ref=298.15, range=iv)))
    return out


def range_names():
    return [n for n, _ in range_descriptors()]


def _range_yaml(descs):
    lines = ['other_descriptors:']
    for name, s in descs:
        lines.append('  %s:' % name)
        lines.append('    thermochem:')
        lines.append('      T_ref: %r K' % s['T_ref'])
        lines.append('      ND_H_ref: %r' % s['H'])
        lines.append('      ND_S_ref: %r' % s['S'])
        if s['cp']:
            lines.append('      ND_Cp_data: [%s]' % ', '.join(
                '[%r K, %r]' % (t, v) for t, v in sorted(s['cp'].items())))
        if s['range'] is not None:
            lines.append('      range: [%r K, %r K]' % tuple(s['range']))
    return '\n'.join(lines) + '\n'


def _load_yaml(descs):
    import shutil
    import tempfile
    import pgradd.ThermoChem    # noqa
    from pgradd.GroupAdd.Library import GroupLibrary
    d = tempfile.mkdtemp(prefix='pgv_w5r_')
    try:
        with open(os.path.join(d, 'scheme.yaml'), 'w') as f:
            f.write(E.SCHEME)
        p = os.path.join(d, 'library.yaml')
        with open(p, 'w') as f:
            f.write(_range_yaml(descs))
        return GroupLibrary.Load(p)
    finally:
        shutil.rmtree(d, ignore_errors=True)


def range_library(name):
    """-> (library, [names of descriptors in it], [notes]).

    'ctor': every correlation made with ThermochemGroup(...) and handed to
    GroupLibrary(None, {...}); a correlation the constructor refuses is left
    out (no library can hold it, so the property's premise cannot be set up)
    and noted.  'yaml': the same data written as a library file and read by
    GroupLibrary.Load; if the file is refused as a whole, the file without
    the single-point ranges is tried, and noted."""
    import pgradd.ThermoChem    # noqa
    from pgradd.ThermoChem import ThermochemGroup
    from pgradd.GroupAdd.Library import GroupLibrary
    route = name.split(':', 1)[1]
    descs = range_descriptors()
    notes = []
    if route == 'ctor':
        items = {}
        for n, s in descs:
            r = E.ev(ThermochemGroup, s['H'], s['S'], dict(s['cp']),
                     s['T_ref'], s['range'])
            if r[0] == 'ok':
                items[n] = {'thermochem': r[1]}
            else:
                notes.append('[%s] ThermochemGroup(range=%r) raised %s: '
                             'descriptor %s left out' % (name, s['range'],
                                                         r[1], n))
        return GroupLibrary(None, items), list(items), notes
    r = E.ev(_load_yaml, descs)
    if r[0] != 'ok':
        notes.append('[%s] Load of the file with all %d descriptors raised '
                     '%s: loaded without the single-point ranges'
                     % (name, len(descs), r[1]))
        descs = [(n, s) for n, s in descs
                 if s['range'] is None or s['range'][0] < s['range'][1]]
        r = ('ok', _load_yaml(descs))
    lib = r[1]
    return lib, [n for n, _ in descs], notes


def range_mappings(names, part=None):
    """Units (count 2); every ordered pair of different descriptors, counts
    (2, 0.5); every unordered triple of the table-carrying descriptors in
    the order written and reversed, counts (1, 2, 0.5)."""
    for n in names:
        yield 'range-unit', [(n, 2)]
    for a, b in itertools.permutations(names, 2):
        yield 'range-pair', [(a, 2), (b, 0.5)]
    cps = [n for n in names if n.startswith('cp')]
    for t in itertools.combinations(cps, 3):
        yield 'range-triple', list(zip(t, (1, 2, 0.5)))
        yield 'range-triple', list(zip(t[::-1], (1, 2, 0.5)))
