"""Third-wave domains for C05: the YAML construction path and a wider
reference-value alphabet.

Every shipped correlation reaches the user through `yaml_io` (a group entry
of a library file), never through the constructor the first two waves
enumerated.  This module writes a member of the correlation family K as the
YAML text of such an entry, in the non-dimensional form (`ND_H_ref`,
`ND_S_ref`, `ND_Cp_data`; H/RT, S/R and Cp/R are what the property speaks
about, so no gas constant enters), and has it read back by the class under
test.  Nothing here computes an expected value.

Alphabets
  HREF, SREF   reference values: zero, negative zero, the tiny 1e-300, one
               ordinary value of the K family and the large 1e6; all 25
               pairs are used
               (1e300 is not used: S/R + integral is then absorbed by the
               floating-point sum and no implementation could satisfy the
               integral relation).
  SPELLINGS    how a dimensionless number is written in the text:
               'repr'  Python repr (0.0, -0.0, 1e-300, -12.5, 1000000.0) -
                       what yaml_format writes;
               'int'   integral values without a decimal point (0, -0, 2,
                       1000000), the others as repr - what a person types;
               'exp'   C-style %.17e (0.00000000000000000e+00) - what a
                       fitting script prints.  All three denote the same
                       double exactly (up to the sign of zero for 'int').
  TAGS         the three classes that can be named in a library file.
"""

HREF = [0.0, -0.0, 1e-300, -12.5, 1e6]
SREF = [0.0, -0.0, 1e-300, 31.25, 1e6]
SPELLINGS = ['repr', 'int', 'exp']
TAGS = {'RawData': '!ThermochemRawData',
        'Incomplete': '!ThermochemIncomplete',
        'Group': '!ThermochemGroup'}
T_REF_DEFAULT = 298.15      # the schema's default when the text has no T_ref


def spell(x, how):
    x = float(x)
    if how == 'int' and x == int(x) and abs(x) < 1e15:
        return ('-%d' if (x == 0 and str(x).startswith('-')) else '%d') % int(x)
    if how == 'exp':
        return '%.17e' % x
    return repr(x)


def yaml_text(H, S, Ts, Cps, Tref, rng, how='repr', order=None,
              omit_tref=False):
    """The entry as it would stand in a library file (block style)."""
    order = list(range(len(Ts))) if order is None else order
    L = []
    if not omit_tref:
        L.append('T_ref: %r K' % float(Tref))
    L.append('ND_H_ref: %s' % spell(H, how))
    L.append('ND_S_ref: %s' % spell(S, how))
    L.append('ND_Cp_data:')
    for i in order:
        L.append('    - [%r K, %s]' % (float(Ts[i]), spell(Cps[i], how)))
    if rng is not None:
        L.append('range: [%r K, %r K]' % (float(rng[0]), float(rng[1])))
    return '\n'.join(L) + '\n'


def yaml_load(cls_name, text):
    from pgradd import yaml_io
    return yaml_io.load(yaml_io.parse(text), {'units': {}},
                        tag=TAGS[cls_name])


def ref_pairs():
    return [(h, s) for h in HREF for s in SREF]
