"""Fourth-wave domain for C05: a correlation assembled - or refused - by
update() calls on ONE live object.

Until now every correlation the check judged was made in one go (constructor,
YAML text) or by the single accepted sequence "table, then H, then S".  A
ThermochemIncomplete / ThermochemGroup is a long-lived object: libraries merge
further pieces into it with update(other, overwrite), and update() REFUSES a
piece (ReadOnlyDataError) that contradicts what the object holds.  The data
the property speaks about ("its heat-capacity table and pair of reference
values") are then: what the object was built with, plus every accepted piece,
and nothing of a refused one.  This module states that as a dictionary model
and enumerates the pieces; it imports nothing from pgradd and computes no
thermodynamic value.

Alphabets (temperatures relative to the receiver's table Ts, values Cps)
  CP_PART   which Cp points a piece brings, in dict insertion order:
              none         -
              same         {Ts[0]: Cps[0]}                 an equal point
              other        {Ts[0]: Cps[0]+0.75}            a contradicting point
              above        {Ts[-1]+100: 2.5}               new point above the table
              below        {Ts[0]-100: 1.25}               new point below the table
              inside       {Ts[0]+40: 3.5}                 new point behind the first knot
              above+other  new point first, contradiction second
              other+above  contradiction first, new point second
  H_PART    none / A = -12.5 / B = -11.5   (the receiver holds A or nothing)
  S_PART    none / A = 31.25 / B = 30.0
  OVERWRITE False / True
  pieces()  the full product minus the two pieces (overwrite False / True)
            that bring nothing: 142
  pieces2() the sub-alphabet for longer histories: CP_PART {none, other,
            above, above+other} x H_PART x {no S} x OVERWRITE minus the two empty
            pieces: 22
  RECV_HS   the receiver's reference values: (A, A), (A, -), (-, A), (-, -)

All pieces carry the receiver's T_ref and range (two reference temperatures
and range unions are C13 / C06).
"""
import itertools

HA, HB = -12.5, -11.5
SA, SB = 31.25, 30.0
RECV_HS = [(HA, SA), (HA, None), (None, SA), (None, None)]
H_PART = {'none': None, 'A': HA, 'B': HB}
S_PART = {'none': None, 'A': SA, 'B': SB}
CP_PART = ['none', 'same', 'other', 'above', 'below', 'inside', 'above+other',
           'other+above']
CP_PART2 = ['none', 'other', 'above', 'above+other']
OVERWRITE = [False, True]

V_OTHER, V_ABOVE, V_BELOW, V_INSIDE = 0.75, 2.5, 1.25, 3.5


def cp_points(name, Ts, Cps):
    """[(T, Cp/R)] in the order the piece's dict is filled."""
    one = {'same': (Ts[0], Cps[0]),
           'other': (Ts[0], Cps[0] + V_OTHER),
           'above': (Ts[-1] + 100.0, V_ABOVE),
           'below': (Ts[0] - 100.0, V_BELOW),
           'inside': (Ts[0] + 40.0, V_INSIDE)}
    if name == 'none':
        return []
    return [one[p] for p in name.split('+')]


def candidate_temperatures(Ts):
    """Every temperature some piece can bring (for has_ND_Cp questions and
    for the comparison grid)."""
    return sorted(set(list(Ts) + [Ts[-1] + 100.0, Ts[0] - 100.0, Ts[0] + 40.0]))


def _pieces(cps, hs, ss):
    out = []
    for cp, h, s, ow in itertools.product(cps, hs, ss, OVERWRITE):
        if cp == 'none' and h == 'none' and s == 'none':
            continue
        out.append(dict(cp=cp, h=h, s=s, ow=ow))
    return out


def pieces():
    return _pieces(CP_PART, ['none', 'A', 'B'], ['none', 'A', 'B'])


def pieces2():
    return _pieces(CP_PART2, ['none', 'A', 'B'], ['none'])


class Model(object):
    """What the correlation's data are after a history of update() calls:
    a dictionary union in which a piece is refused as a whole when - without
    overwrite - it contradicts a held Cp point or reference value."""

    def __init__(self, Ts, Cps, H, S):
        self.Ts0, self.Cps0 = list(Ts), list(Cps)
        self.table = dict(zip(Ts, Cps))
        self.h, self.s = H, S

    def step(self, piece):
        pts = cp_points(piece['cp'], self.Ts0, self.Cps0)
        h, s = H_PART[piece['h']], S_PART[piece['s']]
        if not piece['ow']:
            clash = any(T in self.table and self.table[T] != v for T, v in pts)
            clash = clash or (h is not None and self.h is not None and h != self.h)
            clash = clash or (s is not None and self.s is not None and s != self.s)
            if clash:
                return 'refused'
        for T, v in pts:
            self.table[T] = v
        if h is not None:
            self.h = h
        if s is not None:
            self.s = s
        return 'accepted'

    def data(self):
        Ts = sorted(self.table)
        return Ts, [self.table[T] for T in Ts], self.h, self.s
