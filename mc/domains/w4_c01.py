"""Fourth-wave domains for C01.

Two families (both enumerated exhaustively, nothing is sampled; nothing in
here computes an expected value - the oracles live in props/c01.py and sum
over correlation objects the harness holds, evaluated one by one):

* the optional switch of get_SoR / get_GoRT.  The statement's S/R and G/RT
  are the plain count-weighted sums, i.e. the values with the element
  correction NOT requested.  A caller can say "not requested" in more ways
  than by leaving the argument out: every presentation of a false value x
  {positional, keyword} x {get_SoR, get_GoRT};

* several library objects in ONE process.  A library that is built by hand
  lives next to other library objects (the loaded one whose scheme it uses,
  a working library into which a shipped one is merged with Update(), ...).
  An estimate made on one object must be the sum over THAT object's
  correlations whatever was done to the others: every (source library, way
  the receiver of Update(source) was built, way the bystander was built,
  moment the bystander was built) is walked, with judged estimates on the
  bystander and on the receiver.
"""
import itertools

from . import estimates as E
from . import w3_c01 as W

# ------------------------------------------------- the switch, switched off

SWITCHED = ['get_SoR', 'get_GoRT']      # the getters that take S_elements
ROUTES = ['positional', 'keyword']


def off_switches():
    """[(label, value)]: every one of these says "no element correction".
    (Leaving the argument out is what the older families do.)"""
    import numpy as np
    return [('None', None), ('False', False), ('int 0', 0),
            ('float 0.0', 0.0), ('float -0.0', -0.0),
            ('np.False_', np.False_), ('np.int64(0)', np.int64(0)),
            ('np.float64(0.0)', np.float64(0.0)),
            ('np.array(False)', np.array(False)),
            ('np.array(0.0)', np.array(0.0))]


def call_switched(obj, getter, T, value, route):
    if route == 'positional':
        return getattr(obj, getter)(T, value)
    return getattr(obj, getter)(T, S_elements=value)


# -------------------------------------- several library objects, one process

# descriptors no shipped library (and no uncertainty basis) knows
B_GROUP = 'Q(Z)9'                   # a Group
B_CORR = 'w4 bystander correction'  # a plain Descriptor
A_GROUP = 'Q(Y)2(Z)'
A_CORR = 'w4 receiver correction'

# how the receiver of Update(source) came into being
RECEIVER_PATHS = ['bare',           # GroupLibrary(scheme)
                  'dict',           # GroupLibrary(scheme, {own items})
                  'pairs',          # GroupLibrary(scheme, [(key, sets), ...])
                  'dict+own-uq']    # GroupLibrary(scheme, {own items}, {})
# how the bystander came into being
BYSTANDER_PATHS = ['dict', 'pairs', 'dict+own-uq',
                   'bare+update']   # GroupLibrary(scheme).Update(hand-made)
# when: before the receiver exists / between its construction and its
# Update(source) / after the Update
MOMENTS = ['first', 'between', 'last']


def process_histories():
    """Every (receiver path, bystander path, moment): 4 x 4 x 3 = 48."""
    return [list(h) for h in itertools.product(RECEIVER_PATHS,
                                               BYSTANDER_PATHS, MOMENTS)]


def _key(scheme, d):
    from pgradd.GroupAdd.Group import Group, Descriptor
    if d in (B_CORR, A_CORR):
        return Descriptor(scheme, d)
    return Group.parse(scheme, d)


def own_correlations():
    """Fresh correlation objects for the hand-made descriptors: different
    data, table sizes and ranges."""
    return {B_GROUP: W._tg(-10.0, 20.0, dict(W.CP4B), 298.15, (200.0, 1200.0)),
            B_CORR: W._tg(1.25, -0.5, {300.0: 1.5}, 298.15, (250.0, 1500.0)),
            A_GROUP: W._tg(7.5, -3.25, dict(W.CP4), 298.15, (220.0, 1100.0)),
            A_CORR: W._tg(-0.75, 2.5, {400.0: 0.5, 700.0: 1.0}, 298.15,
                          (210.0, 1300.0))}


def build(scheme, path, items):
    """A library made without Load.  items: [(key object, correlation)]."""
    import pgradd.ThermoChem    # noqa
    from pgradd.GroupAdd.Library import GroupLibrary
    pairs = [(k, {'thermochem': c}) for k, c in items]
    if path == 'bare':
        return GroupLibrary(scheme)
    if path == 'dict':
        return GroupLibrary(scheme, dict(pairs))
    if path == 'pairs':
        return GroupLibrary(scheme, pairs)
    if path == 'dict+own-uq':
        return GroupLibrary(scheme, dict(pairs), {})
    if path == 'bare+update':
        lib = GroupLibrary(scheme)
        lib.Update(GroupLibrary(scheme, dict(pairs)))
        return lib
    raise ValueError(path)


def bystander_items(source, g1obj, corr):
    """Two descriptors of its own and one group of the source library (named
    in the source's uncertainty basis, if it has one) carrying the source's
    own correlation object."""
    return [(_key(source.scheme, B_GROUP), corr[B_GROUP]),
            (_key(source.scheme, B_CORR), corr[B_CORR]),
            (g1obj, source.contents[g1obj]['thermochem'])]


def receiver_items(source, path, corr):
    if path == 'bare':
        return []
    return [(_key(source.scheme, A_GROUP), corr[A_GROUP]),
            (_key(source.scheme, A_CORR), corr[A_CORR])]


def bystander_mappings(g1):
    """Every non-empty subset of the bystander's three descriptors: 7."""
    items = [g1, B_GROUP, B_CORR]
    v = dict(zip(items, (2, 0.5, -1)))
    for r in (1, 2, 3):
        for sub in itertools.combinations(items, r):
            yield [(x, v[x]) for x in sub]


def receiver_mappings(reps, own):
    """On the receiver after Update(source): every data-shape representative
    of the source alone, adjacent pairs of them, and - if the receiver has
    descriptors of its own that may be estimated (no uncertainty basis came
    with the source) - each of those alone, both, and both with the first
    representative."""
    for g in reps:
        yield [(g, 2)]
    for a, b in zip(reps, reps[1:]):
        yield [(a, 2), (b, 0.5)]
    if own:
        for d in own:
            yield [(d, 3.0)]
        yield [(own[0], 1), (own[1], -1)]
        yield [(reps[0], 0.217), (own[1], 2), (own[0], 0.5)]
