"""Domains added to C15 after the fifth wave of seeded changes (pure data and a
pure-Python model: no import of pgradd here).

Two families, each enumerated exhaustively within its bound by
mc/props/c15.py:

* edit - edit programs: next to two loaded libraries a receiver made with the
         constructor (the world of the merge programs); k Updates (target <-
         source, overwrite) followed by ONE in-place edit of the correlation a
         library holds for a group, made by the caller through each public
         mutation route of the correlation object.  An edit of one library's
         correlation is an operation on THAT library object: every other
         object must be left as it was, and the loaded libraries that were
         neither a target nor edited must still equal a fresh load and
         estimate as in a fresh process.
* env  - environment programs: the variable pgradd_DATA_DIR is set to each
         of 7 values (unset; empty; the bundled directory; a byte-identical
         relocated copy; a directory that does not exist; a regular file; an
         existing directory without libraries) before each load of a shipped
         library by name; all sequences of (value, library) steps, each
         sequence in a process of its own that has only imported the package.
"""

# ------------------------------------------------------------ edit

EDIT_GROUPS = ['C(C)(H)3', 'C(C)2(H)2']      # the two groups of propane
T_ABSENT = 400.0        # no synthetic library has a heat capacity point here
T_NEW, CP_NEW = 500.0, 3.5
RANGE_WIDE = (200.0, 1500.0)
# one letter per in-place mutation route of a ThermochemIncomplete
EDIT_OPS = [
    'del_cp_first',     # del_ND_Cp(T) at the lowest tabulated T (item deleted, refit)
    'del_cp_absent',    # del_ND_Cp(T) at a T that is not tabulated (refused)
    'del_cp_all',       # del_ND_Cp()
    'del_h',            # del_ND_H_ref()
    'del_s',            # del_ND_S_ref()
    'put_cp',           # ND_Cp_data[T] = value (the public mapping written directly)
    'widen',            # set_range(wider)
    'merge_in',         # update(correlation of the same group in the NEXT object, overwrite=True)
]
EDIT_UPDATES = {'quick': (1,), 'thorough': (1, 2)}     # numbers of Updates before the edit


def edit_events():
    """edit(object, group, route): 3 objects x 2 groups x 8 routes = 48."""
    return [[i, g, op] for i in (0, 1, 2) for g in EDIT_GROUPS for op in EDIT_OPS]


# ------------------------------------------------------------ env

ENVVAR = 'pgradd_DATA_DIR'
# value name -> what a fresh process finds behind it
ENV_KIND = {
    'unset': 'data',        # variable absent: the bundled directory
    'empty': 'data',        # variable set to '': treated as absent
    'bundled': 'data',      # the bundled directory, named explicitly
    'reloc': 'data',        # a byte-identical copy of the libraries elsewhere
    'missing': 'nodir',     # a path that does not exist
    'file': 'nodir',        # a regular file
    'hollow': 'hollow',     # an existing directory that holds no library
}
ENV_VALUES = ['unset', 'empty', 'bundled', 'reloc', 'missing', 'file', 'hollow']
ENV_LIBS = {'quick': ['XieGA2022'], 'thorough': ['XieGA2022', 'BensonGA']}
ENV_LIBS_ALL = ['XieGA2022', 'BensonGA']
ENV_MOL = 'CCC'
ENV_LEN = {'quick': 2, 'thorough': 2}
ENV_LEN3_LIBS = ['XieGA2022']      # thorough: also all 3-sequences over these


def env_steps(tier):
    return [[v, L] for v in ENV_VALUES for L in ENV_LIBS[tier]]


def env_plans(first, tier):
    """All sequences of ENV_LEN steps beginning with `first` (thorough: and
    all 3-sequences beginning with it over the libraries of ENV_LEN3_LIBS)."""
    import itertools
    steps = env_steps(tier)
    plans = [[list(first)] + [list(s) for s in rest]
             for rest in itertools.product(steps, repeat=ENV_LEN[tier] - 1)]
    if tier == 'thorough' and first[1] in ENV_LEN3_LIBS:
        sub = [s for s in steps if s[1] in ENV_LEN3_LIBS]
        plans += [[list(first)] + [list(s) for s in rest]
                  for rest in itertools.product(sub, repeat=2)]
    return plans


class EnvModel(object):
    """What the statement lets one expect of load number n of a process, as a
    function of the KINDS of the values in force at the loads so far.

    The package documents that the data directory is resolved once: the first
    value that names an existing directory is kept for the rest of the
    process.  The statement compares with a fresh process, which would
    resolve the value in force NOW.  Where the two agree the load must agree
    with both; where they differ (the variable was changed after an existing
    directory had been resolved) the outcome class is not judged - but a load
    that succeeds must still return the contents of a fresh load.

    Until an existing directory has been in force at a load, nothing can
    have been resolved: the load must be exactly what a fresh process started
    with the current value gives (outcome, exception type, contents)."""

    def __init__(self):
        self.settled = None       # value name of the first existing directory

    def expect(self, value):
        """-> (mode, reference value): mode 'as-fresh' (compare everything
        with the fresh process under `reference`), 'ok' / 'exc' (outcome
        class demanded) or 'unjudged' (class free); for every mode but
        'as-fresh' a successful load is compared with a fresh load under
        `reference`."""
        kind = ENV_KIND[value]
        if self.settled is None:
            return 'as-fresh', value
        fresh = 'ok' if kind == 'data' else 'exc'
        once = 'ok' if ENV_KIND[self.settled] == 'data' else 'exc'
        ref = value if kind == 'data' else self.settled
        return (fresh if fresh == once else 'unjudged'), ref

    def loaded(self, value):
        if self.settled is None and ENV_KIND[value] != 'nodir':
            self.settled = value
