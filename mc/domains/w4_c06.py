"""Fourth-wave alphabets for C06 (pure data + a dictionary model; imports
nothing from pgradd).

MIX  estimates over a PARTNER group and a LACKING group of one
   constructor-built library.  The lacking group misses the data for at least
   one property (no heat-capacity table; no H_ref; no S_ref; and combinations)
   and its declared range is placed in every way relative to the partner's:
   the same, cut above, cut below, cut on both sides, wider - and, for the
   shapes without a table (whose range need not contain T_ref or a table), no
   range at all, a range that excludes T_ref and the single point T_ref.  (A
   group WITH a table and without a declared range reports no range but
   enforces its table span; the statement does not say which of the two is
   its valid range, so that shape is not in the alphabet.)  The property a
   constituent has no data for is exactly the one an implementation is tempted
   to leave out of the sum; when that constituent is also the one that bounds
   the range, leaving it out answers outside the range without any signal.

   The expected range of an estimate (intersection of the declared ranges) and
   the has-data / no-heat-capacity facts are computed here from the
   descriptions alone.

PRE  (used by the SETRANGE family of the check) the temperature set of a
   set_range history: the union of the grids of every range the history goes
   through, so that a temperature probed after a call was also probed before
   it, on whichever side of the then-current range it fell.
"""
import itertools
import math

T_REF = 298.15

_W_TABLE = {300.0: 1.0, 400.0: 1.5, 500.0: 1.8, 600.0: 2.0, 800.0: 2.2,
            1000.0: 2.3}
_L_TABLE = {300.0: 1.5, 500.0: 2.5, 800.0: 3.0}

# partner groups: complete data (H, S, table) with three range shapes, and one
# complete-but-for-the-table group
PARTNERS = {
    'W': dict(H=-10.0, S=5.0, rng=(250.0, 1500.0), cp=dict(_W_TABLE)),
    'P': dict(H=-8.25, S=4.75, rng=(200.0, 1200.0), cp={300.0: 2.75}),
    'N': dict(H=-3.5, S=-6.25, rng=(290.0, 900.0),
              cp={300.0: 2.25, 400.0: 3.0, 500.0: 3.5, 600.0: 4.0}),
    'H0': dict(H=-17.5, S=15.25, rng=(250.0, 1500.0), cp={}),
}
PARTNER_NAMES = {'quick': ['W', 'P', 'H0'], 'thorough': ['W', 'P', 'H0', 'N']}

# lacking shapes: (name, H, S, table)
LACK = [('noCp', -4.5, 7.75, {}),
        ('noCp-noS', -4.5, None, {}),
        ('noCp-noH', None, 7.75, {}),
        ('noH', None, 7.75, _L_TABLE),
        ('noS', -4.5, None, _L_TABLE),
        ('CpOnly', None, None, _L_TABLE)]
LACK_NAMES = [x[0] for x in LACK]


def lack_shape(name):
    for n, H, S, cp in LACK:
        if n == name:
            return dict(H=H, S=S, cp=dict(cp))
    raise KeyError(name)


def placements(partner, lack):
    """[(name, range)] of the lacking group's declared range relative to the
    partner's.  A group with a table must keep T_ref and its table inside
    (the constructor refuses anything else; C06's K and Z families judge
    that), so the placements that would not are only given to table-less
    shapes; 'none' likewise (see the module docstring)."""
    lo, hi = PARTNERS[partner]['rng']
    cp = lack_shape(lack)['cp']
    cut = hi - 300.0 if not cp else max(hi - 300.0, max(cp) + 50.0)
    out = [('same', (lo, hi)),
           ('cut-above', (lo, cut)),
           ('cut-below', (lo + 5.0, hi)),
           ('cut-both', (lo + 5.0, cut)),
           ('wider', (lo - 100.0, hi + 500.0))]
    if not cp:
        out += [('none', None),
                ('excludes-Tref', (400.0, cut)),
                ('point-at-Tref', (T_REF, T_REF))]
    else:
        for _, r in out:
            assert r is None or (r[0] <= T_REF and r[1] >= max(cp)), (partner, lack, r)
    return out


CPAIRS = [(1, 1), (2, -1), (1, 0), (0, 1)]     # (partner count, lacking count)
ORDERS = ['partner-first', 'lacking-first']


def mix_cases(partner, lack):
    """Every (placement, counts, order) of one partner x one lacking shape."""
    for pname, rng in placements(partner, lack):
        for cp, cl in CPAIRS:
            for order in ORDERS:
                yield dict(partner=partner, lack=lack, placement=pname,
                           counts=[cp, cl], order=order)


def mix_triples(partner, lack):
    """(thorough) partner + the lacking shape twice, under two different
    placements: all ordered pairs of distinct placements, counts 1/2/0.5."""
    ps = placements(partner, lack)
    for (a, _), (b, _) in itertools.permutations(ps, 2):
        yield dict(partner=partner, lack=lack, placement=a, placement2=b,
                   counts=[1, 2, 0.5], order='partner-first')


def mix_groups(case):
    """-> [(group name, description, count)] in the order of the mapping.
    description = dict(H, S, cp, rng)."""
    pl = dict(placements(case['partner'], case['lack']))
    out = [('partner', dict(PARTNERS[case['partner']]), case['counts'][0])]
    d = lack_shape(case['lack'])
    d['rng'] = pl[case['placement']]
    lacking = [('lacking', d, case['counts'][1])]
    if 'placement2' in case:
        d2 = lack_shape(case['lack'])
        d2['rng'] = pl[case['placement2']]
        # a different number so that the two lacking groups are not equal
        if d2['H'] is not None:
            d2['H'] += 1.25
        if d2['S'] is not None:
            d2['S'] -= 0.5
        lacking.append(('lacking2', d2, case['counts'][2]))
    if case['order'] == 'lacking-first':
        return lacking + out
    return out + lacking


def model_range(descs):
    rs = [d['rng'] for d in descs if d['rng'] is not None]
    if not rs:
        return None
    return (max(r[0] for r in rs), min(r[1] for r in rs))


def model_has(descs, prop):
    if prop == 'get_CpoR':
        return all(bool(d['cp']) for d in descs)
    if prop == 'get_HoRT':
        return all(d['H'] is not None for d in descs)
    return all(d['S'] is not None for d in descs)


# ------------------------------------------------------------------ PRE

def grid_of(rng, knots, tref):
    """All temperatures the check's grid holds for one range (inside and
    outside; same construction as models/thermoref.temperature_grid, written
    out here so that this file stays free of imports)."""
    if rng is None:
        return []
    lo, hi = rng
    ts = {lo, hi, 0.5 * (lo + hi), tref}
    ks = sorted(k for k in knots if lo <= k <= hi)
    ts.update(knots)
    for a, b in zip(ks[:-1], ks[1:]):
        ts.add(0.5 * (a + b))
    ts.update([math.nextafter(lo, -math.inf), lo * (1 - 1e-6), lo - 100.0,
               0.0, -10.0, math.nextafter(hi, math.inf), hi * (1 + 1e-6),
               hi + 100.0])
    return sorted(ts)


def history_temperatures(ranges, knots, tref):
    """Union of the grids of all ranges of a history."""
    ts = set()
    for r in ranges:
        ts.update(grid_of(r, knots, tref))
    return sorted(ts)
