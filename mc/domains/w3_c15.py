"""Domains added to C15 after the third wave of seeded changes (pure data: no
import of pgradd here).

Three families, each enumerated exhaustively within its bound by
mc/props/c15.py:

* capacity   - molecules whose number of raw substructure matches straddles
               the matcher's cap (10000): n-alkanes of 416 (last below), 417
               (at the cap, still complete), 418 (first refused) and 430
               carbons, next to propane.
* refused    - caller-made descriptor mappings the library has to refuse (or
               accept) whatever came before: one entry of a good mapping
               perturbed at the first / last position.
* units      - libraries that state bare numbers through a `units:` block, in
               three different unit systems, next to libraries that write units
               on every number and the shipped BensonGA (kcal/mol block).
"""

# ------------------------------------------------------------ capacity

MATCH_CAP = 10000            # pgradd/RDkitWrapper/MolQuery.py (GetQueryMatches)
RAW_PER_SP3_CARBON = 24      # 4! orderings of the four neighbours (uniquify=False)
# 416*24 = 9984 < cap; 417*24 = 10008 >= cap (truncated, every carbon still
# matched once); 418*24: the last carbon loses all its matches
BIG_LENGTHS = (3, 416, 417, 418, 430)
BIG_MOLS = ['C' * n for n in BIG_LENGTHS]
BIG_LIB = 'BensonGA'

# ------------------------------------------------------------ refused

# a third synthetic library: uncertainty data whose basis does NOT contain
# every group that has data (C(H)4 is outside it)
SYN_U = """
groups:
  'C(C)(H)3': {thermochem: {T_ref: 298.15 K, ND_H_ref: -17.5, ND_S_ref: 15.25, ND_Cp_data: [[300 K, 3.0], [800 K, 5.0]], range: [250 K, 1000 K]}}
  'C(C)2(H)2': {thermochem: {T_ref: 298.15 K, ND_H_ref: -8.25, ND_S_ref: 4.75, ND_Cp_data: [[300 K, 2.75], [800 K, 4.0]], range: [250 K, 1000 K]}}
  'C(C)3(H)': {thermochem: {T_ref: 298.15 K, ND_H_ref: -3.5, ND_S_ref: -6.25, ND_Cp_data: [[300 K, 2.25], [800 K, 3.0]], range: [250 K, 1000 K]}}
  'C(H)4': {thermochem: {T_ref: 298.15 K, ND_H_ref: -30.25, ND_S_ref: 22.5, ND_Cp_data: [[300 K, 4.25], [800 K, 7.5]], range: [250 K, 1000 K]}}
UQ:
  RMSE: {thermochem: {T_ref: 298.15 K, ND_H_ref: -0.75, ND_S_ref: 0.5, ND_Cp_data: [[300 K, 0.25], [800 K, 0.125]], range: [250 K, 1000 K]}}
  DOF: 5
  InvCovMat:
    groups: ['C(C)2(H)2', 'C(C)3(H)', 'C(C)(H)3']
    mat: [[2.0, -0.5, 0.25], [-0.5, 1.0, 0.375], [0.25, 0.375, 0.75]]
"""

UQ_LIBS = ('synB', 'synU')
# a good mapping per scheme family (propane / an adsorbed C2 species), the
# groups that are foreign to it, and the molecules the final estimate is for
REFUSED = {
    'syn': dict(base=[['C(C)(H)3', 2], ['C(C)2(H)2', 1]],
                # C(C)4: a group of the scheme with data nowhere; C(H)4: data in
                # synA/synU only, and in synU outside the uncertainty basis
                foreign=['C(C)4', 'C(H)4'],
                finals=['CC', 'CCC']),
    'GRWSurface2018': dict(base=[['C(C)(H)2(Pt)', 2], ['CPt1CPt1', 1],
                                 ['surface-ring strain', 0.217]],
                           foreign=['C(C)4'],
                           finals=['C([Pt])C[Pt]', 'OC([Pt])C[Pt]']),
}
BAD_COUNTS = ('n/a', None)      # not a number: text, nothing


def refused_mappings(family):
    """The good mapping, then every single-entry perturbation of it: a count
    that is not a number at the first / last entry; a foreign group put in
    front of / behind the entries.  Ordered lists of [group, count] (the
    caller's dict is built in this order: what is written before the offending
    entry is reached depends on it)."""
    spec = REFUSED[family]
    base = [list(p) for p in spec['base']]
    out = [base]
    for pos in (0, len(base) - 1):
        for bad in BAD_COUNTS:
            m = [list(p) for p in base]
            m[pos][1] = bad
            out.append(m)
    for g in spec['foreign']:
        out.append([[g, 1]] + [list(p) for p in base])
        out.append([list(p) for p in base] + [[g, 1]])
    return out


# ------------------------------------------------------------ units

UNIT_SYSTEMS = {
    # name: (molar enthalpy, molar entropy, molar heat capacity, temperature)
    'synK': ('kJ/mol', 'J/(mol*K)', 'J/(mol*K)', 'K'),
    'synC': ('kcal/mol', 'cal/(mol*K)', 'cal/(mol*K)', 'K'),
    # entropy and heat capacity in DIFFERENT units: a loader that confuses the
    # kinds of quantity is seen too
    'synJ': ('J/mol', 'J/(mol*K)', 'cal/(mol*K)', 'K'),
}

_UNITS_LIBRARY = """
units:
  molar enthalpy: %s
  molar entropy: %s
  molar heat capacity: %s
  temperature: %s

groups:
  C(C)(H)3:
    thermochem:
      T_ref: 298.0
      H_ref: -42.0
      S_ref: 127.0
      Cp_data:
        - [300, 26.0]
        - [600, 45.0]
        - [1000, 62.0]
      range: [298, 1500]
  C(C)2(H)2:
    thermochem:
      T_ref: 298.0
      H_ref: -20.5
      S_ref: 39.5
      Cp_data:
        - [300, 23.0]
        - [600, 39.0]
        - [1000, 51.5]
      range: [298, 1500]
"""


def units_library(name):
    """The SAME bare numbers under the unit system `name`."""
    return _UNITS_LIBRARY % UNIT_SYSTEMS[name]


# libraries loaded one after the other in one process: three `units:` blocks,
# one library with units written on every number, one shipped library whose
# files carry a kcal/mol block
UNITS_ALPHABET = ['synK', 'synC', 'synJ', 'synA', 'BensonGA']
