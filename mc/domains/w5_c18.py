"""Fifth-wave domains for C18 (used only by mc/props/c18.py).

Up to the fourth wave every unit choice was either empty (everything
non-dimensional) or named all four kinds of units, the heat capacities always
in the units of the entropy.  "In any chosen compatible units" also covers the
choices in between, which yaml_format documents: each of 'molar enthalpy',
'molar entropy', 'molar heat capacity' may be left out or be None - that part
is then written non-dimensionally - and 'temperature' may be left out (K).
This module holds

* the PARTIAL unit choices: every combination of
      molar enthalpy       in {left out, None, kcal/mol, kJ/mol, J/mol}
      molar entropy        in {left out, None, cal/(mol K), J/(mol K), kJ/(mol K)}
      molar heat capacity  in {left out, None, cal/(mol K), J/(mol K), kJ/(mol K)}
      temperature          in {left out, K, kK}
  = 375 choices (the empty one and the 18 complete ones with heat capacity
  units = entropy units are the old alphabet; heat capacities in other units
  than the entropy, and every choice with a part left out, are new);
* the correlations they are applied to: values that need all their digits, in
  every slot; built directly and by loading; zeros in every slot; and each
  part (H_ref, S_ref, Cp table, range) missing in turn;
* the reading of the statement PER PART: a part for which no units were chosen
  is in the non-dimensional form and must come back exactly; a part for which
  units were chosen must come back to six significant digits (that is judged
  by the module's older comparisons, which already look up each part's own
  units).

Nothing here imports pgradd, and nothing computes an expected value with it.
"""
import itertools

_OUT = 'left out'       # the key is not in the dict at all
H_CHOICES = (_OUT, None, 'kcal/mol', 'kJ/mol', 'J/mol')
S_CHOICES = (_OUT, None, 'cal/(mol K)', 'J/(mol K)', 'kJ/(mol K)')
CP_CHOICES = S_CHOICES
T_CHOICES = (_OUT, 'K', 'kK')
VALUE_KEYS = ('molar enthalpy', 'molar entropy', 'molar heat capacity')


def _choice(h, s, c, t):
    u = {}
    for key, v in (('molar enthalpy', h), ('molar entropy', s),
                   ('molar heat capacity', c), ('temperature', t)):
        if v != _OUT:
            u[key] = v
    return u


PARTIAL_UNITS = [_choice(h, s, c, t) for h, s, c, t in
                 itertools.product(H_CHOICES, S_CHOICES, CP_CHOICES, T_CHOICES)]
assert len(PARTIAL_UNITS) == 375


def form(units):
    """'nd' (no part dimensional), 'dimensional' (all three) or 'mixed'."""
    n = sum(1 for k in VALUE_KEYS if units.get(k))
    return {0: 'nd', 3: 'dimensional'}.get(n, 'mixed')


# values that need every digit they have (a six-digit rendering of any of
# them, in whatever units, is seen by an exact comparison)
_H = -17.224273321869813
_S = 15.302888746272764
_TAB = {300.0: 3.0123456789012, 500.0: 3.8976543210987, 800.0: 4.6600000000000001}
_RNG = (200.0, 1500.0)

# (name, case, how it is built)
CORRS = [
    ('full', dict(tab=dict(_TAB), H=_H, S=_S, rng=_RNG, tref=298.15), 'direct'),
    ('full', dict(tab=dict(_TAB), H=_H, S=_S, rng=_RNG, tref=298.15), 'loaded'),
    ('zeros', dict(tab={300.0: 0.0, 500.0: 3.8976543210987, 800.0: 0.0},
                   H=0.0, S=0.0, rng=_RNG, tref=298.15), 'direct'),
    ('no H_ref', dict(tab=dict(_TAB), H=None, S=_S, rng=_RNG, tref=298.15), 'direct'),
    ('no S_ref', dict(tab=dict(_TAB), H=_H, S=None, rng=_RNG, tref=298.15), 'direct'),
    ('no Cp table', dict(tab={}, H=_H, S=_S, rng=_RNG, tref=298.15), 'direct'),
    ('no range', dict(tab=dict(_TAB), H=_H, S=_S, rng=None, tref=300.0), 'direct'),
    ('one Cp point, nothing else', dict(tab={300.0: 3.0123456789012}, H=None, S=None,
                                        rng=None, tref=300.0), 'loaded'),
]


def partial_cases():
    return [(ci, ui) for ui in range(len(PARTIAL_UNITS)) for ci in range(len(CORRS))]


def slot_problems(src, back, units):
    """The statement read per part: a part for which no units were chosen is
    written in the non-dimensional form and must come back EXACTLY.  (Presence
    and table length are judged by the module's first comparison.)"""
    probs = []

    def exact(a, b, what):
        if a is None or b is None:
            return
        try:
            fa, fb = float(a), float(b)
        except Exception:     # noqa
            probs.append('nd-part %s: not a number after the round trip (%r)' % (what, b))
            return
        if fa != fb:
            probs.append('nd-part %s: %r -> %r (no units were chosen for it: it is in '
                         'the non-dimensional form and must be exact)' % (what, fa, fb))
    if not units.get('molar enthalpy'):
        exact(src.ND_H_ref, back.ND_H_ref, 'H_ref')
    if not units.get('molar entropy'):
        exact(src.ND_S_ref, back.ND_S_ref, 'S_ref')
    if not units.get('molar heat capacity'):
        a = sorted((float(k), v) for k, v in (src.ND_Cp_data or {}).items())
        b = sorted((float(k), v) for k, v in (back.ND_Cp_data or {}).items())
        if len(a) == len(b):
            for (ka, va), (kb, vb) in zip(a, b):
                exact(va, vb, 'Cp(%g)' % ka)
    return probs
