"""Third-wave domains for C18 (used only by mc/props/c18.py).

Three families, each enumerated exhaustively within the stated bound:

* magnitude ladder: every value  sign x mantissa x 10**e  of a small
  mantissa alphabet over a range of decades is put in every value slot of a
  correlation (H_ref, S_ref, a Cp point, and the negated value in another Cp
  point) - so that whatever the chosen units do to the number (1e-3 for a
  kJ entropy unit, 1/4184 for kcal, ...) every decade of the *written* number
  is visited as well;
* unit choices with the other prefixed kelvins (mK, MK) next to K and kK;
* histories on ONE object: the public mutators of a correlation applied in
  every order up to a length bound, with the object written and read back
  before the first and after every step ("a correlation written to YAML reads
  back as the correlation it is NOW"); and every ordered pair of unit choices
  written one after the other from the same object.

Nothing here imports pgradd at module level, and nothing computes an expected
value with it: the expectation of a round trip is the object's own fields as
they were read just before it was formatted.
"""

# ---------------------------------------------------------------- units

BASE_UNITS = [{}] + [{'molar enthalpy': h, 'molar entropy': s,
                      'molar heat capacity': s, 'temperature': t}
                     for h in ('kcal/mol', 'kJ/mol', 'J/mol')
                     for s in ('cal/(mol K)', 'J/(mol K)', 'kJ/(mol K)')
                     for t in ('K', 'kK')]
# "K or prefixed K": the two other common prefixes, with the matching
# enthalpy/entropy pairs
EXT_UNITS = BASE_UNITS + [{'molar enthalpy': h, 'molar entropy': s,
                           'molar heat capacity': s, 'temperature': t}
                          for t in ('mK', 'MK')
                          for h, s in (('kcal/mol', 'cal/(mol K)'),
                                       ('kJ/mol', 'kJ/(mol K)'),
                                       ('J/mol', 'J/(mol K)'))]
# the histories use one non-dimensional and two dimensional choices
HIST_UNITS = [0, 1, 12]      # indices into BASE_UNITS: {}, kcal/cal/K, kJ/kJ/kK


# ---------------------------------------------------------------- magnitudes

MANTISSAS = (1.234567, 9.87654321)   # six digits needed / more than six given


def decades(tier):
    return range(-9, 10) if tier == 'quick' else range(-12, 13)


def ladder(tier):
    """All values sign x mantissa x 10**e, smallest magnitude first."""
    out = []
    for e in sorted(decades(tier), key=lambda e: (abs(e), e)):
        for m in MANTISSAS:
            for sign in (1.0, -1.0):
                out.append(sign * float('%re%d' % (m, e)))
    return out


def ladder_case(v):
    """The correlation that carries v in every kind of value slot."""
    return dict(tab={300.0: v, 400.0: 3.9, 500.0: -v}, H=v, S=v,
                rng=(200.0, 2000.0), tref=300.0)


def positional(x):
    """repr of a float without an exponent (the units parser reads none)."""
    from decimal import Decimal
    return format(Decimal(repr(float(x))), 'f')


def dimensional_text(c, R0=8.314472):
    """A dimensional file body for the case c, all numbers positional, so
    that the loaded object holds numpy scalars as it does in practice."""
    lines = ['T_ref: %s K' % positional(c['tref'])]
    if c['H'] is not None:
        lines.append('H_ref: %s J/mol' % positional(c['H'] * R0 * c['tref']))
    if c['S'] is not None:
        lines.append('S_ref: %s J/(mol K)' % positional(c['S'] * R0))
    if c['tab']:
        lines.append('Cp_data:')
        for T in sorted(c['tab']):
            lines.append('    - [%s K, %s J/(mol K)]' % (
                positional(T), positional(c['tab'][T] * R0)))
    if c['rng']:
        lines.append('range: [%s K, %s K]' % tuple(positional(x) for x in c['rng']))
    return '\n'.join(lines)


# ---------------------------------------------------------------- histories

# T_ref lies inside every table an operation can leave behind, so that a
# correlation without a range is still constructible when read back
STARTS = [
    ('full', dict(tab={300.0: 1.5, 400.0: 2.0, 500.0: 2.25}, H=-12.5, S=3.75,
                  rng=(200.0, 1500.0), tref=300.0), 'direct'),
    ('full', dict(tab={300.0: 1.5, 400.0: 2.0, 500.0: 2.25}, H=-12.5, S=3.75,
                  rng=(200.0, 1500.0), tref=300.0), 'loaded'),
    ('zeros', dict(tab={300.0: 0.0, 400.0: 2.0, 500.0: 0.0}, H=0.0, S=0.0,
                   rng=(200.0, 1500.0), tref=300.0), 'direct'),
]

# the public mutators of ThermochemIncomplete / ThermochemBase
OPS = ('delH', 'delS', 'delCp400', 'delCpAll', 'setRange', 'clrRange', 'update')


def apply_op(obj, op):
    from pgradd.ThermoChem import ThermochemGroup
    if op == 'delH':
        obj.del_ND_H_ref()
    elif op == 'delS':
        obj.del_ND_S_ref()
    elif op == 'delCp400':
        obj.del_ND_Cp(400.0)
    elif op == 'delCpAll':
        obj.del_ND_Cp()
    elif op == 'setRange':
        obj.set_range((250.0, 1200.0))
    elif op == 'clrRange':
        obj.set_range(None)
    elif op == 'update':
        obj.update(ThermochemGroup(7.5, None, {600.0: 2.4}, 300.0, (100.0, 1800.0)),
                   overwrite=True)
    else:
        raise KeyError(op)


def sequences(maxlen):
    """All operation sequences of exactly maxlen steps (the shorter ones are
    their prefixes, and every prefix is observed)."""
    import itertools
    return list(itertools.product(OPS, repeat=maxlen))


def hist_len(tier):
    return 2 if tier == 'quick' else 3


def histories(tier):
    out = []
    for si in range(len(STARTS)):
        for seq in sequences(hist_len(tier)):
            for ui in HIST_UNITS:
                out.append((si, seq, ui))
    return out


def unit_pairs():
    n = len(EXT_UNITS)
    return [(a, b) for a in range(n) for b in range(n)]


class Snap(object):
    """The fields of a correlation as read at one moment (plain copies)."""

    def __init__(self, obj):
        self.T_ref = obj.T_ref
        self.ND_H_ref = obj.ND_H_ref
        self.ND_S_ref = obj.ND_S_ref
        self.ND_Cp_data = dict(obj.ND_Cp_data or {})   # del_ND_Cp() leaves None
        r = obj.get_range()
        self._range = None if r is None else tuple(r)

    def get_range(self):
        return self._range

    def fields(self):
        return (float(self.T_ref),
                None if self.ND_H_ref is None else float(self.ND_H_ref),
                None if self.ND_S_ref is None else float(self.ND_S_ref),
                sorted((float(k), float(v)) for k, v in self.ND_Cp_data.items()),
                None if self._range is None else tuple(float(x) for x in self._range))
