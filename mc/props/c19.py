"""C19 - group identity is the centre plus the multiset of peripherals.

Alphabet : centres {C, CO, C[d], Pt, N[A]}; peripherals {C, H, C[d], C[.], CO,
           Pt, O}.
Bound    : every multiset of <= K peripherals (K = 4 quick, 6 thorough), every
           distinct ordering of it, every run-length spelling of every
           ordering (each maximal run of equal neighbours cut in every way into
           sub-runs; a sub-run of length c written `(X)c` or `(X)(c)`, a sub-run
           of length one written `(X)` or `(X)1`).
Oracle   : identity = (centre, Counter(peripherals)).

Third-wave families (domains in mc/domains/w3_c19.py):
Strings  : wherever a group is compared / looked up against its canonical name
           "as a plain string", the name is held as each of: exact str, a
           subclass of str, numpy.str_ (every case of every family above).
History  : every (call expected to fail, ordinary construction) pair: the
           first call is a constructor call whose peripheral list (<= 2 good
           names over {C, H, C[d], Pt}) holds exactly one bad element (an
           unhashable list, None, an int, a dict, or the source iterator
           raising) at any position, or whose centre is not a string, or a
           Group.parse() of a one-character edit of a canonical name; the
           second is every identity with <= 2 peripherals over the full
           alphabet x 3 centres, built by Group(...) and by Group.parse(...),
           judged like any other case and additionally against an equal group
           built BEFORE the failed call.  The three calls of a history run
           back to back in one process; the family as a whole runs in
           interpreters of its own (it tries to damage process-wide state, and
           the other families' witnesses are replayed alone).  The failing
           constructor calls use the centres {C, N[A]}.  If plain
           constructions stop behaving after some history, every later
           witness of that process also carries that history.
Copies   : every identity (<= K peripherals) built by Group(...) and by
           Group.parse(...), then copied (copy, deepcopy, pickle round trip in
           the same process; pickle protocols 0, 2, highest) and - the route a
           'spawn' worker or an on-disk cache takes - pickled here and restored
           in two other interpreter processes started with different
           PYTHONHASHSEED values, where it is judged against freshly built
           groups, name strings, a restored dict keyed by groups and a
           restored GroupLibrary.

Fourth-wave families (domains in mc/domains/w4_c19.py):
Case     : names that differ only in letter case are different names.  A
           second alphabet - every letter-case variant of C, CO, H as
           peripherals (8 names), centres {C, c, CO, Co} - goes through the
           same machinery: every multiset of <= 3 (quick) / <= 4 (thorough)
           peripherals, every ordering, every run-length spelling, through
           Group() and Group.parse(); all ordered pairs of identities with
           <= 2 peripherals; every identity with <= 2 peripherals as a key of
           a synthetic library file.
Edits    : every (build a group, edit the object that came back, ordinary
           construction) history: the first group is every identity of <= 2
           peripherals over {C, H} x centres {C, N[A]}, built by Group(), by
           Group.parse() of its canonical / of its descending spelling, or
           parsed twice (the second result is edited); the edit is one of
           append, insert in front, pop last, delete first, clear, reverse,
           sort descending, replace first, extend by two, re-bind .psgs and
           .csg; the ordinary construction is the same 216-member family that
           follows a failed call.  The edited object is not judged (the
           statement is silent); what is built afterwards is.  Runs in child
           interpreters like the failed-call family, witnesses carry the
           whole history.
Library  : histories on ONE library object.  20 identities (<= 2 peripherals
histories  over {C, H, CO}, centres {C, CO}) with fixed roles: 8 held by
           library A, 4 by B1, 4 by B2, 4 by nobody; B3 holds one of A's
           identities with another datum.  Every sequence of <= 3 (quick) /
           <= 4 (thorough) operations from an alphabet of 12 (lib[...] by
           Group object / by plain name of a member of A, of B1, of nobody;
           `name in lib`; iteration; Update(B1), Update(B2), Update(B3)
           [refused], Update(B3, overwrite=True)) is applied to a fresh A
           (made by Load of a file with non-canonical spellings, and by the
           constructor), then EVERY identity of the universe is looked up
           under six forms of key (scheme-bound object, re-spelt object,
           name as str / str subclass / numpy.str_, name of the re-spelt
           object) with lib[...], `in` and .get and compared with a
           dictionary model of the history.  Observation happens only at the
           end of a history (every prefix is a history of its own), so the
           judge's own look-ups are never part of what is judged.

Fifth-wave families (domains in mc/domains/w5_c19.py):
Pieces   : a text is the centre followed by counted PIECES; the group it
           denotes has of every name the SUM of the counts of its pieces.
           Count alphabet {0, 1, 2, 3} (zero = "none of these"), every count
           in every written form: none (count 1), `c`, `(c)`, `0c` (leading
           zero; for zero `0`, `(0)`, `00`).  Every sequence of <= 3 pieces
           over {C, H, C[d]} x centres {C, N[A]} (thorough: also every
           4-piece sequence over {C, H}) through Group.parse(), judged like
           any other spelling.
Punctuation: a third alphabet - names with characters that mean something
           to string formatting, regular expressions or the count syntax
           (%, %%, %d, %s, X%, {}, {0}, \\1, C*, C., H2, 2H; centres C, H2,
           %s, X%) - goes through the same machinery: every multiset of <= 3
           (quick) / <= 4 (thorough) peripherals, every ordering, every
           run-length spelling, through Group() and Group.parse(); all
           ordered pairs of identities with <= 2 peripherals (centres C, %s);
           every identity with <= 2 peripherals (names without a backslash)
           as a key of a synthetic library file.
Defined  : ONE library file that defines one identity twice under two
twice      different spellings.  Every identity of 1..2 peripherals over
           {C, H, C[d]} x centres {C, N[A]} (thorough: also 3 peripherals
           over {C, H}, first layout only), EVERY ordered pair of different
           spellings of it (all orderings x all run-length spellings), three
           file layouts (the two definitions adjacent, another entry between
           them, another entry before them).  Two spellings of one identity
           are one library key, so whatever the loader does with an entry
           that is defined twice (this tree: refuses the file with KeyError)
           it must do for every pair of spellings alike: the outcome
           (refused + exception type / accepted + which datum was kept) is
           compared with that of the first pair of the same identity and
           layout; an accepted file must hold one entry that all spellings
           index.  Control for the other direction: every ordered pair of
           DIFFERENT identities (<= 2 peripherals, same centre) that differ
           in one peripheral or one count, defined in one file, must load as
           two entries.
"""
import collections
import copy
import itertools
import json
import os
import pickle
import subprocess
import sys
import tempfile

from .. import VERIF
from ..runner import Result
from ..domains import w3_c19 as W3
from ..domains import w4_c19 as W4
from ..domains import w5_c19 as W5

LEVEL = 'exploration'
CENTRES = ['C', 'CO', 'C[d]', 'Pt', 'N[A]']
PERIPH = ['C', 'H', 'C[d]', 'C[.]', 'CO', 'Pt', 'O']
KMAX = {'quick': 4, 'thorough': 6}
PAIRMAX = {'quick': 3, 'thorough': 4}
AFTER_CENTRES = ['C', 'N[A]', 'Pt']     # ordinary calls that follow a failure
AFTER_K = 2
AFTER_SHARDS = 6
EDIT_SHARDS = 4
CASE_PAIR_SHARDS = 2
LH_SHARDS = {'quick': 4, 'thorough': 16}
PUNCT_PAIR_SHARDS = 2
DUP_SHARDS = 6
PROTOCOLS = [0, 2, pickle.HIGHEST_PROTOCOL]
READER_SEEDS = ['101', '202', '303']    # two of them, never this process's


def _n_near_pairs():
    return len(W5.near_pairs([
        (c, ms) for c in W5.DUP_CENTRES for k in range(W5.DUP_K + 1)
        for ms in itertools.combinations_with_replacement(W5.DUP_PERIPH, k)]))


BOUND = {t: 'multisets of <= %d peripherals over %d names x %d centres; all '
            'orderings; all run-length spellings; all ordered pairs of '
            'identities with <= %d peripherals compared directly; one peripheral '
            'repeated 7..30, 99..101, 120 times; every name string also held '
            'as a str subclass and as numpy.str_; %d calls expected to fail '
            '(one bad element among <= %d good peripherals, non-string '
            'centres, one-character edits of 3 names) x %d ordinary '
            'constructions (identities of <= %d peripherals x %d centres x '
            '{Group(), parse}) as two-call histories; every identity of <= %d '
            'peripherals copied / deep-copied / pickled (protocols 0, 2, %d) in '
            'process and restored in 2 other processes with other hash seeds; '
            'letter-case alphabet (%d peripherals %s x %d centres %s): '
            'multisets of <= %d peripherals in all orderings and spellings, '
            'all ordered pairs of identities with <= %d peripherals, the '
            'latter as keys of a library file; %d (build, edit the result) '
            'calls (identities of <= %d peripherals over %s x %d centres x %d '
            'routes x %d edits) x the same ordinary constructions as '
            'two-call histories; %d library histories (all sequences of <= '
            '%d operations from an alphabet of %d on one library object) x '
            '%d ways of making the library, each followed by look-ups of %d '
            'identities under 6 forms of key; counted pieces: every text of '
            '<= %d pieces (name over %s, count over %s, every written form of '
            'the count incl. zero counts and leading zeros) x centres %s%s; '
            'punctuation alphabet (%d peripherals %s x %d centres %s): '
            'multisets of <= %d peripherals in all orderings and spellings, '
            'all ordered pairs of identities with <= %d peripherals (centres '
            '%s), the latter (names without a backslash) as keys of a library '
            'file; one identity defined twice in one library file: %d '
            'identities (1..%d peripherals over %s x centres %s%s) x every '
            'ordered pair of different spellings x %d file layouts, and %d '
            'ordered pairs of near identities defined in one file'
            % (KMAX[t], len(PERIPH), len(CENTRES), PAIRMAX[t],
               len(W3.failing_calls()), W3.FAIL_GOOD_MAX,
               len(AFTER_CENTRES) * 2 * sum(
                   len(list(itertools.combinations_with_replacement(PERIPH, k)))
                   for k in range(AFTER_K + 1)),
               AFTER_K, len(AFTER_CENTRES), KMAX[t], pickle.HIGHEST_PROTOCOL,
               len(W4.CASE_PERIPH), '/'.join(W4.CASE_PERIPH),
               len(W4.CASE_CENTRES), '/'.join(W4.CASE_CENTRES), W4.KCASE[t],
               W4.CASE_PAIRMAX, len(W4.edit_calls()), W4.MUT_K,
               '/'.join(W4.MUT_PERIPH), len(W4.MUT_CENTRES),
               len(W4.MUT_ROUTES), len(W4.MUT_OPS),
               sum(len(W4.LH_OPS) ** L for L in range(W4.LH_LEN[t] + 1)),
               W4.LH_LEN[t], len(W4.LH_OPS), len(W4.LH_ROUTES),
               len(W4.lh_universe()),
               W5.PIECE_MAX, '/'.join(W5.PIECE_PERIPH),
               '/'.join(map(str, W5.PIECE_COUNTS)),
               '/'.join(W5.PIECE_CENTRES),
               ' and every text of %d pieces over %s' % (
                   W5.PIECE_MAX_T, '/'.join(W5.PIECE_PERIPH[:2]))
               if t == 'thorough' else '',
               len(W5.PUNCT_PERIPH), ' '.join(W5.PUNCT_PERIPH),
               len(W5.PUNCT_CENTRES), ' '.join(W5.PUNCT_CENTRES),
               W5.KPUNCT[t], W5.PUNCT_PAIRMAX,
               ' '.join(W5.PUNCT_PAIR_CENTRES),
               len(W5.dup_idents(t)), W5.DUP_K, '/'.join(W5.DUP_PERIPH),
               '/'.join(W5.DUP_CENTRES),
               '; 3 peripherals over %s, first layout only' % '/'.join(
                   W5.DUP_PERIPH_T) if t == 'thorough' else '',
               len(W5.DUP_LAYOUTS), _n_near_pairs())
         for t in KMAX}
RULE = ('every (centre, ordering, run-length spelling) over the stated '
        'alphabets is constructed through Group(...) (list, tuple, one-shot iterator, '
        'generator), Group.parse(...) and as a key of a synthetic library file '
        '(loaded twice: two scheme objects); a case is non-trivial when its '
        'text differs from the canonical name of its group (so the '
        'normalisation has work to do) or, for pairs, when the two identities '
        'differ in exactly one peripheral or one repeat count; every '
        'comparison with the canonical name is made with the name held as '
        'str, as a str subclass and as numpy.str_; a two-call history '
        '(call with malformed input, then ordinary construction, same '
        'process) is non-trivial when the first call really raised; a copy '
        'is non-trivial when it was restored in a process with another '
        'string-hash salt; the letter-case alphabet goes through the same '
        'enumeration (a pair is non-trivial when the two identities differ '
        'in one peripheral or count, which includes differing only in '
        'letter case); a (build, edit the result, build again) history is '
        'non-trivial when the edit really changed the first object; a '
        'library history (operations on one library object, then every '
        'identity of a 20-member universe looked up under 6 forms of key '
        'and compared with a dictionary model) is non-trivial when it '
        'contains an Update; a counted-pieces text is non-trivial when it '
        'holds a count form the run-length family does not write (a zero '
        'count, a leading zero, `(1)`); the punctuation alphabet goes '
        'through the same enumeration with the same rule; every file that '
        'defines one identity twice under two different spellings, and '
        'every file that defines two near identities, is non-trivial')
ASSUMPTIONS = ['CPython dict/hash semantics', 'PyYAML for the library file',
               'statement is silent about malformed names: not judged '
               '(but what is built AFTER such a call is judged)',
               'numpy.str_ and a do-nothing str subclass stand for "held as '
               'another kind of plain string"',
               'pickle / copy of a Group is a Group (default object protocol); '
               'the other processes differ in PYTHONHASHSEED only',
               'an edited Group object itself is not judged (statement '
               'silent); only what is built after the edit',
               'library histories: GroupLibrary.Update adds what is new, is '
               'refused as a whole when its single entry carries another '
               'datum for a held identity, and replaces it with '
               'overwrite=True (the merge rule itself is C13\'s subject; '
               'here only that every form of key reaches the entry the '
               'dictionary model holds)',
               'a repeat count of zero is a repeat-count spelling: the piece '
               'contributes no peripheral; counts may carry leading zeros',
               'the text syntax reserves only the two parentheses and '
               'all-digit names; any other character may occur in a name',
               'a library file that defines one identity twice: the '
               'statement does not say what must happen, only (two spellings '
               '= one key) that it cannot depend on the spellings; the '
               'outcome is compared between spelling pairs, not with a '
               'fixed expectation']


def compositions(n):
    if n == 0:
        yield ()
        return
    for first in range(1, n + 1):
        for rest in compositions(n - first):
            yield (first,) + rest


def spellings(centre, seq):
    """All run-length spellings of the ordered neighbour list `seq`."""
    runs = [(k, len(list(g))) for k, g in itertools.groupby(seq)]
    per_run = []
    for name, L in runs:
        opts = []
        for comp in compositions(L):
            forms = []
            for c in comp:
                if c == 1:
                    forms.append(['(%s)' % name, '(%s)1' % name])
                else:
                    forms.append(['(%s)%d' % (name, c),
                                  '(%s)(%d)' % (name, c)])
            for combo in itertools.product(*forms):
                opts.append(''.join(combo))
        per_run.append(opts)
    for combo in itertools.product(*per_run):
        yield centre + ''.join(combo)


def distinct_perms(ms):
    return sorted(set(itertools.permutations(ms)))


def shards(tier, seed):
    out = []
    K = KMAX[tier]
    for c in CENTRES:
        for k in range(0, K + 1):
            if k <= 3:
                out.append(('spell', c, k, None))
            else:
                for first in PERIPH:
                    out.append(('spell', c, k, first))
    for i in range(16):
        out.append(('pairs', i, 16))
    out.append(('library', None))
    out.append(('malformed', None))
    out.append(('large', None))
    for i in range(AFTER_SHARDS):
        out.append(('after-failure', i, AFTER_SHARDS))
    out.append(('copies', None))
    # fourth wave
    for c in W4.CASE_CENTRES:
        for k in range(0, W4.KCASE[tier] + 1):
            out.append(('spell-case', c, k, None))
    for i in range(CASE_PAIR_SHARDS):
        out.append(('pairs-case', i, CASE_PAIR_SHARDS))
    out.append(('library-case', None))
    for i in range(EDIT_SHARDS):
        out.append(('after-edit', i, EDIT_SHARDS))
    for i in range(LH_SHARDS[tier]):
        out.append(('library-history', i, LH_SHARDS[tier]))
    # fifth wave
    for c in W5.PIECE_CENTRES:
        for L in range(W5.PIECE_MAX):
            out.append(('pieces', c, L, None, None))
        for first in W5.PIECE_PERIPH:
            out.append(('pieces', c, W5.PIECE_MAX, first, None))
        if tier == 'thorough':
            for first in W5.PIECE_PERIPH[:2]:
                out.append(('pieces', c, W5.PIECE_MAX_T, first,
                            W5.PIECE_PERIPH[:2]))
    for c in W5.PUNCT_CENTRES:
        for k in range(0, W5.KPUNCT[tier] + 1):
            if k <= 3:
                out.append(('spell-punct', c, k, None))
            else:
                for first in W5.PUNCT_PERIPH:
                    out.append(('spell-punct', c, k, first))
    for i in range(PUNCT_PAIR_SHARDS):
        out.append(('pairs-punct', i, PUNCT_PAIR_SHARDS))
    out.append(('library-punct', None))
    for i in range(DUP_SHARDS):
        out.append(('library-dup', i, DUP_SHARDS))
    return out


def ident(centre, ms):
    return (centre, tuple(sorted(collections.Counter(ms).items())))


def _compare(G, g, g0):
    """Everything the statement says about two objects of ONE identity: `g`
    (however obtained) against the canonical object `g0` and its name, the
    name held as every kind of plain string."""
    probs = []
    if not (g == g0):
        probs.append('not equal to the canonical object')
    if g != g0:
        probs.append('!= is true against the canonical object')
    if hash(g) != hash(g0):
        probs.append('hash differs')
    if {g0: 1}.get(g) != 1:
        probs.append('dict lookup misses')
    if not (g == g0.name) or not (g0.name == g):
        probs.append('not interchangeable with canonical name string')
    if (g != g0.name) or (g0.name != g):
        probs.append('!= is true against its own canonical name string')
    if {g0.name: 1}.get(g) != 1 or {g: 1}.get(g0.name) != 1:
        probs.append('string/dict interop misses')
    back = G.parse(None, g.name)
    if not (back == g) or hash(back) != hash(g):
        probs.append('canonical name %r does not parse back' % g.name)
    for kind, make in W3.EXTRA_STR_KINDS:
        s = make(g0.name)
        if not (g == s) or not (s == g):
            probs.append('%s name: not interchangeable with it' % kind)
        if (g != s) or (s != g):
            probs.append('%s name: != is true against it' % kind)
        if {s: 1}.get(g) != 1 or {g: 1}.get(s) != 1:
            probs.append('%s name: dict interop misses' % kind)
        if len({g, s}) != 1 or g not in [s] or s not in [g]:
            probs.append('%s name: set/list membership misses' % kind)
    return probs


def _check_one(R, G, centre, ms, seq, text, how, history=None):
    """One constructed object against the canonical object of its identity.
    `history` (third wave): dict(fail=<call descriptor>, pre=<equal group
    built before that call was made, or the exception building it raised>,
    earlier=<an earlier two-call history of this process after which plain
    constructions stopped behaving, or None>); the witness then carries that
    history and the case has its own key prefix."""
    wit = dict(kind='spelling', centre=centre, multiset=list(ms),
               order=list(seq), text=text, how=how)
    prefix = ''
    if history is not None:
        # family: 'after-failure' (third wave) or 'after-edit' (fourth wave:
        # the first call built a group and edited the object it got back)
        family = history.get('family', 'after-failure')
        wit = dict(wit, kind=family, fail=history['fail'],
                   earlier=history.get('earlier'))
        prefix = family + ':'
    try:
        g0 = G(None, centre, sorted(ms))
        if how == 'ctor':
            g = G(None, centre, list(seq))
        elif how == 'ctor-tuple':
            g = G(None, centre, tuple(seq))
        elif how == 'ctor-iterator':
            g = G(None, centre, iter(list(seq)))
        elif how == 'ctor-generator':
            g = G(None, centre, (p for p in seq))
        else:
            g = G.parse(None, text)
        probs = _compare(G, g, g0)
        if history is not None:
            pre = history['pre']
            if isinstance(pre, Exception):
                raise pre
            for label, x in (('the group', g), ('the canonical object', g0)):
                if not (x == pre) or (x != pre) or hash(x) != hash(pre) or \
                        {pre: 1}.get(x) != 1 or {x: 1}.get(pre) != 1 or \
                        not (x == pre.name) or {pre.name: 1}.get(x) != 1:
                    probs.append('%s differs from an equal group built '
                                 'before the first call (%r / %r)'
                                 % (label, x.name, pre.name))
    except Exception as e:      # noqa
        probs = ['raised %s: %s' % (type(e).__name__, e)]
    R.outcomes['ok' if not probs else 'bad:' + probs[0][:40]] += 1
    if probs:
        R.violation('%s%s:%s' % (prefix, how, probs[0][:40]),
                    '%s%s via %s (%r): %s' % (
                        'after %r: ' % (history['fail'],) if history else '',
                        ident(centre, ms), how, text, '; '.join(probs)), wit)


def run_spell(R, centre, k, first, periph=None):
    from pgradd.GroupAdd.Group import Group
    for ms in itertools.combinations_with_replacement(
            PERIPH if periph is None else periph, k):
        canon = None
        for seq in distinct_perms(ms):
            if first is not None and seq[0] != first:
                continue
            if canon is None:
                try:
                    canon = Group(None, centre, sorted(ms)).name
                except Exception:       # noqa  (_check_one reports it)
                    canon = ''
            R.evals += 4
            for how in ('ctor', 'ctor-tuple', 'ctor-iterator', 'ctor-generator'):
                _check_one(R, Group, centre, ms, seq, None, how)
            for text in spellings(centre, seq):
                R.evals += 1
                if text != canon:
                    R.nontrivial += 1
                _check_one(R, Group, centre, ms, seq, text, 'parse')
                R.sample(dict(identity=str(ident(centre, ms)), text=text),
                         limit=3)


def all_idents(kmax):
    out = []
    for c in CENTRES:
        for k in range(kmax + 1):
            for ms in itertools.combinations_with_replacement(PERIPH, k):
                out.append((c, ms))
    return out


def run_pairs(R, i, n, tier, ids=None, big=None):
    """'exactly when': distinct identities are unequal and do not find each
    other; all ordered pairs below PAIRMAX directly, and (every identity up to
    KMAX) through one dictionary keyed by Group objects.  `ids` / `big`:
    the same over another alphabet (fourth wave: letter case)."""
    from pgradd.GroupAdd.Group import Group
    ids = all_idents(PAIRMAX[tier]) if ids is None else ids
    objs = [Group(None, c, list(ms)) for c, ms in ids]
    spelled = [Group.parse(None, c + ''.join('(%s)' % p for p in reversed(ms)))
               for c, ms in ids]
    for a in range(i, len(ids), n):
        ga = objs[a]
        for b in range(len(ids)):
            if a == b:
                continue
            R.evals += 1
            gb = spelled[b]
            ca, cb = collections.Counter(ids[a][1]), collections.Counter(ids[b][1])
            near = (ids[a][0] == ids[b][0] and
                    sum(((ca - cb) + (cb - ca)).values()) <= 2)
            if near:
                R.nontrivial += 1
            bad = None
            try:
                if ga == gb:
                    bad = 'distinct identities compare equal'
                elif not (ga != gb):
                    bad = '!= is false for distinct identities'
                elif {ga: 1}.get(gb) is not None:
                    bad = 'dict lookup finds a different identity'
                elif ga == gb.name or gb.name == ga:
                    bad = 'equal to the name of a different identity'
                else:
                    for kind, make in W3.EXTRA_STR_KINDS:
                        sb = make(gb.name)
                        if ga == sb or sb == ga or not (ga != sb) or \
                                {ga: 1}.get(sb) is not None or \
                                {sb: 1}.get(ga) is not None:
                            bad = ('equal to the name (held as %s) of a '
                                   'different identity' % kind)
                            break
            except Exception as e:      # noqa
                bad = 'raised %s' % type(e).__name__
            R.outcomes['pair-ok' if not bad else 'pair-bad'] += 1
            if bad:
                R.violation('pair:' + bad, '%s vs %s: %s' % (
                    ident(*ids[a]), ident(*ids[b]), bad),
                    dict(kind='pair', a=[ids[a][0], list(ids[a][1])],
                         b=[ids[b][0], list(ids[b][1])]))
    if i == 0:
        big = all_idents(KMAX[tier]) if big is None else big
        d = {}
        for c, ms in big:
            R.evals += 1
            g = Group(None, c, list(reversed(ms)))
            if g in d:
                R.violation('pair:dict-collision', '%s collides with %s' % (
                    ident(c, ms), d[g]),
                    dict(kind='pair', a=[c, list(ms)],
                         b=[d[g][0], [p for p, n_ in d[g][1]
                                      for _ in range(n_)]]))
            d[g] = ident(c, ms)
        R.extra['identities_in_dictionary'] = len(d)


SCHEME = ("patterns:\n-   center_name: 'C'\n    periph_name: 'C'\n"
          "    connectivity: 'fragment a{ C labeled c1 }'\n")


def run_library(R, tier, ids=None, kind='library'):
    """Names from a file become keys; every spelling must find the entry.
    `ids` / `kind`: the same over another alphabet (fourth wave: letter
    case), with its own witness kind."""
    import pgradd.ThermoChem   # noqa registers the property set
    from pgradd.GroupAdd.Library import GroupLibrary
    from pgradd.GroupAdd.Group import Group
    if ids is None:
        ids = all_idents(KMAX[tier] if tier == 'quick' else 5)
    with tempfile.TemporaryDirectory(prefix='pgv_c19_') as d:
        with open(os.path.join(d, 'scheme.yaml'), 'w') as f:
            f.write(SCHEME)
        lines = ['groups:']
        spelled = []
        for n, (c, ms) in enumerate(ids):
            perms = distinct_perms(ms)
            seq = perms[n % len(perms)]
            sp = list(spellings(c, seq))
            text = sp[(n // 3) % len(sp)]
            spelled.append(text)
            lines.append('  %r:\n    thermochem:\n      ND_H_ref: %d.5'
                         % (text, n))
        with open(os.path.join(d, 'library.yaml'), 'w') as f:
            f.write('\n'.join(lines) + '\n')
        lib = GroupLibrary.Load(os.path.join(d, 'library.yaml'))
        sch = lib.scheme
        for n, (c, ms) in enumerate(ids):
            R.evals += 1
            canon = Group(sch, c, sorted(ms))
            if spelled[n] != canon.name:
                R.nontrivial += 1
            other = Group.parse(None, c + ''.join('(%s)' % p for p in
                                                  reversed(sorted(ms))))
            want = n + 0.5
            probs = []
            for label, key in [('canonical object', canon),
                               ('canonical name', canon.name),
                               ('re-spelled object', other)] + [
                    ('canonical name held as %s' % kind, make(canon.name))
                    for kind, make in W3.EXTRA_STR_KINDS]:
                try:
                    ps = lib[key]
                    ok = ('thermochem' in ps and
                          ps['thermochem'].ND_H_ref == want)
                    if not ok:
                        probs.append('lib[%s] misses or returns another '
                                     'entry' % label)
                    if key not in lib:
                        probs.append('%s not in lib' % label)
                except Exception as e:   # noqa
                    probs.append('lib[%s] raised %s' % (label,
                                                        type(e).__name__))
            R.outcomes['lib-ok' if not probs else 'lib-bad'] += 1
            if probs:
                R.violation('library:' + probs[0][:40], '%s written %r: %s' % (
                    ident(c, ms), spelled[n], '; '.join(probs)),
                    dict(kind=kind, centre=c, multiset=list(ms),
                         text=spelled[n]))
        # the same file loaded a second time: a second scheme OBJECT; groups
        # bound to either must be interchangeable
        lib2 = GroupLibrary.Load(os.path.join(d, 'library.yaml'))
        for n, (c, ms) in enumerate(ids):
            R.evals += 1
            R.nontrivial += 1
            g1 = Group(lib.scheme, c, list(ms))
            g2 = Group(lib2.scheme, c, list(reversed(ms)))
            bad = None
            try:
                if not (g1 == g2) or (g1 != g2) or hash(g1) != hash(g2):
                    bad = 'equal identities bound to two scheme objects compare unequal'
                elif g2 not in lib or g1 not in lib2 or \
                        lib[g2]['thermochem'].ND_H_ref != n + 0.5 or \
                        lib2[g1]['thermochem'].ND_H_ref != n + 0.5:
                    bad = 'a group bound to one scheme object does not index the other library'
                elif len({g1, g2}) != 1:
                    bad = 'set of two equal groups has two elements'
            except Exception as e:     # noqa
                bad = 'raised %s' % type(e).__name__
            R.outcomes['two-schemes:%s' % ('ok' if not bad else 'bad')] += 1
            if bad:
                R.violation('library:two-scheme-objects', '%s: %s' % (ident(c, ms), bad),
                            dict(kind=kind, centre=c, multiset=list(ms), text='(two loads)'))
        if len(lib) != len(ids):
            R.violation('library:size', 'library has %d entries for %d '
                        'distinct identities' % (len(lib), len(ids)),
                        dict(kind='library-size' if kind == 'library'
                             else kind))


def run_large_counts(R):
    """One peripheral repeated n times, n up to 120 (multi-digit counts)."""
    from pgradd.GroupAdd.Group import Group
    for centre in CENTRES[:2]:
        for p in ('H', 'C[d]'):
            for n in list(range(7, 31)) + [99, 100, 101, 120]:
                ms = tuple([p] * n + ['C'])
                seq = tuple(['C'] + [p] * n)
                R.evals += 2
                R.nontrivial += 2
                _check_one(R, Group, centre, ms, seq, None, 'ctor')
                _check_one(R, Group, centre, ms, seq, '%s(C)(%s)%d' % (centre, p, n), 'parse')
                _check_one(R, Group, centre, ms, seq,
                           '%s(%s)%d(C)(%s)' % (centre, p, n - 1, p), 'parse')


def run_malformed(R):
    """Not judged (statement silent): outcome histogram of one-character
    edits of canonical names."""
    from pgradd.GroupAdd.Group import Group
    for text in W3.malformed_texts():      # same names, edits and order as before
        R.evals += 1
        try:
            Group.parse(None, text)
            R.outcomes['malformed:accepted(unjudged)'] += 1
        except Exception as e:   # noqa
            R.outcomes['malformed:%s(unjudged)' %
                       type(e).__name__] += 1


# ------------------------------------------------- third wave: histories

def good_calls():
    """The ordinary constructions made after a failed call: every identity of
    <= AFTER_K peripherals x AFTER_CENTRES, by Group(...) (peripherals in
    descending order) and by Group.parse(...) (one bracket per peripheral,
    descending order)."""
    out = []
    for c in AFTER_CENTRES:
        for k in range(AFTER_K + 1):
            for ms in itertools.combinations_with_replacement(PERIPH, k):
                seq = tuple(sorted(ms, reverse=True))
                out.append((c, ms, seq, None, 'ctor'))
                out.append((c, ms, seq,
                            c + ''.join('(%s)' % p for p in seq), 'parse'))
    return out


def _perform_first(G, call):
    if call['via'] == 'build-edit':
        return W4.perform_edit(G, call)
    return W3.perform(G, call)


def _after_one(R, G, call, good, earlier=None):
    """One two-call history in this process: an equal group is built first
    (it must stay equal to what is built afterwards), then the call with
    malformed input is made (fourth wave: or a group is built and the object
    that came back is edited) and whatever it does is swallowed, then the
    ordinary construction is judged."""
    c, ms, seq, text, how = good
    try:
        pre = G(None, c, sorted(ms))
    except Exception as e:      # noqa  (only after an earlier history)
        pre = e
    outcome = _perform_first(G, call)
    _check_one(R, G, c, ms, seq, text, how,
               history=dict(fail=call, pre=pre, earlier=earlier,
                            family='after-edit' if call['via'] == 'build-edit'
                            else 'after-failure'))
    return outcome


def _process_sane(G):
    """Do plain constructions, with no failed call before them, still behave
    in this process?"""
    try:
        return not _compare(G, G(None, 'C', ['H', 'C', 'H']),
                            G(None, 'C', ['C', 'H', 'H']))
    except Exception:       # noqa
        return False


def run_after(R, i, n, family='after-failure'):
    """Runs in a process of its own (see run_after_isolated)."""
    from pgradd.GroupAdd.Group import Group
    goods = good_calls()
    taint = None
    calls = W3.failing_calls() if family == 'after-failure' else \
        W4.edit_calls()
    for call in calls[i::n]:
        for good in goods:
            R.evals += 1
            seen = R.extra['violating_cases']
            outcome = _after_one(R, Group, call, good, earlier=taint)
            if taint is None and R.extra['violating_cases'] > seen and \
                    not _process_sane(Group):
                # from here on this process is damaged: later witnesses carry
                # the history that did it
                taint = dict(fail=call, good=list(good))
                R.notes.append('history family: plain constructions stopped '
                               'behaving after %r then %r' % (call, good))
            if outcome.startswith('raised:') or outcome == 'edited':
                R.nontrivial += 1
            R.outcomes['first call of a history: %s %s (unjudged)' % (
                call['via'], outcome)] += 1
        R.sample(dict(history=[call, 'then %s of %s' % (goods[-1][4], ident(
            goods[-1][0], goods[-1][1]))]), limit=1)


def _after_child(i, n, outpath, family='after-failure'):
    R = Result()
    run_after(R, i, n, family)
    with open(outpath, 'w') as f:
        json.dump(R.pack(), f, default=str)


def run_after_isolated(R, i, n, family='after-failure'):
    """The history family tries to damage process-wide state; it gets an
    interpreter of its own so that the other families of this worker (whose
    witnesses are replayed alone) never run in a damaged process."""
    with tempfile.TemporaryDirectory(prefix='pgv_c19h_') as d:
        outp = os.path.join(d, 'out.json')
        p = subprocess.run(
            [sys.executable, '-c', 'import sys; from mc.props import c19; '
             'c19._after_child(int(sys.argv[1]), int(sys.argv[2]), sys.argv[3], '
             'sys.argv[4])',
             str(i), str(n), outp, family], cwd=VERIF, env=dict(os.environ),
            stdin=subprocess.DEVNULL, stdout=subprocess.PIPE,
            stderr=subprocess.STDOUT, timeout=3600)
        if p.returncode != 0 or not os.path.exists(outp):
            raise RuntimeError('history child %d/%d failed rc=%s: %s' % (
                i, n, p.returncode, p.stdout.decode(errors='replace')[-800:]))
        pack = json.load(open(outp))
    R.evals += pack['evals']
    R.nontrivial += pack['nontrivial']
    R.outcomes.update(pack['outcomes'])
    R.extra.update(pack['extra'])
    R.violations.extend(pack['violations'])
    R.samples.extend(pack['samples'])
    R.notes.extend(pack['notes'][:3])


# ------------------------------------------------- third wave: copies

def _copy_payload(ids):
    """What is copied: per identity one object by Group(...) and one by
    Group.parse(...), a dict keyed by the former and a GroupLibrary keyed by
    the latter."""
    from pgradd.GroupAdd.Group import Group
    from pgradd.GroupAdd.Library import GroupLibrary
    objs = []
    for n, (c, ms) in enumerate(ids):
        objs.append((n, 'ctor', Group(None, c, list(reversed(ms)))))
        objs.append((n, 'parse', Group.parse(None, c + ''.join(
            '(%s)' % p for p in reversed(ms)))))
    keyed = dict((o, n) for n, how, o in objs if how == 'ctor')
    lib = GroupLibrary(None, dict((o, {'entry': n}) for n, how, o in objs
                                  if how == 'parse'))
    return objs, keyed, lib


def _judge_restored(ids, objs, keyed, lib):
    """Restored objects against FRESHLY built ones of the same identity.
    Returns (evals, [(n, how, [problems])])."""
    from pgradd.GroupAdd.Group import Group
    out = []
    evals = 0
    for n, how, u in objs:
        evals += 1
        c, ms = ids[n]
        try:
            g0 = Group(None, c, sorted(ms))
            probs = _compare(Group, u, g0)
            if how == 'ctor':
                for label, key in [('a fresh equal group', g0)] + [
                        ('its name held as %s' % kind, make(g0.name))
                        for kind, make in W3.STR_KINDS]:
                    if keyed.get(key) != n or key not in keyed:
                        probs.append('restored dict keyed by groups is not '
                                     'indexed by %s' % label)
                    if lib[key] != {'entry': n} or key not in lib:
                        probs.append('restored library is not indexed by %s'
                                     % label)
                if keyed.get(u) != n or lib[u] != {'entry': n}:
                    probs.append('restored dict / library not indexed by the '
                                 'restored group')
        except Exception as e:      # noqa
            probs = ['raised %s: %s' % (type(e).__name__, e)]
        if probs:
            out.append((n, how, probs))
    if len(keyed) != len(ids) or len(lib) != len(ids):
        out.append((0, 'ctor', ['restored dict / library has %d / %d entries '
                                'for %d identities' % (len(keyed), len(lib),
                                                       len(ids))]))
    return evals, out


def _pickle_reader(inpath, outpath):
    """Runs in ANOTHER interpreter (other PYTHONHASHSEED): restore, judge."""
    with open(inpath, 'rb') as f:
        box = pickle.load(f)            # builtins only at this level
    ids = [(c, tuple(ms)) for c, ms in box['ids']]
    res = dict(evals=0, problems=[], same_salt=(
        hash('pgv-c19-salt-probe') == box['probe']))
    for proto, blob in box['blobs']:
        try:
            objs, keyed, lib = pickle.loads(blob)
            ev, probs = _judge_restored(ids, objs, keyed, lib)
        except Exception as e:      # noqa
            ev, probs = 1, [(0, 'ctor', ['restoring raised %s: %s' % (
                type(e).__name__, e)])]
        res['evals'] += ev
        res['problems'] += [[proto, n, how, p] for n, how, p in probs]
    with open(outpath, 'w') as f:
        json.dump(res, f)


def reader_seeds():
    own = os.environ.get('PYTHONHASHSEED', '')
    return [s for s in READER_SEEDS if s != own][:2]


def run_copies(R, ids, seeds=None, protocols=None):
    from pgradd.GroupAdd.Group import Group   # noqa
    seeds = reader_seeds() if seeds is None else seeds
    protocols = PROTOCOLS if protocols is None else protocols
    objs, keyed, lib = _copy_payload(ids)

    def report(route, proto, n, how, probs, seed=None):
        c, ms = ids[n]
        R.violation('copies:%s:%s' % (route, probs[0][:40]),
                    '%s built by %s, %s (pickle protocol %s, reader '
                    'PYTHONHASHSEED %s): %s' % (ident(c, ms), how, route, proto,
                                                seed, '; '.join(probs)),
                    dict(kind='copies', centre=c, multiset=list(ms), how=how,
                         route=route, proto=proto, reader_seed=seed))

    # same process
    routes = [('copy.copy', None, copy.copy), ('copy.deepcopy', None,
                                               copy.deepcopy)]
    for proto in protocols:
        routes.append(('pickle round trip in one process', proto,
                       lambda x, proto=proto: pickle.loads(
                           pickle.dumps(x, proto))))
    for route, proto, fn in routes:
        try:
            robjs = [(n, how, fn(o)) for n, how, o in objs]
            ev, probs = _judge_restored(ids, robjs, fn(keyed), fn(lib))
        except Exception as e:      # noqa
            ev, probs = 1, [(0, 'ctor', ['copying raised %s: %s' % (
                type(e).__name__, e)])]
        R.evals += ev
        R.outcomes['copies:%s:ok' % route] += ev - len(probs)
        for n, how, p in probs:
            R.outcomes['copies:%s:bad' % route] += 1
            report(route, proto, n, how, p)
    # other processes
    with tempfile.TemporaryDirectory(prefix='pgv_c19p_') as d:
        inp = os.path.join(d, 'in.pickle')
        with open(inp, 'wb') as f:
            pickle.dump(dict(ids=[[c, list(ms)] for c, ms in ids],
                             probe=hash('pgv-c19-salt-probe'),
                             blobs=[(proto, pickle.dumps((objs, keyed, lib),
                                                         proto))
                                    for proto in protocols]), f, 2)
        for seed in seeds:
            outp = os.path.join(d, 'out-%s.json' % seed)
            p = subprocess.run(
                [sys.executable, '-c', 'import sys; from mc.props import c19; '
                 'c19._pickle_reader(sys.argv[1], sys.argv[2])', inp, outp],
                cwd=VERIF, env=dict(os.environ, PYTHONHASHSEED=seed),
                stdin=subprocess.DEVNULL, stdout=subprocess.PIPE,
                stderr=subprocess.STDOUT, timeout=1800)
            if p.returncode != 0 or not os.path.exists(outp):
                raise RuntimeError('reader process (PYTHONHASHSEED=%s) failed '
                                   'rc=%s: %s' % (seed, p.returncode,
                                                  p.stdout.decode(errors='replace')[-800:]))
            res = json.load(open(outp))
            R.evals += res['evals']
            if res['same_salt']:
                R.outcomes['copies:other process had the SAME hash salt '
                           '(vacuous)'] += res['evals']
            else:
                R.nontrivial += res['evals']
            route = 'restored in another process'
            R.outcomes['copies:%s:ok' % route] += res['evals'] - len(
                res['problems'])
            for proto, n, how, probs in res['problems']:
                R.outcomes['copies:%s:bad' % route] += 1
                report(route, proto, n, how, probs, seed)
    R.sample(dict(copied=str(ident(*ids[-1])), routes=[r[0] for r in routes] +
                  ['restored in processes with PYTHONHASHSEED %s' % seeds]),
             limit=1)


# ------------------------------------------------- fourth wave: library histories

class _LibEnv(object):
    """Files of the library-history family (written once per shard / replay):
    A.yaml, B1.yaml, B2.yaml, B3.yaml with non-canonical spellings, and the
    B libraries loaded once as masters (every history gets fresh copies made
    through the constructor)."""

    def __init__(self, d):
        import pgradd.ThermoChem   # noqa registers the property set
        from pgradd.GroupAdd.Library import GroupLibrary
        self.dir = d
        with open(os.path.join(d, 'scheme.yaml'), 'w') as f:
            f.write(SCHEME)
        self.masters = {}
        for name, entries in W4.lh_sources().items():
            lines = ['groups:']
            for c, ms, val in entries:
                lines.append('  %r:\n    thermochem:\n      ND_H_ref: %r'
                             % (W4.descending_text(c, ms), val))
            with open(os.path.join(d, name + '.yaml'), 'w') as f:
                f.write('\n'.join(lines) + '\n')
            self.masters[name] = GroupLibrary.Load(
                os.path.join(d, name + '.yaml'))

    def fresh(self, name, route='ctor'):
        from pgradd.GroupAdd.Library import GroupLibrary
        from pgradd.GroupAdd.Group import Group
        if route == 'load':
            return GroupLibrary.Load(os.path.join(self.dir, name + '.yaml'))
        m = self.masters[name]
        return GroupLibrary(m.scheme, [
            (Group(m.scheme, k.csg, list(k.psgs)),
             dict((pn, pv.copy()) for pn, pv in ps.items()))
            for k, ps in m.items()])


def _lh_apply(env, lib, op):
    """One operation of the history; what it returns or raises is not
    judged here (the observation is made at the end of the history)."""
    from pgradd.GroupAdd.Group import Group
    try:
        if op[0] in ('getitem', 'contains'):
            c, ms = W4.lh_member(op[2])
            g = Group(lib.scheme, c, list(ms))
            key = g if op[1] == 'object' else W4._canonical_text(c, ms)
            if op[0] == 'getitem':
                lib[key]
            else:
                key in lib
        elif op[0] == 'iterate':
            list(lib.items())
        elif op[0] == 'update':
            lib.Update(env.fresh(op[1]))
        elif op[0] == 'update-overwrite':
            lib.Update(env.fresh(op[1]), overwrite=True)
        else:
            raise ValueError(op)
    except ValueError:
        raise
    except Exception as e:      # noqa
        return 'raised:' + type(e).__name__
    return 'done'


def _lh_observe(lib, model):
    """Every identity of the universe under six forms of key against the
    dictionary model."""
    from pgradd.GroupAdd.Group import Group
    probs = []
    for n, c, ms, role, val in W4.lh_universe():
        want = model.get(W4.lh_ident(c, ms))
        name = W4._canonical_text(c, ms)
        respelt = Group.parse(None, W4.descending_text(c, ms))
        keys = [('scheme-bound object', Group(lib.scheme, c, list(ms))),
                ('re-spelt object', respelt),
                ('canonical name', name),
                ('name of the re-spelt object', respelt.name)] + [
            ('canonical name held as %s' % kind, make(name))
            for kind, make in W3.EXTRA_STR_KINDS]
        first = None
        for label, key in keys:
            try:
                ps = lib[key]
                inside = key in lib
                got = lib.get(key)
                if want is None:
                    if inside or ps or got:
                        probs.append('an identity the library does not hold '
                                     'is found by its %s' % label)
                    continue
                if not ('thermochem' in ps and
                        ps['thermochem'].ND_H_ref == want):
                    probs.append('lib[%s] misses or returns another entry'
                                 % label)
                elif not inside:
                    probs.append('%s not in lib' % label)
                elif got is not ps:
                    probs.append('lib.get(%s) is not lib[%s]' % (label, label))
                elif first is not None and ps is not first:
                    probs.append('lib[%s] is not the entry lib[%s] is'
                                 % (label, keys[0][0]))
                if first is None:
                    first = ps
            except Exception as e:      # noqa
                probs.append('look-up by %s raised %s' % (label,
                                                           type(e).__name__))
    try:
        held = sorted(str(k) for k in lib)
        if len(lib) != len(model) or len(held) != len(model):
            probs.append('library holds %d entries, the model %d'
                         % (len(lib), len(model)))
    except Exception as e:      # noqa
        probs.append('iterating the library raised %s' % type(e).__name__)
    return probs


def _lh_one(R, env, route, ops):
    R.evals += 1
    if any(op[0].startswith('update') for op in ops):
        R.nontrivial += 1
    lib = env.fresh('A', route)
    done = [_lh_apply(env, lib, op) for op in ops]
    for op, out in zip(ops, done):
        R.outcomes['library history step: %s %s (unjudged)' % (
            op[0] + ((' ' + op[-1]) if op[0].startswith('update') else ''),
            out)] += 1
    probs = _lh_observe(lib, W4.lh_model(ops))
    R.outcomes['lib-history-ok' if not probs else 'lib-history-bad'] += 1
    if probs:
        R.violation('library-history:' + probs[0][:60],
                    'library A made by %s, then %s (steps: %s): %s' % (
                        route, ops, done, '; '.join(probs[:6])),
                    dict(kind='library-history', route=route, ops=ops))


def run_library_histories(R, i, n, tier):
    with tempfile.TemporaryDirectory(prefix='pgv_c19l_') as d:
        env = _LibEnv(d)
        hs = W4.lh_histories(W4.LH_LEN[tier])
        for ops in hs[i::n]:
            for route in W4.LH_ROUTES:
                _lh_one(R, env, route, ops)
        if hs[i::n]:
            R.sample(dict(library_history=hs[i::n][-1],
                          then='20 identities x 6 forms of key looked up'),
                     limit=1)



# ------------------------------------------------- fifth wave

def run_pieces(R, centre, npieces, first, names):
    """Counted pieces (zero counts, leading zeros, every count form): the
    group denoted has of every name the sum of the counts of its pieces."""
    from pgradd.GroupAdd.Group import Group
    for text, seq, new in W5.piece_texts(centre, npieces, names, first):
        R.evals += 1
        if new:
            R.nontrivial += 1
        _check_one(R, Group, centre, tuple(sorted(seq)), seq, text, 'parse')
        R.sample(dict(identity=str(ident(centre, seq)), text=text), limit=2)


def _punct_lib_idents():
    return W5.punct_idents(W5.PUNCT_PAIRMAX, periph=W5.PUNCT_LIB_PERIPH)


def _dup_env(d):
    import pgradd.ThermoChem   # noqa registers the property set
    with open(os.path.join(d, 'scheme.yaml'), 'w') as f:
        f.write(SCHEME)


def _load_entries(d, entries):
    from pgradd.GroupAdd.Library import GroupLibrary
    path = os.path.join(d, 'library.yaml')
    with open(path, 'w') as f:
        f.write('groups:\n' + ''.join(
            '  %r:\n    thermochem:\n      ND_H_ref: %r\n' % (text, val)
            for text, val in entries))
    return GroupLibrary.Load(path)


def _dup_outcome(d, centre, ms, layout, pair):
    """Load a file that defines the identity (centre, ms) twice, spelled
    pair[0] then pair[1] (two different texts).  Returns (outcome signature,
    [problems that need no comparison with another file])."""
    from pgradd.GroupAdd.Group import Group
    entries = W5.dup_entries(layout, pair[0], pair[1], centre)
    try:
        lib = _load_entries(d, entries)
    except Exception as e:      # noqa
        return 'refused:' + type(e).__name__, []
    probs = []
    try:
        canon = Group(None, centre, sorted(ms))
        keys = [('canonical object', canon), ('canonical name', canon.name),
                ('first spelling parsed', Group.parse(None, pair[0])),
                ('second spelling parsed', Group.parse(None, pair[1]))]
        got = []
        for label, key in keys:
            if key not in lib:
                probs.append('file accepted but %s not in lib' % label)
                got.append(None)
            else:
                got.append(lib[key]['thermochem'].ND_H_ref)
        if len(set(got)) != 1:
            probs.append('file accepted but the spellings of one identity '
                         'index different entries (%r)' % (got,))
        if len(lib) != len(entries) - 1:
            probs.append('file accepted with %d entries for %d identities'
                         % (len(lib), len(entries) - 1))
        winner = {W5.DUP_VALUES[0]: 'first definition kept',
                  W5.DUP_VALUES[1]: 'second definition kept'}.get(
                      got[0], 'neither datum kept')
    except Exception as e:      # noqa
        probs.append('file accepted, look-up raised %s: %s'
                     % (type(e).__name__, e))
        winner = 'look-up raised'
    return 'accepted:' + winner, probs


def _dup_one(R, d, centre, ms, layout, pair, ref, ref_outcome=None):
    """One ordered pair of spellings against the reference pair of the same
    identity and layout: what the loader does with an entry defined twice
    must not depend on how the two definitions are spelled."""
    if ref_outcome is None:
        ref_outcome = _dup_outcome(d, centre, ms, layout, ref)[0]
    outcome, probs = _dup_outcome(d, centre, ms, layout, pair)
    R.outcomes['one identity defined twice in a file: %s (judged for '
               'uniformity)' % outcome] += 1
    wit = dict(kind='library-dup', centre=centre, multiset=list(ms),
               layout=layout, pair=list(pair), ref=list(ref))
    if outcome != ref_outcome:
        R.violation('library-dup:outcome depends on the spelling',
                    '%s defined twice in one file (%s): spelled %r then %r '
                    'the file is %s, spelled %r then %r it is %s'
                    % (ident(centre, ms), layout, pair[0], pair[1], outcome,
                       ref[0], ref[1], ref_outcome), wit)
    if probs:
        R.violation('library-dup:' + probs[0][:50],
                    '%s defined twice in one file (%s) as %r then %r: %s'
                    % (ident(centre, ms), layout, pair[0], pair[1],
                       '; '.join(probs)), wit)
    return outcome


def _two_entries_one(R, d, a, b, texts):
    """Control: two DIFFERENT identities that differ in one peripheral or one
    count are two entries; the file must load and keep both."""
    from pgradd.GroupAdd.Group import Group
    vals = W5.DUP_VALUES[:2]
    probs = []
    try:
        lib = _load_entries(d, list(zip(texts, vals)))
        for (c, ms), val, text in zip((a, b), vals, texts):
            for label, key in [('canonical object', Group(None, c, sorted(ms))),
                               ('spelling parsed', Group.parse(None, text))]:
                if key not in lib or \
                        lib[key]['thermochem'].ND_H_ref != val:
                    probs.append('%s of %s does not index its own entry'
                                 % (label, ident(c, ms)))
        if len(lib) != 2:
            probs.append('%d entries for 2 identities' % len(lib))
    except Exception as e:      # noqa
        probs.append('raised %s: %s' % (type(e).__name__, e))
    R.outcomes['two-entries:%s' % ('ok' if not probs else 'bad')] += 1
    if probs:
        R.violation('library-two-entries:' + probs[0][:50].split(' of (')[0],
                    'file defining %s as %r and %s as %r: %s' % (
                        ident(*a), texts[0], ident(*b), texts[1],
                        '; '.join(probs)),
                    dict(kind='library-two-entries', a=[a[0], list(a[1])],
                         b=[b[0], list(b[1])], texts=list(texts)))


def dup_cases(tier):
    """[(centre, ms, layout, [all spellings of the identity])]"""
    out = []
    for c, ms in W5.dup_idents(tier):
        sp = []
        for seq in distinct_perms(ms):
            sp.extend(spellings(c, seq))
        for layout in (W5.DUP_LAYOUTS if len(ms) <= W5.DUP_K
                       else W5.DUP_LAYOUTS[:1]):
            out.append((c, ms, layout, sp))
    return out


def run_library_dup(R, i, n, tier):
    with tempfile.TemporaryDirectory(prefix='pgv_c19d_') as d:
        _dup_env(d)
        for c, ms, layout, sp in dup_cases(tier)[i::n]:
            pairs = list(itertools.permutations(sp, 2))
            ref = pairs[0]
            ref_outcome = _dup_outcome(d, c, ms, layout, ref)[0]
            for pair in pairs:
                R.evals += 1
                R.nontrivial += 1
                _dup_one(R, d, c, ms, layout, pair, ref,
                         ref_outcome=ref_outcome)
            R.sample(dict(identity=str(ident(c, ms)), layout=layout,
                          defined_twice_as=list(pairs[-1])), limit=1)
        if i == 0:
            ids = [(c, ms) for c in W5.DUP_CENTRES
                   for k in range(W5.DUP_K + 1)
                   for ms in itertools.combinations_with_replacement(
                       W5.DUP_PERIPH, k)]
            for a, b in W5.near_pairs(ids):
                R.evals += 1
                R.nontrivial += 1
                _two_entries_one(R, d, a, b,
                                 (W4.descending_text(*a),
                                  W4._canonical_text(*b)))


def run_shard(shard, tier):
    R = Result()
    if shard[0] == 'spell':
        run_spell(R, shard[1], shard[2], shard[3])
    elif shard[0] == 'pairs':
        run_pairs(R, shard[1], shard[2], tier)
    elif shard[0] == 'library':
        run_library(R, tier)
    elif shard[0] == 'large':
        run_large_counts(R)
    elif shard[0] == 'after-failure':
        run_after_isolated(R, shard[1], shard[2])
    elif shard[0] == 'copies':
        run_copies(R, all_idents(KMAX[tier]))
    elif shard[0] == 'spell-case':
        run_spell(R, shard[1], shard[2], shard[3], periph=W4.CASE_PERIPH)
    elif shard[0] == 'pairs-case':
        run_pairs(R, shard[1], shard[2], tier,
                  ids=W4.case_idents(W4.CASE_PAIRMAX),
                  big=W4.case_idents(W4.KCASE[tier]))
    elif shard[0] == 'library-case':
        run_library(R, tier, ids=W4.case_idents(W4.CASE_PAIRMAX),
                    kind='library-case')
    elif shard[0] == 'after-edit':
        run_after_isolated(R, shard[1], shard[2], 'after-edit')
    elif shard[0] == 'library-history':
        run_library_histories(R, shard[1], shard[2], tier)
    elif shard[0] == 'pieces':
        run_pieces(R, shard[1], shard[2], shard[3], shard[4])
    elif shard[0] == 'spell-punct':
        run_spell(R, shard[1], shard[2], shard[3], periph=W5.PUNCT_PERIPH)
    elif shard[0] == 'pairs-punct':
        run_pairs(R, shard[1], shard[2], tier,
                  ids=W5.punct_idents(W5.PUNCT_PAIRMAX,
                                      centres=W5.PUNCT_PAIR_CENTRES),
                  big=W5.punct_idents(W5.KPUNCT[tier]))
    elif shard[0] == 'library-punct':
        run_library(R, tier, ids=_punct_lib_idents(), kind='library-punct')
    elif shard[0] == 'library-dup':
        run_library_dup(R, shard[1], shard[2], tier)
    else:
        run_malformed(R)
    return R


def replay(w):
    from pgradd.GroupAdd.Group import Group
    R = Result()
    if w['kind'] == 'spelling':
        _check_one(R, Group, w['centre'], tuple(w['multiset']),
                   tuple(w['order']), w['text'], w['how'])
    elif w['kind'] == 'pair':
        ga = Group(None, w['a'][0], list(w['a'][1]))
        gb = Group.parse(None, w['b'][0] + ''.join(
            '(%s)' % p for p in reversed(w['b'][1])))
        bad = (ga == gb) or not (ga != gb) or {ga: 1}.get(gb) is not None
        for kind, make in W3.STR_KINDS:
            sb = make(gb.name)
            bad = bad or ga == sb or sb == ga or not (ga != sb) or \
                {ga: 1}.get(sb) is not None or {sb: 1}.get(ga) is not None
        return dict(violates=bool(bad), detail='%r vs %r: eq=%s hash_eq=%s' % (
            ga, gb, ga == gb, hash(ga) == hash(gb)))
    elif w['kind'] in ('after-failure', 'after-edit'):
        # the whole history, in this fresh process: equal group, failed call,
        # ordinary construction
        if w.get('earlier'):
            c, ms, seq, text, how = w['earlier']['good']
            _after_one(Result(), Group, w['earlier']['fail'],
                       (c, tuple(ms), tuple(seq), text, how))
        _after_one(R, Group, w['fail'], (
            w['centre'], tuple(w['multiset']), tuple(w['order']), w['text'],
            w['how']), earlier=w.get('earlier'))
    elif w['kind'] == 'copies':
        run_copies(R, [(w['centre'], tuple(w['multiset']))],
                   seeds=[w['reader_seed']] if w.get('reader_seed') else [],
                   protocols=[w['proto']] if w.get('proto') is not None
                   else PROTOCOLS)
    elif w['kind'] == 'library-case':
        run_library(R, 'quick', ids=W4.case_idents(W4.CASE_PAIRMAX),
                    kind='library-case')
    elif w['kind'] == 'library-history':
        with tempfile.TemporaryDirectory(prefix='pgv_c19l_') as d:
            _lh_one(R, _LibEnv(d), w['route'], [list(op) for op in w['ops']])
    elif w['kind'] == 'library-punct':
        run_library(R, 'quick', ids=_punct_lib_idents(), kind='library-punct')
    elif w['kind'] == 'library-dup':
        with tempfile.TemporaryDirectory(prefix='pgv_c19d_') as d:
            _dup_env(d)
            _dup_one(R, d, w['centre'], tuple(w['multiset']), w['layout'],
                     tuple(w['pair']), tuple(w['ref']))
    elif w['kind'] == 'library-two-entries':
        with tempfile.TemporaryDirectory(prefix='pgv_c19d_') as d:
            _dup_env(d)
            _two_entries_one(R, d, (w['a'][0], tuple(w['a'][1])),
                             (w['b'][0], tuple(w['b'][1])), w['texts'])
    else:
        run_library(R, 'quick')
    return dict(violates=bool(R.violations),
                detail='; '.join(v['msg'] for v in R.violations) or 'holds')

MANIFEST = dict(
    technique='bounded-exhaustive enumeration of all group spellings vs a '
              '(centre, multiset) reference model',
    text='Every multiset of <= 4 (quick) / <= 6 (thorough) peripherals over a '
         '7-name alphabet x 5 centres, in every ordering and every run-length '
         'spelling, through Group(), Group.parse() and library-file keys, is '
         'compared with the identity model (centre, Counter(peripherals)); '
         'all ordered pairs of small distinct identities are compared '
         'directly. Every comparison with a name string is repeated with '
         'the name held as a str subclass and as numpy.str_. Every pair '
         '(call with malformed input: one bad element among <= 2 good '
         'peripherals, a non-string centre, a one-character edit of a name; '
         'then an ordinary construction of every identity of <= 2 '
         'peripherals x 3 centres) is run back to back in one process and '
         'the second group judged, also against an equal group built before. '
         'Every identity is copied, deep-copied, pickled (3 protocols) and '
         'restored in two other interpreter processes with different '
         'PYTHONHASHSEED, and judged there against fresh groups, names, a '
         'restored dict and a restored GroupLibrary. A second alphabet of '
         'names that differ only in letter case (C/c, CO/Co/cO/co, H/h; '
         'centres C, c, CO, Co) goes through the spelling enumeration (<= 3 '
         'quick / <= 4 thorough peripherals), the pair comparison and the '
         'library file (<= 2 peripherals). Every (build a small group by '
         'one of 4 routes, apply one of 10 edits to the object that came '
         'back, ordinary construction) history is run in one process and '
         'the last group judged. Every sequence of <= 3 (quick) / <= 4 '
         '(thorough) operations from a 12-letter alphabet (look-ups by '
         'object and by name, `in`, iteration, Update with three other '
         'libraries, refused and overwriting Update) is applied to one '
         'library object made by Load and by the constructor, after which '
         'all 20 identities of its universe are looked up under 6 forms of '
         'key and compared with a dictionary model. Texts made of counted '
         'pieces with counts 0..3 in every written form (none, digits, '
         'bracketed digits, leading zero; <= 3 pieces over 3 names x 2 '
         'centres, thorough also 4 pieces over 2 names) are parsed and '
         'judged against the sum of the counts. A third alphabet of 12 '
         'names with %, {}, backslash, *, . and digits (4 centres) goes '
         'through the spelling enumeration (<= 3 quick / <= 4 thorough '
         'peripherals), the pair comparison and the library file. Every '
         'identity of 1..2 peripherals over 3 names x 2 centres is defined '
         'twice in one library file under every ordered pair of different '
         'spellings in 3 layouts; the loader\'s outcome must be the same '
         'for all pairs, and an accepted file must hold one entry; files '
         'defining two near identities must load as two entries. '
         'Exhaustive inside the bound.',
    note='Names outside the alphabet and more than 6 peripherals are not '
         'covered; malformed names are enumerated but not judged (statement '
         'silent); construction histories longer than two calls, library '
         'histories longer than 3 / 4 operations or with data other than '
         'one number per group, edits of a group that is a library key, '
         'str subclasses that override comparison, and copies by other '
         'serialisers are not covered. Non-ASCII names, names with quotes '
         'or blanks, zero counts inside library files, counts above 3 with '
         'leading zeros, an identity defined twice under the SAME text '
         '(the YAML reader keeps the last) or across included files are '
         'not covered.',
    ref='5/C19')
