"""C19 - group identity is the centre plus the multiset of peripherals.

Alphabet : centres {C, CO, C[d], Pt, N[A]}; peripherals {C, H, C[d], C[.], CO,
           Pt, O}.
Bound    : every multiset of <= K peripherals (K = 4 quick, 6 thorough), every
           distinct ordering of it, every run-length spelling of every
           ordering (each maximal run of equal neighbours cut in every way into
           sub-runs; a sub-run of length c written `(X)c` or `(X)(c)`, a sub-run
           of length one written `(X)` or `(X)1`).
Oracle   : identity = (centre, Counter(peripherals)).
"""
import collections
import itertools
import os
import tempfile

from ..runner import Result

LEVEL = 'exploration'
CENTRES = ['C', 'CO', 'C[d]', 'Pt', 'N[A]']
PERIPH = ['C', 'H', 'C[d]', 'C[.]', 'CO', 'Pt', 'O']
KMAX = {'quick': 4, 'thorough': 6}
PAIRMAX = {'quick': 3, 'thorough': 4}
BOUND = {t: 'multisets of <= %d peripherals over %d names x %d centres; all '
            'orderings; all run-length spellings; all ordered pairs of '
            'identities with <= %d peripherals compared directly; one peripheral '
            'repeated 7..30, 99..101, 120 times' % (
                KMAX[t], len(PERIPH), len(CENTRES), PAIRMAX[t])
         for t in KMAX}
RULE = ('every (centre, ordering, run-length spelling) over the stated '
        'alphabets is constructed through Group(...) (list, tuple, one-shot iterator, '
        'generator), Group.parse(...) and as a key of a synthetic library file '
        '(loaded twice: two scheme objects); a case is non-trivial when its '
        'text differs from the canonical name of its group (so the '
        'normalisation has work to do) or, for pairs, when the two identities '
        'differ in exactly one peripheral or one repeat count')
ASSUMPTIONS = ['CPython dict/hash semantics', 'PyYAML for the library file',
               'statement is silent about malformed names: not judged']


def compositions(n):
    if n == 0:
        yield ()
        return
    for first in range(1, n + 1):
        for rest in compositions(n - first):
            yield (first,) + rest


def spellings(centre, seq):
    """All run-length spellings of the ordered neighbour list `seq`."""
    runs = [(k, len(list(g))) for k, g in itertools.groupby(seq)]
    per_run = []
    for name, L in runs:
        opts = []
        for comp in compositions(L):
            forms = []
            for c in comp:
                if c == 1:
                    forms.append(['(%s)' % name, '(%s)1' % name])
                else:
                    forms.append(['(%s)%d' % (name, c),
                                  '(%s)(%d)' % (name, c)])
            for combo in itertools.product(*forms):
                opts.append(''.join(combo))
        per_run.append(opts)
    for combo in itertools.product(*per_run):
        yield centre + ''.join(combo)


def distinct_perms(ms):
    return sorted(set(itertools.permutations(ms)))


def shards(tier, seed):
    out = []
    K = KMAX[tier]
    for c in CENTRES:
        for k in range(0, K + 1):
            if k <= 3:
                out.append(('spell', c, k, None))
            else:
                for first in PERIPH:
                    out.append(('spell', c, k, first))
    for i in range(16):
        out.append(('pairs', i, 16))
    out.append(('library', None))
    out.append(('malformed', None))
    out.append(('large', None))
    return out


def ident(centre, ms):
    return (centre, tuple(sorted(collections.Counter(ms).items())))


def _check_one(R, G, centre, ms, seq, text, how):
    """One constructed object against the canonical object of its identity."""
    wit = dict(kind='spelling', centre=centre, multiset=list(ms),
               order=list(seq), text=text, how=how)
    try:
        g0 = G(None, centre, sorted(ms))
        if how == 'ctor':
            g = G(None, centre, list(seq))
        elif how == 'ctor-tuple':
            g = G(None, centre, tuple(seq))
        elif how == 'ctor-iterator':
            g = G(None, centre, iter(list(seq)))
        elif how == 'ctor-generator':
            g = G(None, centre, (p for p in seq))
        else:
            g = G.parse(None, text)
        probs = []
        if not (g == g0):
            probs.append('not equal to the canonical object')
        if g != g0:
            probs.append('!= is true against the canonical object')
        if hash(g) != hash(g0):
            probs.append('hash differs')
        if {g0: 1}.get(g) != 1:
            probs.append('dict lookup misses')
        if not (g == g0.name) or not (g0.name == g):
            probs.append('not interchangeable with canonical name string')
        if (g != g0.name) or (g0.name != g):
            probs.append('!= is true against its own canonical name string')
        if {g0.name: 1}.get(g) != 1 or {g: 1}.get(g0.name) != 1:
            probs.append('string/dict interop misses')
        back = G.parse(None, g.name)
        if not (back == g) or hash(back) != hash(g):
            probs.append('canonical name %r does not parse back' % g.name)
    except Exception as e:      # noqa
        probs = ['raised %s: %s' % (type(e).__name__, e)]
    R.outcomes['ok' if not probs else 'bad:' + probs[0][:40]] += 1
    if probs:
        R.violation('%s:%s' % (how, probs[0][:40]),
                    '%s via %s (%r): %s' % (ident(centre, ms), how, text,
                                            '; '.join(probs)), wit)


def run_spell(R, centre, k, first):
    from pgradd.GroupAdd.Group import Group
    for ms in itertools.combinations_with_replacement(PERIPH, k):
        canon = None
        for seq in distinct_perms(ms):
            if first is not None and seq[0] != first:
                continue
            if canon is None:
                canon = Group(None, centre, sorted(ms)).name
            R.evals += 4
            for how in ('ctor', 'ctor-tuple', 'ctor-iterator', 'ctor-generator'):
                _check_one(R, Group, centre, ms, seq, None, how)
            for text in spellings(centre, seq):
                R.evals += 1
                if text != canon:
                    R.nontrivial += 1
                _check_one(R, Group, centre, ms, seq, text, 'parse')
                R.sample(dict(identity=str(ident(centre, ms)), text=text),
                         limit=3)


def all_idents(kmax):
    out = []
    for c in CENTRES:
        for k in range(kmax + 1):
            for ms in itertools.combinations_with_replacement(PERIPH, k):
                out.append((c, ms))
    return out


def run_pairs(R, i, n, tier):
    """'exactly when': distinct identities are unequal and do not find each
    other; all ordered pairs below PAIRMAX directly, and (every identity up to
    KMAX) through one dictionary keyed by Group objects."""
    from pgradd.GroupAdd.Group import Group
    ids = all_idents(PAIRMAX[tier])
    objs = [Group(None, c, list(ms)) for c, ms in ids]
    spelled = [Group.parse(None, c + ''.join('(%s)' % p for p in reversed(ms)))
               for c, ms in ids]
    for a in range(i, len(ids), n):
        ga = objs[a]
        for b in range(len(ids)):
            if a == b:
                continue
            R.evals += 1
            gb = spelled[b]
            ca, cb = collections.Counter(ids[a][1]), collections.Counter(ids[b][1])
            near = (ids[a][0] == ids[b][0] and
                    sum(((ca - cb) + (cb - ca)).values()) <= 2)
            if near:
                R.nontrivial += 1
            bad = None
            try:
                if ga == gb:
                    bad = 'distinct identities compare equal'
                elif not (ga != gb):
                    bad = '!= is false for distinct identities'
                elif {ga: 1}.get(gb) is not None:
                    bad = 'dict lookup finds a different identity'
                elif ga == gb.name or gb.name == ga:
                    bad = 'equal to the name of a different identity'
            except Exception as e:      # noqa
                bad = 'raised %s' % type(e).__name__
            R.outcomes['pair-ok' if not bad else 'pair-bad'] += 1
            if bad:
                R.violation('pair:' + bad, '%s vs %s: %s' % (
                    ident(*ids[a]), ident(*ids[b]), bad),
                    dict(kind='pair', a=[ids[a][0], list(ids[a][1])],
                         b=[ids[b][0], list(ids[b][1])]))
    if i == 0:
        big = all_idents(KMAX[tier])
        d = {}
        for c, ms in big:
            R.evals += 1
            g = Group(None, c, list(reversed(ms)))
            if g in d:
                R.violation('pair:dict-collision', '%s collides with %s' % (
                    ident(c, ms), d[g]),
                    dict(kind='pair', a=[c, list(ms)],
                         b=[d[g][0], [p for p, n_ in d[g][1]
                                      for _ in range(n_)]]))
            d[g] = ident(c, ms)
        R.extra['identities_in_dictionary'] = len(d)


SCHEME = ("patterns:\n-   center_name: 'C'\n    periph_name: 'C'\n"
          "    connectivity: 'fragment a{ C labeled c1 }'\n")


def run_library(R, tier):
    """Names from a file become keys; every spelling must find the entry."""
    import pgradd.ThermoChem   # noqa registers the property set
    from pgradd.GroupAdd.Library import GroupLibrary
    from pgradd.GroupAdd.Group import Group
    ids = all_idents(KMAX[tier] if tier == 'quick' else 5)
    with tempfile.TemporaryDirectory(prefix='pgv_c19_') as d:
        with open(os.path.join(d, 'scheme.yaml'), 'w') as f:
            f.write(SCHEME)
        lines = ['groups:']
        spelled = []
        for n, (c, ms) in enumerate(ids):
            perms = distinct_perms(ms)
            seq = perms[n % len(perms)]
            sp = list(spellings(c, seq))
            text = sp[(n // 3) % len(sp)]
            spelled.append(text)
            lines.append('  %r:\n    thermochem:\n      ND_H_ref: %d.5'
                         % (text, n))
        with open(os.path.join(d, 'library.yaml'), 'w') as f:
            f.write('\n'.join(lines) + '\n')
        lib = GroupLibrary.Load(os.path.join(d, 'library.yaml'))
        sch = lib.scheme
        for n, (c, ms) in enumerate(ids):
            R.evals += 1
            canon = Group(sch, c, sorted(ms))
            if spelled[n] != canon.name:
                R.nontrivial += 1
            other = Group.parse(None, c + ''.join('(%s)' % p for p in
                                                  reversed(sorted(ms))))
            want = n + 0.5
            probs = []
            for label, key in (('canonical object', canon),
                               ('canonical name', canon.name),
                               ('re-spelled object', other)):
                try:
                    ps = lib[key]
                    ok = ('thermochem' in ps and
                          ps['thermochem'].ND_H_ref == want)
                    if not ok:
                        probs.append('lib[%s] misses or returns another '
                                     'entry' % label)
                    if key not in lib:
                        probs.append('%s not in lib' % label)
                except Exception as e:   # noqa
                    probs.append('lib[%s] raised %s' % (label,
                                                        type(e).__name__))
            R.outcomes['lib-ok' if not probs else 'lib-bad'] += 1
            if probs:
                R.violation('library:' + probs[0][:40], '%s written %r: %s' % (
                    ident(c, ms), spelled[n], '; '.join(probs)),
                    dict(kind='library', centre=c, multiset=list(ms),
                         text=spelled[n]))
        # the same file loaded a second time: a second scheme OBJECT; groups
        # bound to either must be interchangeable
        lib2 = GroupLibrary.Load(os.path.join(d, 'library.yaml'))
        for n, (c, ms) in enumerate(ids):
            R.evals += 1
            R.nontrivial += 1
            g1 = Group(lib.scheme, c, list(ms))
            g2 = Group(lib2.scheme, c, list(reversed(ms)))
            bad = None
            try:
                if not (g1 == g2) or (g1 != g2) or hash(g1) != hash(g2):
                    bad = 'equal identities bound to two scheme objects compare unequal'
                elif g2 not in lib or g1 not in lib2 or \
                        lib[g2]['thermochem'].ND_H_ref != n + 0.5 or \
                        lib2[g1]['thermochem'].ND_H_ref != n + 0.5:
                    bad = 'a group bound to one scheme object does not index the other library'
                elif len({g1, g2}) != 1:
                    bad = 'set of two equal groups has two elements'
            except Exception as e:     # noqa
                bad = 'raised %s' % type(e).__name__
            R.outcomes['two-schemes:%s' % ('ok' if not bad else 'bad')] += 1
            if bad:
                R.violation('library:two-scheme-objects', '%s: %s' % (ident(c, ms), bad),
                            dict(kind='library', centre=c, multiset=list(ms), text='(two loads)'))
        if len(lib) != len(ids):
            R.violation('library:size', 'library has %d entries for %d '
                        'distinct identities' % (len(lib), len(ids)),
                        dict(kind='library-size'))


def run_large_counts(R):
    """One peripheral repeated n times, n up to 120 (multi-digit counts)."""
    from pgradd.GroupAdd.Group import Group
    for centre in CENTRES[:2]:
        for p in ('H', 'C[d]'):
            for n in list(range(7, 31)) + [99, 100, 101, 120]:
                ms = tuple([p] * n + ['C'])
                seq = tuple(['C'] + [p] * n)
                R.evals += 2
                R.nontrivial += 2
                _check_one(R, Group, centre, ms, seq, None, 'ctor')
                _check_one(R, Group, centre, ms, seq, '%s(C)(%s)%d' % (centre, p, n), 'parse')
                _check_one(R, Group, centre, ms, seq,
                           '%s(%s)%d(C)(%s)' % (centre, p, n - 1, p), 'parse')


def run_malformed(R):
    """Not judged (statement silent): outcome histogram of one-character
    edits of canonical names."""
    from pgradd.GroupAdd.Group import Group
    for name in ['C(C)(H)3', 'CO(C[d])(O)', 'N[A](H)2(Pt)']:
        for i in range(len(name) + 1):
            for ch in ['', '(', ')', '2', 'x', ' ']:
                for text in (name[:i] + ch + name[i:], name[:i] + ch + name[i + 1:]):
                    R.evals += 1
                    try:
                        Group.parse(None, text)
                        R.outcomes['malformed:accepted(unjudged)'] += 1
                    except Exception as e:   # noqa
                        R.outcomes['malformed:%s(unjudged)' %
                                   type(e).__name__] += 1


def run_shard(shard, tier):
    R = Result()
    if shard[0] == 'spell':
        run_spell(R, shard[1], shard[2], shard[3])
    elif shard[0] == 'pairs':
        run_pairs(R, shard[1], shard[2], tier)
    elif shard[0] == 'library':
        run_library(R, tier)
    elif shard[0] == 'large':
        run_large_counts(R)
    else:
        run_malformed(R)
    return R


def replay(w):
    from pgradd.GroupAdd.Group import Group
    R = Result()
    if w['kind'] == 'spelling':
        _check_one(R, Group, w['centre'], tuple(w['multiset']),
                   tuple(w['order']), w['text'], w['how'])
    elif w['kind'] == 'pair':
        ga = Group(None, w['a'][0], list(w['a'][1]))
        gb = Group.parse(None, w['b'][0] + ''.join(
            '(%s)' % p for p in reversed(w['b'][1])))
        bad = (ga == gb) or not (ga != gb) or {ga: 1}.get(gb) is not None
        return dict(violates=bool(bad), detail='%r vs %r: eq=%s hash_eq=%s' % (
            ga, gb, ga == gb, hash(ga) == hash(gb)))
    else:
        run_library(R, 'quick')
    return dict(violates=bool(R.violations),
                detail='; '.join(v['msg'] for v in R.violations) or 'holds')

MANIFEST = dict(
    technique='bounded-exhaustive enumeration of all group spellings vs a '
              '(centre, multiset) reference model',
    text='Every multiset of <= 4 (quick) / <= 6 (thorough) peripherals over a '
         '7-name alphabet x 5 centres, in every ordering and every run-length '
         'spelling, through Group(), Group.parse() and library-file keys, is '
         'compared with the identity model (centre, Counter(peripherals)); '
         'all ordered pairs of small distinct identities are compared '
         'directly. Exhaustive inside the bound.',
    note='Names outside the alphabet and more than 6 peripherals are not '
         'covered; malformed names are enumerated but not judged (statement '
         'silent).',
    ref='5/C19')
