"""C08 - RING fragment matching returns exactly the embeddings it denotes.

Families A-G of DESIGN.md section 5/C08 over the fragment alphabets of
mc/domains/fragments.py, against molecule sets built from M(n) C/O/N with
radicals + charged species + curated rings/aromatics/metals.  Oracle:
models/ringref.py (own reader, own injective backtracking matcher).

Family R (third wave, mc/domains/w3_c08.py): the ring vocabulary of the
language (every ring-size / ring-count constraint with digits 0..6, ring
prefixes, ring/nonring bonds, cyclic/linear, combined on one and on two atoms)
against EVERY saturated carbon skeleton up to 6 (thorough: 7) atoms - which
includes all small cages and bridged systems, whose smallest ring set is not
unique - plus ten named cages above that bound.  The ring set that counts is
the one carried by the molecule object the caller passes (the reference reads
that object); a matcher that re-perceives rings differently is seen there.

Fourth wave (mc/domains/w4_c08.py), three more families:

S  element vocabulary: every element symbol of the periodic table (all but
   `Xe`, which the language reads as class `X` + junk) in ordinary and in
   lower-case ("aromatic") spelling, written as first atom (with / without
   `?`), as bonded atom and as target of a plain / negated neighbour
   constraint, against a bare atom of each of the 118 elements + aromatic and
   non-aromatic compounds of b, c, n, o, p, s, se, te, si, as + compounds whose
   symbols share a first letter (Cl/Co/Cu ~ C, Si/Se/Sn ~ S ...).
N  embedding counts: symmetric two-shell stars (centre, k = 1..4 equal arms,
   j = 0..3 hydrogens on every arm; up to 17 fragment atoms) against every
   alkane up to 6 (thorough 7) carbons + curated symmetric molecules; expected
   match lists from 0 to 31104 tuples are compared in full, including the
   pairs whose raw match count exceeds 10000 (the batch size the matcher
   first asks RDKit for; it used to stop there - defect repaired in /repo).
   Those pairs are judged by a separate loop so that a truncated result has a
   key of its own (N:capacity-truncated).
K  ways of calling: GetQueryMatches(m), (m, 0 | False | 1 | True), (m, debug=
   the same four), (mol=m), (mol=m, debug=True) - every form on every fragment
   of a 6108-fragment set x 18 hydrogen-rich molecules, each call compared with
   the reference (the debug flag may print, it may not change the result).

Fifth wave (mc/domains/w5_c08.py), family L - rings larger than any number the
language can write.  A constraint number is one digit; until now the largest
ring of an enumerated molecule had 8 atoms and the ring digits stopped at 6.
L: the ring vocabulary with ALL digits 0..9 (every ring-size / ring-count
constraint, plain / negated, bare and with every operator, on C and $?; ring
prefixes; cyclic/linear; bonded carbon pairs over {ring, nonring, single, any}
with constraints on either atom; ordered constraint pairs; 3-atom chains)
against EVERY saturated carbon system of one or two simple rings - cycloalkanes
and methylcycloalkanes with 3..16 (thorough 3..20) ring atoms, and two rings of
sizes 3 <= a <= b <= 10 (thorough 12) linked by a bond, spiro-joined, or fused.
"""
import os

from ..runner import Result
from ..models import ringref
from ..domains import fragments as F
from ..domains import molecules as MD
from ..domains import libs
from ..domains import w3_c08 as W3
from ..domains import w4_c08 as W4
from ..domains import w5_c08 as W5

LEVEL = 'exploration'
CORE = ['C', 'CC', 'C=C', 'C#C', 'CO', 'C=O', 'CCO', 'CC=O', 'C1CC1', 'C1CO1',
        'C1=CC1', '[CH3]', '[CH2]', '[CH]', 'C[CH2]', '[CH2][CH2]', 'C[O]',
        '[OH]', '[NH4+]', 'C[NH3+]', 'C[O-]', '[OH-]', 'CN', 'C=N', 'C#N',
        'c1ccccc1', 'Cc1ccccc1', 'c1ccoc1', 'C([Pt])C[Pt]', '[Pt]C([Pt])=O',
        'C1CC2CC12', 'C12CC1C2', 'C1CCC1', 'OCC=C', 'C=CC=C', '[CH2]C=C', 'O',
        '[H][H]', '[H]', 'N', 'C[N+](C)(C)C', 'C1CC1C1CC1', '[O]C[O]', '[C]',
        'C=[C]', 'C1CC2CCC12', 'C1CCC2CCC2C1', 'C1CC12CCC2', 'C1CC2CCCC12']
EXTRA = ['C1CCCCC1', 'C1CCC2CCCCC2C1', 'c1ccc2ccccc2c1', r'C/C=C\C', 'C/C=C/C',
         'C[N+](=O)[O-]', '[C-]#[O+]', 'C([Ru])C[Ru]', 'O=C=O', 'C1=CC=CC1',
         'OO', 'C1OC1C', '[CH2]O[CH2]', 'C[C]C', 'c1ccncc1']
BOUND = {
    'quick': 'A: 756 one-atom fragments; B: 5 atoms x 3144 constraints; B-pairs: '
             '5 x 40^2; C: 12^2 atom specs x 10 bond kinds (+1 constraint from '
             '10 on either atom); D: all 3-atom chains/branches/triangles over 4 '
             'specs x 4 kinds; D2: the same 3-atom topologies over the constraint-carrying '
             'kinds {ring, nonring, strong, partial}; E: 48 molecule prefixes x 2; F: every fragment of '
             'every shipped scheme; G: 5 layouts x 5 labelings of a 300-fragment '
             'slice; molecules: M(2) C/O/N with radicals + charged + curated '
             '(full set for A, B, E, F; 45-molecule core for the rest), each set '
             'followed by atom-reversed copies and 7 partly hydrogen-explicit objects; '
             'R: 1126 ring-vocabulary fragments (2 atoms x 168 ring constraints with '
             'digits 0..6; ring prefixes x 4 symbols; cyclic/linear x 2 bodies; C-C over '
             '{ring, nonring, single, any} x (none | 8 ring constraints)^2; 16^2 ordered '
             'constraint pairs on one atom; 3-atom chains/triangles over {ring, any} x 16 '
             'constraints) x all 109 saturated carbon skeletons (connected graphs, degree '
             '<= 4) with 1..6 atoms + 10 named cages (118 distinct molecules); '
             'S: 1175 fragments (235 element symbols = 117 ordinary + 118 lower-case '
             'spellings, each as `sym`, `sym?`, bonded atom, target of a plain and of a '
             'negated neighbour constraint) x 180 molecules (a bare atom of each of the '
             '118 elements + 62 aromatic / non-aromatic / first-letter look-alike '
             'compounds); N: 144 two-shell stars (centres {C, $?} x arms {H, C, $?} x '
             'bonds {single, any} x k = 1..4 arms x j = 0..3 H per arm, 2..17 atoms) x 33 '
             'molecules (13 alkanes with <= 6 carbons + 20 curated), full comparison '
             '(expected lists up to 31104 tuples, 88 pairs beyond 10000 raw matches); '
             'K: 10 call '
             'forms of GetQueryMatches (debug absent / 0 / False / 1 / True by position '
             'and keyword, molecule by keyword) x 6108 fragments (all of A; C {c} for all '
             '3144 constraints; all 1440 unconstrained two-atom fragments of C; 768 '
             '3-atom topologies over {C?, $?}) x 18 molecules; '
             'L: 998 large-ring fragments (2 atoms x 240 ring-size / ring-count '
             'constraints with ALL digits 0..9; ring prefixes x 4 symbols; cyclic/linear '
             'x 2 bodies; C-C over {ring, nonring, single, any} x (none | 8 constraints '
             'around the largest digit)^2; 12^2 ordered constraint pairs on one atom; '
             'C-C-C over {ring, nonring}^2 x 8 constraints on the middle atom) x 136 '
             'molecules: every cycloalkane and methylcycloalkane with 3..16 ring atoms '
             '(28) and every pair of rings 3 <= a <= b <= 10 linked by a bond, sharing '
             'one atom (spiro) or sharing one bond (fused) (3 x 36)',
    'thorough': 'as quick with C x 40 constraints, D + 4-atom chains/stars/'
                'squares, G on a 4000-fragment slice, molecules M(3) C/O/N with '
                'radicals (full set) and a 150-molecule core; R: the same 1126 '
                'fragments x all 462 saturated carbon skeletons with 1..7 atoms + '
                'the named cages; S and K as quick; N: 312 stars (centres {C, $?, X} x '
                'arms {H, C, $?, X}) x 45 molecules (22 alkanes with <= 7 carbons + 23 '
                'curated); L: 1254 fragments (quick\'s + C-C-C with one of 8 '
                'constraints on each end atom, 4 x 64) x 201 molecules (monocycles 3..20, '
                'ring pairs 3 <= a <= b <= 12)'}
RULE = ('every fragment of the families x every molecule of the set is read '
        'and matched by the implementation and by the reference; compared is '
        'the sorted list of match tuples (duplicates significant).  An '
        'evaluation is non-trivial when the expected match list is non-empty, '
        'or every fragment atom has a candidate by element class alone (so a '
        'suffix, prefix, bond kind or constraint - not the vocabulary - '
        'decides the outcome).  In family K every (fragment, molecule, call '
        'form) is one evaluation.  In family N a (fragment, molecule) whose '
        'all-wildcard star has >= 10000 embeddings is compared in full by a '
        'separate loop (keys N:capacity-truncated, N:beyond-capacity:extra)')
ASSUMPTIONS = ['RDKit ring perception (SSSR) defines "ring of size n" and "in n '
               'rings" for implementation and reference alike',
               'where the smallest ring set is not unique (cages, bridged systems) '
               'the ring set meant is the one the molecule object carries when it '
               'is handed to the matcher (RDKit\'s symmetrised set from SMILES '
               'parsing); the reference reads it from that object',
               '`*` suffix, `group` targets, boolean operators other than `!` '
               'and duplicate labels are outside the alphabet',
               '`M` only meets molecules whose atoms are H/C/N/O/Pt/Ru',
               'molecules are given as RDKit parses the SMILES (RDKit '
               'aromaticity model), hydrogens added by the matcher',
               'a matcher that refuses (raises) beyond some larger number of raw '
               'matches would be reported as N:beyond-capacity:EXC; the enumerated '
               'space reaches 31104 embeddings',
               'the element symbol `Xe` cannot be written: `X` is the heavy-atom '
               'class, implementation and reference reader both call `Xe labeled a` a '
               'syntax error; lower-case `xe` can be written and is in the alphabet',
               'lower-case spelling of an element that RDKit never flags aromatic '
               'denotes the empty set (element and aromatic flag are both required)',
               'ring sizes of the molecules reach 16 (thorough 20) atoms in single '
               'rings and 10 (thorough 12) in two-ring systems; macrocycles with '
               'hetero atoms, unsaturation or more than two rings are not enumerated']
MANIFEST = dict(
    technique='bounded-exhaustive enumeration of the fragment language x small '
              'molecules vs an independent backtracking matcher',
    text='The whole fragment language up to two atoms and one constraint (all '
         '3144 constraints, all symbols/prefixes/suffixes/bond kinds/molecule '
         'prefixes), constraint pairs, all 3-atom topologies, every shipped '
         'scheme fragment, and layout/label variants are matched against every '
         'molecule of an exhaustively enumerated small-molecule set by the '
         'implementation and by an independent reader+matcher; the sorted '
         'match lists must be identical.  The ring vocabulary (every ring-size '
         'and ring-count constraint, ring prefixes and bonds, alone and '
         'combined) is additionally matched against every saturated carbon '
         'skeleton up to 6 (thorough 7) atoms, cages with a non-unique '
         'smallest ring set included.  Every element symbol of the periodic '
         'table, ordinary and lower-case, is matched in every syntactic position '
         'against a bare atom of every element and the aromatic compounds of '
         'b/n/o/p/s/se/te/si.  Symmetric star fragments up to 17 atoms are '
         'matched against all alkanes up to 6 carbons, so that match lists of '
         'tens of thousands of tuples (beyond the 10000 raw matches the matcher '
         'asks for at first) are compared in full.  Every way of calling GetQueryMatches '
         '(debug flag absent / falsy / truthy, positional / keyword) must give '
         'the reference result.  The ring vocabulary with every digit 0..9 is '
         'matched against every saturated one- and two-ring carbon system '
         '(single, linked, spiro, fused) with ring sizes 3..10 and single rings up '
         'to 16 atoms (thorough 12 / 20), i.e. rings larger than any number the '
         'language can write.',
    note='Fragments above 3-4 atoms and molecules above the enumeration bound '
         'only occur through the curated list and the shipped schemes.',
    ref='5/C08')

_MOLS = {}


def molset(which, tier):
    key = (which, tier)
    if key in _MOLS:
        return _MOLS[key]
    from rdkit import Chem
    plain = which in ('cage', 'elements', 'stars', 'calls', 'bigring')
    if which == 'cage':
        # every saturated carbon skeleton up to 6 (T: 7) atoms + named cages
        smis = W3.skeletons(6 if tier == 'quick' else 7) + W3.CAGES
    elif which == 'elements':
        # a bare atom of every element + aromatic / non-aromatic compounds of
        # the elements that can be aromatic + first-letter look-alikes
        smis = W4.element_atoms() + W4.ELEMENT_MOLS
    elif which == 'stars':
        # every alkane up to 6 (T: 7) carbons + symmetric curated molecules
        smis = W4.alkanes(6 if tier == 'quick' else 7) + W4.STAR_CURATED
        if tier == 'thorough':
            smis += W4.STAR_CURATED_T
    elif which == 'calls':
        smis = list(W4.CALL_MOLS)
    elif which == 'bigring':
        # every one- / two-ring saturated carbon system: ring pairs 3..10
        # (T: 12), monocycles and methyl-monocycles 3..16 (T: 20)
        smis = [s for _, s in (W5.ring_systems(10, 16) if tier == 'quick'
                               else W5.ring_systems(12, 20))]
    elif which == 'core':
        smis = list(CORE)
        if tier == 'thorough':
            smis += EXTRA + [s for s in MD.M(3, ('C', 'O', 'N'), 2)][::4]
    else:
        n = 2 if tier == 'quick' else 3
        smis = list(CORE) + EXTRA + MD.CHARGED + MD.M(n, ('C', 'O', 'N'), 2)
    seen, out = set(), []
    for s in smis:
        m = Chem.MolFromSmiles(s)
        c = Chem.MolToSmiles(m)
        if c in seen:
            continue
        seen.add(c)
        out.append((s, m, ringref.G(Chem.AddHs(m))))
    # the same compounds again in another atom order (same canonical SMILES,
    # different indices), right after the set: anything remembered per
    # compound instead of per molecule object shows up
    extra = []
    for s, m, g in (out[:60] if not plain else []):
        n = m.GetNumAtoms()
        if n >= 2 and n <= 8:
            m2 = Chem.RenumberAtoms(m, list(reversed(range(n))))
            extra.append((s + ' (atoms reversed)', m2, ringref.G(Chem.AddHs(m2))))
    # molecule objects that already contain SOME of their hydrogens as atoms
    ps = Chem.SmilesParserParams()
    ps.removeHs = False
    for s in (['[2H]CC', '[H]C([H])C', '[H]OC', 'C([H])=C', '[H]C1CC1', '[2H]O',
               '[H][C]([H])C'] if not plain else []):
        m = Chem.MolFromSmiles(s, ps)
        if m is not None:
            extra.append((s + ' (partly explicit H)', m, ringref.G(Chem.AddHs(m))))
    out = out + extra
    _MOLS[key] = out
    return out


def signature(fr):
    cons = sorted(set('%s%s' % (c['kind'], '!' if c['neg'] else '')
                      for a in fr['atoms'] for c in a['cons']))
    if cons:
        return 'cons=' + ','.join(cons)
    if fr['molprefix']:
        return 'molprefix=' + ','.join(fr['molprefix'])
    if fr['bonds']:
        return 'bonds=' + ','.join(sorted(set(k for _, _, k in fr['bonds'])))
    t = fr['atoms'][0]['type']
    sym = t['symbol']
    if sym[0].islower() and sym not in ringref.SYMBOL_CLASSES:
        return 'symbol=lower-case'
    return 'atom=%s/%s/%s' % (t['prefix'], sym, t['suffix'])


def run_text(R, family, text, mols, base=None, base_text=None):
    """Read with both, match on every molecule, compare."""
    from pgradd.RINGParser import Read
    fr = ringref.parse_fragment(text)
    sig = signature(fr)
    try:
        q = Read(text)
    except Exception as e:     # noqa
        R.evals += 1
        R.nontrivial += 1
        R.outcomes['read-failed:' + type(e).__name__] += 1
        R.violation('%s:read-%s:%s' % (family, type(e).__name__, sig),
                    'the fragment %r is in the language but Read raised %s: %s'
                    % (text, type(e).__name__, e),
                    dict(kind='frag', text=text, smiles=None))
        return None
    results = []
    for smi, m, g in mols:
        st = {}
        exp = sorted(ringref.ref_matches_g(fr, g, st))
        na, nb = m.GetNumAtoms(), m.GetNumBonds()
        try:
            got = sorted(tuple(x) for x in q.GetQueryMatches(m))
        except Exception as e:    # noqa
            got = 'EXC:' + type(e).__name__
        if m.GetNumAtoms() != na or m.GetNumBonds() != nb:
            R.violation('%s:callers-molecule-modified' % family,
                        'matching %r changed the molecule object it was given (%s): '
                        '%d -> %d atoms' % (text, smi, na, m.GetNumAtoms()),
                        dict(kind='frag', text=text, smiles=None))
        R.evals += 1
        if exp or st.get('relaxed'):
            R.nontrivial += 1
        results.append(got)
        if got == exp:
            R.outcomes['same:nonempty' if exp else 'same:empty'] += 1
            if exp and len(R.samples) < 2:
                R.sample(dict(family=family, fragment=text, molecule=smi,
                              matches=[list(x) for x in exp[:3]]), limit=2)
            continue
        if isinstance(got, str):
            cls = got
        else:
            extra = [x for x in got if x not in exp]
            missing = [x for x in exp if x not in got]
            cls = ('extra+missing' if extra and missing else
                   'extra' if extra else 'missing' if missing else 'multiplicity')
        R.outcomes['differs:' + cls] += 1
        R.violation('%s:%s:%s' % (family, cls, sig),
                    '%r on %s: implementation %r, reference %r' % (
                        text, smi, got if isinstance(got, str) else got[:6],
                        exp[:6]), dict(kind='frag', text=text, smiles=smi))
    if base is not None and results != base:
        R.violation('%s:layout-or-label-dependent' % family,
                    'variant %r gives different matches than the base '
                    'rendering %r' % (text, base_text),
                    dict(kind='variant', text=text, base_text=base_text))
    return results


_RELAXED = {}


def relaxed_embeddings(shape, smi, g):
    """Embeddings of the star of that shape with every atom `any atom` and
    every bond `any` (reference matcher): an upper bound of the raw
    substructure matches of every star of the shape, independent of how the
    implementation splits the work."""
    key = (shape, smi)
    if key not in _RELAXED:
        fr = ringref.parse_fragment(F.render(W4.relaxed_star(*shape)))
        _RELAXED[key] = len(ringref.ref_matches_g(fr, g))
    return _RELAXED[key]


def run_star(R, shape, text, mols):
    """Family N.  Molecules on which the shape stays below the matcher's
    first batch of 10000 raw matches: the ordinary, full comparison of
    run_text.  At or beyond it: the same comparison, under keys of its own
    (a truncated result is N:capacity-truncated)."""
    import collections
    from pgradd.RINGParser import Read
    within = [t for t in mols
              if relaxed_embeddings(shape, t[0], t[2]) < W4.MATCH_CAP]
    beyond = [t for t in mols
              if relaxed_embeddings(shape, t[0], t[2]) >= W4.MATCH_CAP]
    res = run_text(R, 'N', text, within)
    if res is None:
        return
    for r in res:
        if not isinstance(r, str):
            R.extra['max_embeddings_compared_in_full'] = max(
                R.extra['max_embeddings_compared_in_full'], len(r))
    if not beyond:
        return
    fr = ringref.parse_fragment(text)
    q = Read(text)
    for smi, m, g in beyond:
        exp = collections.Counter(ringref.ref_matches_g(fr, g))
        try:
            got = collections.Counter(tuple(x) for x in q.GetQueryMatches(m))
        except Exception as e:    # noqa
            R.violation('N:beyond-capacity:EXC:' + type(e).__name__,
                        '%r on %s raised %s: %s' % (text, smi, type(e).__name__, e),
                        dict(kind='frag', text=text, smiles=smi))
            continue
        R.evals += 1
        if exp:
            R.nontrivial += 1
        extra = [x for x in got if got[x] > exp.get(x, 0)]
        if extra:
            R.outcomes['beyond-capacity:extra'] += 1
            R.violation('N:beyond-capacity:extra',
                        '%r on %s: returned %r which the pattern does not denote '
                        '(or not that often)' % (text, smi, extra[:4]),
                        dict(kind='frag', text=text, smiles=smi))
        elif got == exp:
            R.outcomes['beyond-capacity:complete'] += 1
            R.extra['max_embeddings_compared_in_full'] = max(
                R.extra['max_embeddings_compared_in_full'], sum(exp.values()))
        else:
            R.outcomes['beyond-capacity:truncated'] += 1
            missing = sum((exp - got).values())
            R.violation('N:capacity-truncated',
                        '%r on %s: %d of the %d embeddings the pattern denotes are '
                        'missing from the result' % (text, smi, missing,
                                                     sum(exp.values())),
                        dict(kind='frag', text=text, smiles=smi))


def run_calls(R, text, mols, forms=None):
    """Family K: one reading of the fragment, every molecule, every way of
    calling GetQueryMatches; each call is compared with the reference."""
    from pgradd.RINGParser import Read
    fr = ringref.parse_fragment(text)
    try:
        q = Read(text)
    except Exception as e:     # noqa
        R.evals += 1
        R.nontrivial += 1
        R.outcomes['read-failed:' + type(e).__name__] += 1
        R.violation('K:read-%s:%s' % (type(e).__name__, signature(fr)),
                    'the fragment %r is in the language but Read raised %s: %s'
                    % (text, type(e).__name__, e),
                    dict(kind='frag', text=text, smiles=None))
        return
    for smi, m, g in mols:
        st = {}
        exp = sorted(ringref.ref_matches_g(fr, g, st))
        na, nb = m.GetNumAtoms(), m.GetNumBonds()
        for form in forms or [f[0] for f in W4.CALL_FORMS]:
            try:
                got = sorted(tuple(x) for x in W4.call(q, m, form))
            except Exception as e:    # noqa
                got = 'EXC:' + type(e).__name__
            if m.GetNumAtoms() != na or m.GetNumBonds() != nb:
                R.violation('K:callers-molecule-modified',
                            'matching %r, called as %s, changed the molecule object '
                            'it was given (%s)' % (text, form, smi),
                            dict(kind='call', text=text, smiles=smi, form=form))
            R.evals += 1
            if exp or st.get('relaxed'):
                R.nontrivial += 1
            if got == exp:
                R.outcomes['same:nonempty' if exp else 'same:empty'] += 1
                continue
            if isinstance(got, str):
                cls = got
            else:
                extra = [x for x in got if x not in exp]
                missing = [x for x in exp if x not in got]
                cls = ('extra+missing' if extra and missing else
                       'extra' if extra else 'missing' if missing else 'multiplicity')
            R.outcomes['differs:' + cls] += 1
            R.violation('K:%s:%s' % (cls, form),
                        '%r on %s called as GetQueryMatches [%s]: implementation %r, '
                        'reference %r' % (text, smi, form,
                                          got if isinstance(got, str) else got[:6], exp[:6]),
                        dict(kind='call', text=text, smiles=smi, form=form))
    if len(R.samples) < 1:
        R.sample(dict(family='K', fragment=text, molecules=len(mols),
                      call_forms=[f[0] for f in W4.CALL_FORMS]), limit=1)


def chunks(it, i, n):
    for k, x in enumerate(it):
        if k % n == i:
            yield x


def scheme_fragments():
    import yaml
    out = []
    seen = set()
    for lib in libs.LIBS:
        p = os.path.join(libs.data_dir(), lib, 'scheme.yaml')
        d = yaml.safe_load(open(p))
        for sec in ('patterns', 'other_descriptors'):
            for e in d.get(sec) or []:
                t = e.get('connectivity')
                if t and t not in seen:
                    seen.add(t)
                    out.append((lib, t))
    return out


def shards(tier, seed):
    out = []
    for i in range(4):
        out.append(('A', i, 4))
    for i in range(48):
        out.append(('B', i, 48))
    for i in range(16):
        out.append(('Bpairs', i, 16))
    for i in range(48 if tier == 'quick' else 96):
        out.append(('C', i, 48 if tier == 'quick' else 96))
    for i in range(16 if tier == 'quick' else 48):
        out.append(('D', i, 16 if tier == 'quick' else 48))
    out.append(('E', 0, 1))
    for i in range(16):
        out.append(('D2', i, 16))
    for i in range(8):
        out.append(('F', i, 8))
    for i in range(8 if tier == 'quick' else 32):
        out.append(('G', i, 8 if tier == 'quick' else 32))
    for i in range(16 if tier == 'quick' else 64):
        out.append(('R', i, 16 if tier == 'quick' else 64))
    for i in range(8):
        out.append(('S', i, 8))
    for i in range(13):          # 13: coprime to the period (16) of the shapes
        out.append(('N', i, 13))
    for i in range(16):
        out.append(('K', i, 16))
    for i in range(16 if tier == 'quick' else 32):
        out.append(('L', i, 16 if tier == 'quick' else 32))
    return out


def run_shard(shard, tier):
    R = Result()
    fam, i, n = shard
    full = lambda: molset('full', tier)     # noqa
    core = lambda: molset('core', tier)     # noqa
    sub = F.SUB10 if tier == 'quick' else F.SUB40
    if fam == 'A':
        for f in chunks(F.family_A(), i, n):
            run_text(R, 'A', F.render(f), full())
    elif fam == 'B':
        for f in chunks(F.family_B(), i, n):
            run_text(R, 'B', F.render(f), full())
    elif fam == 'Bpairs':
        for f in chunks(F.family_Bpairs(), i, n):
            run_text(R, 'Bpairs', F.render(f), core())
    elif fam == 'C':
        for f in chunks(F.family_C(sub), i, n):
            run_text(R, 'C', F.render(f), core())
    elif fam == 'D':
        for f in chunks(F.family_D(tier), i, n):
            run_text(R, 'D', F.render(f), core())
    elif fam == 'D2':
        for f in chunks(F.family_D2(), i, n):
            run_text(R, 'D2', F.render(f), core())
    elif fam == 'E':
        for f in F.family_E():
            run_text(R, 'E', F.render(f), full())
    elif fam == 'F':
        for lib, t in chunks(scheme_fragments(), i, n):
            try:
                ringref.parse_fragment(t)
            except NotImplementedError:
                R.outcomes['F:outside-alphabet(unjudged)'] += 1
                continue
            run_text(R, 'F', t, full())
            R.sample(dict(family='F', scheme=lib, text=t), limit=1)
    elif fam == 'G':
        src = list(F.family_C(sub))
        want = 300 if tier == 'quick' else 4000
        step = max(1, len(src) // want)
        src = src[::step][:want]
        for f in chunks(src, i, n):
            base = run_text(R, 'G', F.render(f), molset('core', 'quick'))
            if base is None:
                continue
            for lay in F.LAYOUTS:
                for lab in F.LABELS:
                    if (lay, lab) == ('line', 'a'):
                        continue
                    run_text(R, 'G', F.render(f, lay, lab, name='Q_%s' % lab[:1]),
                             molset('core', 'quick'), base=base,
                             base_text=F.render(f))
    elif fam == 'R':
        for f in chunks(W3.ring_fragments(), i, n):
            run_text(R, 'R', F.render(f), molset('cage', tier))
    elif fam == 'S':
        for f in chunks(W4.element_fragments(), i, n):
            run_text(R, 'S', F.render(f), molset('elements', tier))
    elif fam == 'N':
        for shape, f in chunks(W4.star_fragments(tier), i, n):
            run_star(R, shape, F.render(f), molset('stars', tier))
    elif fam == 'K':
        for f in chunks(W4.call_fragments(), i, n):
            run_calls(R, F.render(f), molset('calls', tier))
    elif fam == 'L':
        for f in chunks(W5.big_ring_fragments(tier), i, n):
            run_text(R, 'L', F.render(f), molset('bigring', tier))
    if R.evals and not R.samples:
        R.sample(dict(family=fam, shard=i))
    return R


def replay(w):
    from rdkit import Chem
    R = Result()
    if w['kind'] == 'variant':
        mols = molset('core', 'quick')
        base = run_text(R, 'replay', w['base_text'], mols)
        run_text(R, 'replay', w['text'], mols, base=base, base_text=w['base_text'])
        return dict(violates=bool(R.violations),
                    detail='\n'.join(v['msg'] for v in R.violations) or 'holds')
    if w['kind'] == 'call':
        m = Chem.MolFromSmiles(w['smiles'])
        run_calls(R, w['text'], [(w['smiles'], m, ringref.G(Chem.AddHs(m)))],
                  forms=[w['form']])
        return dict(violates=bool(R.violations),
                    detail='\n'.join(v['msg'] for v in R.violations) or 'holds')
    if w['smiles'] is None:
        mols = molset('core', 'quick')
    else:
        m = Chem.MolFromSmiles(w['smiles'])
        mols = [(w['smiles'], m, ringref.G(Chem.AddHs(m)))]
    run_text(R, 'replay', w['text'], mols)
    return dict(violates=bool(R.violations),
                detail='\n'.join(v['msg'] for v in R.violations) or 'holds')
