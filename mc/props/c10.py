"""C10 - unit expressions evaluate to the exact SI value and dimension.

Space  : every unit name x every SI prefix (bare and inside `2 u`, `u^2`,
         `1/u`); every expression with <= 2 factors over the full factor
         alphabet and <= 3 factors over a reduced one, joined by `*`, `/` or
         juxtaposition, with optional powers; every single-token deletion,
         insertion and substitution (over a 13-token edit alphabet) of every
         <= 2-factor expression over the reduced alphabet; every ordered pair of
         unit names for conversion; pairs of texts that differ only by white
         space, evaluated back to back.
         Wave 3 - decimal (non-dyadic) powers whose floats do not cancel
         exactly: every `u^p j u^q` (8 bases x 16 powers squared x 3 joins) bare
         and inside 4 contexts (`J/mol/..`, `kg ..`, `1/(..)`, `(..)^2`); every
         `u^p j1 u^q j2 u^r` and `u^p j1 (u^q j2 u^r)` over 8 decimal powers
         (4 bases in quick, 8 in thorough); and every conversion
         (source `u^p j u^q`) -> (target `u^r`) there and back, r ranging over
         every exactly reachable sum/difference p+q, p-q of the 8 powers.
Oracle : models/unitsref.py (own table, own parser, Fraction exponents).
"""
import itertools
import json
import math
import os
import subprocess
import sys
import tempfile

from .. import REPO, VERIF
from ..runner import Result, silence
from ..models import unitsref as ur
from ..domains import w4_c10 as w4
from ..domains.libs import LIBS

LEVEL = 'exploration'
NUMBERS = ['2', '0.5', '-3', '10']
PREFIXED = ['km', 'kJ', 'kcal', 'mmol', 'cm', 'ms', 'uL', 'hPa', 'MW', 'dam',
            'daN', 'mK', 'kg', 'mL', 'dag']
POWERS = ['', '^2', '^-1', '^(-1)', '^0.5', '^-2', '^0']
RED_BASES = ['2', '-3', 'm', 's', 'kg', 'J', 'kcal', 'mol', 'K', 'L',
             '(m s)', '(J/mol)']
RED_POWERS = ['', '^2', '^-1', '^0.5']
JOIN = [' * ', '/', ' ']
EDIT_TOKENS = ['(', ')', '^', '*', '/', '-', '.', 'm', 'kJ', '2', '-1', 'foo',
               'nan', 'inf']
# wave 3: powers written as decimals.  Apart from 0.5, 1 and 2 none of them is a
# binary fraction, so sums and differences of their floats miss the exact
# (Fraction) result by an ulp or so: 0.3-0.1-0.2 = -2.8e-17, 1.4-0.4 =
# 0.9999999999999999, 0.1+0.2 = 0.30000000000000004.
FRAC_BASES = ['m', 's', 'K', 'mol', 'cm', 'km', 'kJ', '(J/mol)']
FRAC_POWERS = ['0.1', '0.2', '0.3', '0.4', '0.6', '0.7', '0.9', '1.1', '1.4',
               '1.9', '2.3', '-0.3', '-1.7', '0.5', '1', '2']
FRAC_RED_POWERS = ['0.1', '0.2', '0.3', '0.4', '0.7', '1.4', '2.3', '-0.3']
FRAC_CONTEXTS = ['%s', 'J/mol/%s', 'kg %s', '1/(%s)', '(%s)^2']
FRAC3_BASES = {'quick': 4, 'thorough': len(FRAC_BASES)}
FRAC_CONV_BASES = {'quick': ['m', 'mol', 'cm', 'kJ'], 'thorough': FRAC_BASES}
BOUND = {'quick': 'names x prefixes: all; <=2 factors over %d bases x %d powers; '
                  '3 factors over %d bases x %d powers; one-token edits of all '
                  '<=2-factor reduced expressions; all ordered name pairs' % (
                      len(NUMBERS) + len(ur.TABLE) + len(PREFIXED) + 2,
                      len(POWERS), len(RED_BASES), len(RED_POWERS)) +
                  '; decimal powers: u^p j u^q over %d bases x %d^2 powers x 3 '
                  'joins x %d contexts; u^p j u^q j u^r flat and right-nested '
                  'over %d bases x %d^3 powers x 9 joins; conversions '
                  '(u^p j u^q) <-> u^r over %d bases x %d^2 x 3 sources x every '
                  'reachable exponent r' % (
                      len(FRAC_BASES), len(FRAC_POWERS), len(FRAC_CONTEXTS),
                      FRAC3_BASES['quick'], len(FRAC_RED_POWERS),
                      len(FRAC_CONV_BASES['quick']), len(FRAC_RED_POWERS)) +
                  '; prefixed<->bare conversions: all names x all prefixes x 2 '
                  'directions; process histories (one interpreter each): '
                  '[import M, table] and [import pgradd.Units, table, import '
                  'M, table] for each of the %d modules of the pgradd package, '
                  'all modules at once in 2 orders, [Load L, table] for each '
                  'of the %d bundled libraries (%d histories), table = names x '
                  'prefixes x 5 spellings + prefixed<->bare conversions' % (
                      len(w4.package_modules(REPO)), len(LIBS),
                      len(w4.histories(REPO, LIBS))),
         'thorough': 'as quick, plus 3 factors over the reduced bases with all '
                     '7 powers, and all two-token edits of 1-factor and '
                     'one-token edits of 3-factor reduced expressions; the '
                     'decimal-power triples and conversions over all %d '
                     'decimal-power bases; the process histories with all '
                     'ordered name-pair conversions added to every table'
                     % len(FRAC_BASES)}
RULE = ('the whole language over the stated factor alphabet up to the size '
        'bound is generated; each text is evaluated by eval_qty and by the '
        'reference evaluator; non-trivial = the text contains a prefix, a '
        'power, a parenthesis, a customary unit or is a malformed variant the '
        'reference rejects; texts whose value the statement leaves open '
        '(fractional power of a negative number, division by zero) are counted '
        'but not judged; decimal-power families: every combination of the '
        'stated bases, decimal powers, joins and contexts is generated, the '
        'expected exponents are exact Fractions of the decimal texts (so '
        '0.3-0.1-0.2 is exactly 0 and 1.4-0.4 exactly 1); a conversion case is '
        'one (source expression, target u^r) pair, compatible iff the exact '
        'exponents are equal; sources the reference finds dimensionless are '
        'counted but not converted (with_units returns a plain number); '
        'process histories: the module list is read from the source tree '
        'under test (every .py file of the package except tests), every '
        'history of the stated shapes is run in a fresh interpreter and every '
        'case of every table in it is judged by the same reference as the '
        'history-free families (the expectation does not depend on the '
        'history); an import or load that itself fails ends the history and is '
        'counted, not judged')
ASSUMPTIONS = ['magnitudes compared to 1e-6 relative (CODATA vintage of eV, u, '
               'molecule differs by < 1e-7; a wrong prefix or definition is off '
               'by >= 7e-4)', 'BTU is the thermochemical BTU',
               'name resolution: exact name, one-letter prefix, then da '
               '(documented in db.py)',
               'a power written as a decimal denotes that decimal exactly '
               '(0.3 = 3/10), so exponents that cancel on paper cancel in the '
               'result; observed exponents are compared to 1e-9 and the '
               'dimensionless/compatible decision must be the exact one',
               'the documented unit names mean the same whatever other part '
               'of the pgradd package has been imported or used in the '
               'process (the statement has no proviso about loaded modules); '
               'importing a pgradd module and loading a bundled library are '
               'the only history actions enumerated']
MANIFEST = dict(
    technique='bounded-exhaustive enumeration of the unit-expression language '
              '(plus all one-token deviations) vs an exact reference evaluator',
    text='Every documented unit name with every SI prefix, every expression of '
         'the unit grammar up to 2 factors over the full alphabet and 3 factors '
         'over a reduced one, every one-token deletion/insertion/substitution '
         'of the small expressions, and every ordered pair of names for '
         'conversion are evaluated by the implementation and by an independent '
         'evaluator with exact Fraction exponents. Products and quotients of '
         'up to three decimal (non-binary) powers of one unit, bare and inside '
         'compound units, must have the exactly cancelled dimension, and every '
         'such two-factor expression is converted to every single power u^r '
         'it could equal and back. Because the unit table is one '
         'process-wide registry, the whole name x prefix table (values, '
         'dimensions and prefixed<->bare conversions) is judged again in fresh '
         'interpreters after importing each single module of the package '
         '(before and after a first use of the units), after importing all of '
         'them, and after loading each bundled library.',
    note='Expressions deeper than the bound, e/E exponents and division by a '
         'literal zero are not judged.',
    ref='5/C10')


def all_names():
    return sorted(ur.TABLE)


def impl_eval(text):
    from pgradd.Units import eval_qty
    from pgradd.Error import UnitsParseError
    try:
        q = eval_qty(text)
    except UnitsParseError:
        return ('UnitsParseError',)
    except Exception as e:   # noqa
        return ('EXC', type(e).__name__)
    return observe(q)


def observe(q):
    if isinstance(q, (int, float)) and not isinstance(q, bool):
        return ('val', float(q), ur.ZERO, 'number')
    try:
        mag = float(q.value)
        exps = tuple(float(x) for x in q.units.exps)
    except Exception:     # noqa
        try:
            return ('val', float(q), None, type(q).__name__)
        except Exception as e:   # noqa
            return ('EXC', 'unobservable:' + type(e).__name__)
    return ('val', mag, exps, 'Quantity')


def ref_eval(text):
    try:
        return ('val',) + ur.evaluate(text)
    except ur.RefParseError:
        return ('reject',)
    except ur.RefUnsupported:
        return ('open',)
    except (OverflowError, ZeroDivisionError):
        return ('open',)


def compare(text):
    """-> (class, message) with class 'ok' | 'open' | problem class."""
    want = ref_eval(text)
    if want[0] == 'open':
        return 'open', ''
    got = impl_eval(text)
    if want[0] == 'reject':
        if got[0] == 'UnitsParseError':
            return 'ok', ''
        if got[0] == 'EXC':
            return ('malformed-raised-' + got[1],
                    '%r is malformed/unknown; eval_qty raised %s instead of '
                    'UnitsParseError' % (text, got[1]))
        return ('malformed-accepted',
                '%r is malformed/unknown but evaluated to %r' % (text, got[1:]))
    if got[0] != 'val':
        return ('valid-' + (got[1] if got[0] == 'EXC' else 'rejected'),
                '%r is valid (= %r) but eval_qty raised %s' % (
                    text, want[1:], got[-1] if got[0] == 'EXC' else got[0]))
    mag, exps = want[1], want[2]
    if got[2] is not None:
        if any(abs(float(e) - g) > 1e-9 for e, g in zip(exps, got[2])):
            return ('wrong-dimension', '%r: exponents %r, expected %r' % (
                text, got[2], tuple(map(float, exps))))
    dimensionless = all(e == 0 for e in exps)
    if dimensionless != (got[3] == 'number'):
        return ('wrong-type', '%r: result type %s but dimensionless=%s' % (
            text, got[3], dimensionless))
    if not (abs(got[1] - mag) <= 1e-6 * abs(mag)):
        return ('wrong-magnitude', '%r: SI magnitude %r, expected %r' % (
            text, got[1], mag))
    return 'ok', ''


def record(R, family, text, nontrivial=True, keyhint=None):
    cls, msg = compare(text)
    R.evals += 1
    if cls == 'open':
        R.outcomes['unjudged(statement open)'] += 1
        return cls
    if nontrivial:
        R.nontrivial += 1
    R.outcomes[family + ':' + ('ok' if cls == 'ok' else cls)] += 1
    if cls != 'ok':
        R.violation('%s:%s%s' % (family, cls, ':' + keyhint if keyhint else ''),
                    msg, dict(kind='expr', text=text))
    return cls


# ------------------------------------------------------------- families

def run_names(R):
    bad_units = set()
    for u in all_names():
        if compare(u)[0] != 'ok':
            bad_units.add(u)
    for u in all_names():
        for p in [''] + sorted(ur.PREFIX):
            name = p + u
            hint = ('unit=' + u) if u in bad_units else ('prefix=' + p if p else 'unit=' + u)
            try:
                resolved = ur.lookup(name)
                # e.g. 'min' = minute, not milli-inch: the hint follows the
                # reference resolution
                if name in ur.TABLE and p:
                    hint = 'unit=' + name
            except ur.RefParseError:
                resolved = None
            for text in (name, '2 ' + name, name + '^2', '1/' + name,
                         '(' + name + ')'):
                record(R, 'name', text, nontrivial=bool(p) or u not in
                       ('m', 's', 'A', 'K', 'mol', 'cd'), keyhint=hint)
            R.sample(dict(text='2 ' + name, reference=str(resolved)), limit=3)
    # unknown names
    for name in ['foo', 'kfoo', 'dafoo', 'Km', 'KM', 'mm m m', 'daa', 'da',
                 'kk', 'kkm', 'mda', 'x', 'km2', 'μm', 'dam', 'dadam']:
        record(R, 'unknown', name)


def factors_full():
    bases = NUMBERS + all_names() + PREFIXED + ['(m s)', '(J/mol K)']
    return [b + p for b in bases for p in POWERS]


def factors_reduced(powers=RED_POWERS):
    return [b + p for b in RED_BASES for p in powers]


def run_pairs_full(R, i, n):
    F = factors_full()
    for a in F[i::n]:
        record(R, 'expr1', a)
        for j in JOIN:
            for b in F:
                record(R, 'expr2', a + j + b)
        R.sample(dict(text=a + JOIN[1] + F[7]), limit=2)


def run_triples(R, i, n, tier):
    F = factors_reduced(POWERS if tier == 'thorough' else RED_POWERS)
    for a in F[i::n]:
        for j1 in JOIN:
            for b in F:
                for j2 in JOIN:
                    for c in F:
                        record(R, 'expr3', a + j1 + b + j2 + c)
        R.sample(dict(text=a + '/' + F[5] + ' ' + F[9]), limit=2)
    if i == 0:
        # associativity / precedence witnesses named in the design
        for t in ['J/mol*K', 'J/mol K', 'J/(mol K)', 'm s^2', '(m s)^2',
                  'J/mol/K', 'kg m/s^2', '2 m^2 s^-1', '1/(6.02214179*10^23) mol',
                  '10^-5 N', '1.0/760 atm', '33000 ft lbf/min']:
            record(R, 'named', t)


def edits(tokens):
    for i in range(len(tokens)):
        yield tokens[:i] + tokens[i + 1:]
        for e in EDIT_TOKENS:
            yield tokens[:i] + [e] + tokens[i + 1:]
    for i in range(len(tokens) + 1):
        for e in EDIT_TOKENS:
            yield tokens[:i] + [e] + tokens[i:]


def run_malformed(R, i, n, tier):
    F = factors_reduced()
    seeds = list(F)
    for a in F:
        for j in JOIN:
            for b in F:
                seeds.append(a + j + b)
    if tier == 'thorough':
        G = F[::3]
        for a in G:
            for b in G:
                for c in G:
                    seeds.append(a + '/' + b + ' ' + c)
    seen = set()
    for s in seeds[i::n]:
        toks = ur.tokenize(s)
        for t in edits(toks):
            text = ' '.join(t)
            if text in seen:
                continue
            seen.add(text)
            record(R, 'edit1', text)
            if tier == 'thorough' and len(toks) <= 3:
                for t2 in edits(t):
                    text2 = ' '.join(t2)
                    if text2 not in seen:
                        seen.add(text2)
                        record(R, 'edit2', text2)
        R.sample(dict(seed=s, variant=text), limit=2)
    if i == 0:
        for text in ['', ' ', '()', '(', ')', '^', '2^', 'm^', 'm^^2', 'm^m',
                     '(m', 'm)', 'm^(2', 'm^2)', 'm^(2 2)', 'm//s', 'm**2',
                     '* m', 'm *', '/', 'nan', 'inf', 'infinity', 'NaN m',
                     '2 inf', 'm^nan', '1.2.3 m', '. m', '- m', 'm^-', '1e3 m',
                     'm^1e3']:
            record(R, 'edit1', text)


def run_conversions(R):
    from pgradd.Units import eval_qty, in_units, to_SI_from, from_SI_to, with_units
    from pgradd.Error import UnitsError
    names = all_names() + PREFIXED
    for a in names:
        ma, ea = ur.lookup(a)
        for b in names:
            mb, eb = ur.lookup(b)
            R.evals += 1
            R.nontrivial += 1
            x = 3.25
            wit = dict(kind='conv', a=a, b=b)
            try:
                q = with_units(x, a)
                v = q.in_units(b)
                v2 = in_units(q, b)
                got = 'val'
            except UnitsError:
                got = 'UnitsError'
            except Exception as e:   # noqa
                got = 'EXC:' + type(e).__name__
            if ea != eb:
                R.outcomes['conv:incompatible:' + got] += 1
                if got != 'UnitsError':
                    R.violation('conv:incompatible-not-rejected',
                                'converting %s to %s: %s' % (a, b, got), wit)
                continue
            R.outcomes['conv:compatible:' + got] += 1
            if got != 'val':
                R.violation('conv:compatible-' + got,
                            'converting %s to %s raised %s' % (a, b, got), wit)
                continue
            want = x * ma / mb
            bad = None
            if isinstance(v, bool) or not isinstance(v, (int, float)):
                bad = 'result is a %s, not a plain number' % type(v).__name__
            elif abs(v - want) > 1e-6 * abs(want) or v != v2:
                bad = '%r %s = %r %s, expected %r' % (x, a, v, b, want)
            else:
                back = with_units(v, b).in_units(a)
                if abs(back - x) > 1e-12 * x:
                    bad = 'there and back gives %r for %r' % (back, x)
                si = to_SI_from(x, a)
                if abs(si - x * ma) > 1e-6 * abs(x * ma):
                    bad = 'to_SI_from(%r, %s) = %r, expected %r' % (x, a, si, x * ma)
                elif abs(from_SI_to(si, a) - x) > 1e-12 * x:
                    bad = 'from_SI_to(to_SI_from(x)) = %r' % from_SI_to(si, a)
            if bad:
                R.violation('conv:wrong-value', bad, wit)
        R.sample(dict(convert='3.25 %s -> %s' % (a, names[3])), limit=2)


def run_spacing(R):
    """White space is an operator (juxtaposition) and a token separator: texts
    that differ only by spaces are different expressions.  Each collision pair
    is evaluated back to back in this process, half of them glued-first, half
    spaced-first."""
    pairs = []
    for p in ('m', 'h', 'P', 'u', 'k', 'c', 'da', 'M'):
        for u in ('s', 'K', 'mol', 'g', 'J', 'm', 'in', 'L'):
            pairs.append((p + u, p + ' ' + u))
    pairs += [('25 m', '2 5 m'), ('10 kJ', '1 0 kJ'), ('mmol', 'm mol'), ('mmol', 'mm ol'),
              ('kcal', 'k cal'), ('min', 'm in'), ('ft', 'f t'), ('Pa', 'P a'),
              ('2.5 m', '2 .5 m'), ('m^-1', 'm^ -1'), ('m^2 s', 'm^2s'), ('kg m', 'kgm')]
    for n, (glued, spaced) in enumerate(pairs):
        order = (glued, spaced) if n % 2 == 0 else (spaced, glued)
        for text in order:
            record(R, 'spacing', text)
        # and once more, the other way round, with the roles swapped by a
        # harmless prefix that keeps the pair distinct from the first visit
        for text in reversed(order):
            record(R, 'spacing', '2 ' + text)
    R.sample(dict(spacing_pair=list(pairs[0])), limit=1)


# ---------------------------------------------- wave 3: decimal powers

def frac_factor(u, p):
    return u if p == '1' else u + '^' + p


def run_frac2(R, bi):
    """u^p j u^q for every ordered pair of decimal powers, every join, bare
    and inside every context."""
    u = FRAC_BASES[bi]
    for p in FRAC_POWERS:
        for q in FRAC_POWERS:
            for j in JOIN:
                core = frac_factor(u, p) + j + frac_factor(u, q)
                for ctx in FRAC_CONTEXTS:
                    record(R, 'frac2', ctx % core)
        R.sample(dict(text=FRAC_CONTEXTS[1] % (frac_factor(u, p) + ' ' +
                                               frac_factor(u, '0.9'))), limit=1)


def run_frac3(R, bi, pi):
    """u^p j1 u^q j2 u^r (left-associative) and u^p j1 (u^q j2 u^r)."""
    u = FRAC_BASES[bi]
    p = FRAC_RED_POWERS[pi]
    a = frac_factor(u, p)
    for q in FRAC_RED_POWERS:
        b = frac_factor(u, q)
        for r in FRAC_RED_POWERS:
            c = frac_factor(u, r)
            for j1 in JOIN:
                for j2 in JOIN:
                    record(R, 'frac3', a + j1 + b + j2 + c)
                    record(R, 'frac3', a + j1 + '(' + b + j2 + c + ')')
    R.sample(dict(text=a + '/' + b + '/' + c), limit=1)


def _dec(text):
    from fractions import Fraction
    return Fraction(text)


def frac_targets(u):
    """u^r for every r = p+q or p-q (exact) over the reduced decimal powers,
    written as a decimal with one digit; r = 1 is the bare unit; r = 0 has no
    target (the source is a pure number)."""
    rs = set()
    for p in FRAC_RED_POWERS:
        for q in FRAC_RED_POWERS:
            rs.add(_dec(p) + _dec(q))
            rs.add(_dec(p) - _dec(q))
    out = []
    for r in sorted(rs):
        if r == 0:
            continue
        tenths = r * 10
        assert tenths.denominator == 1
        n = abs(int(tenths))
        if n % 10 == 0:
            txt = '%s%d' % ('-' if r < 0 else '', n // 10)
        else:
            txt = '%s%d.%d' % ('-' if r < 0 else '', n // 10, n % 10)
        out.append(frac_factor(u, txt))
    return out


_REF_CACHE = {}


def ref_cached(text):
    if text not in _REF_CACHE:
        _REF_CACHE[text] = ur.evaluate(text)
    return _REF_CACHE[text]


def conv_case(a, b, x=3.25):
    """Convert x `a` to `b` (and back).  -> (outcome label, None | (key, msg))"""
    from pgradd.Units import in_units, to_SI_from, from_SI_to, with_units
    from pgradd.Error import UnitsError
    ma, ea = ref_cached(a)
    mb, eb = ref_cached(b)
    if all(e == 0 for e in ea):
        return 'source-dimensionless(not converted)', None
    try:
        q = with_units(x, a)
        v = q.in_units(b)
        v2 = in_units(q, b)
        got = 'val'
    except UnitsError:
        got = 'UnitsError'
    except Exception as e:   # noqa
        got = 'EXC:' + type(e).__name__
    if ea != eb:
        if got != 'UnitsError':
            return 'incompatible:' + got, (
                'fracconv:incompatible-not-rejected',
                'converting %r (exponents %s) to %r (exponents %s): %s' % (
                    a, tuple(map(float, ea)), b, tuple(map(float, eb)), got))
        return 'incompatible:' + got, None
    if got != 'val':
        return 'compatible:' + got, (
            'fracconv:compatible-' + got,
            'converting %r to %r (both exactly %s) raised %s' % (
                a, b, tuple(map(float, ea)), got))
    want = x * ma / mb
    bad = None
    if isinstance(v, bool) or not isinstance(v, (int, float)):
        bad = 'result is a %s, not a plain number' % type(v).__name__
    elif abs(v - want) > 1e-6 * abs(want) or v != v2:
        bad = '%r %s = %r %s, expected %r' % (x, a, v, b, want)
    else:
        try:
            back = with_units(v, b).in_units(a)
        except Exception as e:   # noqa
            return 'compatible:back-' + type(e).__name__, (
                'fracconv:compatible-back-' + type(e).__name__,
                '%r %s converts to %r %s, but converting that back raised %s'
                % (x, a, v, b, type(e).__name__))
        if isinstance(back, bool) or not isinstance(back, (int, float)):
            bad = 'there and back gives a %s' % type(back).__name__
        elif abs(back - x) > 1e-12 * x:
            bad = 'there and back (%s -> %s -> %s) gives %r for %r' % (
                a, b, a, back, x)
        else:
            si = to_SI_from(x, a)
            if abs(si - x * ma) > 1e-6 * abs(x * ma):
                bad = 'to_SI_from(%r, %r) = %r, expected %r' % (x, a, si, x * ma)
            elif abs(from_SI_to(si, a) - x) > 1e-12 * x:
                bad = 'from_SI_to(to_SI_from(x), %r) = %r' % (
                    a, from_SI_to(si, a))
    if bad:
        return 'compatible:wrong-value', ('fracconv:wrong-value', bad)
    return 'compatible:val', None


def run_fracconv(R, tier, bi, pi):
    u = FRAC_CONV_BASES[tier][bi]
    p = FRAC_RED_POWERS[pi]
    targets = frac_targets(u)
    for q in FRAC_RED_POWERS:
        for j in JOIN:
            a = frac_factor(u, p) + j + frac_factor(u, q)
            n_ok = 0
            for b in targets:
                label, viol = conv_case(a, b)
                R.evals += 1
                R.nontrivial += 1
                R.outcomes['fracconv:' + label] += 1
                n_ok += label == 'compatible:val'
                if viol:
                    R.violation(viol[0], viol[1],
                                dict(kind='exprconv', a=a, b=b))
            # every non-dimensionless source has exactly one target it equals
            if not all(e == 0 for e in ref_cached(a)[1]):
                assert sum(ref_cached(b)[1] == ref_cached(a)[1]
                           for b in targets) == 1, (a, targets)
        R.sample(dict(convert='3.25 %s -> each of %d targets %s .. %s' % (
            a, len(targets), targets[0], targets[-1])), limit=1)

# ------------------------------------- wave 4: prefixes and process histories

def run_prefixconv(R):
    """Every name x every prefix converted to the bare name and back again
    (and the bare name to the prefixed one).  The reference resolves the
    prefixed text by the documented rule, so `min` is the minute and
    converting it to `in` must be refused."""
    for u in all_names():
        for p in [''] + sorted(ur.PREFIX):
            a = p + u
            for src, dst in ((a, u), (u, a)):
                label, viol = conv_case(src, dst)
                R.evals += 1
                R.nontrivial += 1
                R.outcomes['prefixconv:' + label] += 1
                if viol:
                    R.violation(viol[0].replace('fracconv:', 'prefixconv:') +
                                (':prefix=' + p if p else ':unit=' + u),
                                viol[1], dict(kind='exprconv', a=src, b=dst))
    R.sample(dict(convert='3.25 %s -> %s and back' % (a, u)), limit=1)


def run_table(R, step):
    run_names(R)
    run_prefixconv(R)
    if 'conv' in step[1:]:
        run_conversions(R)


def do_action(step):
    """-> None | text describing why the action itself failed."""
    import importlib
    if step[0] not in ('import', 'load'):
        raise ValueError('unknown history action %r' % (step,))
    try:
        if step[0] == 'import':
            importlib.import_module(step[1])
        else:
            from ..domains import libs
            libs.load(step[1])
    except Exception as e:   # noqa
        return '%s(%s) raised %s' % (step[0], step[1], type(e).__name__)
    return None


def show(steps):
    return ', '.join(s[0] if len(s) == 1 else '%s %s' % (s[0], s[1])
                     for s in steps)


def walk_history(R, steps):
    steps = [list(s) for s in steps]
    for k, step in enumerate(steps):
        if step[0] != 'table':
            failed = do_action(step)
            if failed:
                R.evals += 1
                R.outcomes['history:action failed, history ended (unjudged): '
                           + failed] += 1
                R.notes.append('history %s: %s' % (show(steps), failed))
                return
            continue
        sub = Result()
        run_table(sub, step)
        R.evals += sub.evals
        R.nontrivial += sub.nontrivial
        for key, n in sub.outcomes.items():
            R.outcomes['history:' + key] += n
        for v in sub.violations:
            for _ in range(v['count']):
                R.violation('history:' + v['key'],
                            'in a fresh interpreter after [%s]: %s' % (
                                show(steps[:k]), v['msg']),
                            dict(kind='history', steps=steps[:k], table=step,
                                 then=v['witness']))
    R.sample(dict(history=show(steps)), limit=1)


def _history_child(inpath, outpath):
    """Runs in an interpreter of its own (see run_history)."""
    silence()
    job = json.load(open(inpath))
    if job['mode'] == 'walk':
        R = Result()
        walk_history(R, job['steps'])
        out = R.pack()
    else:
        failed = None
        for step in job['steps']:
            if step[0] == 'table':
                run_table(Result(), step)
            else:
                failed = failed or do_action(step)
        out = replay(job['then'])
        if not out['violates'] and not failed:
            # the case may need the earlier cases of its own table as well
            run_table(Result(), job['table'])
            out = replay(job['then'])
        out['detail'] = 'after [%s]%s: %s' % (
            show(job['steps']), ' (%s)' % failed if failed else '',
            out['detail'])
    with open(outpath, 'w') as f:
        json.dump(out, f, default=str)


def in_child(job):
    with tempfile.TemporaryDirectory(prefix='pgv_c10h_') as d:
        inp = os.path.join(d, 'in.json')
        outp = os.path.join(d, 'out.json')
        with open(inp, 'w') as f:
            json.dump(job, f)
        p = subprocess.run(
            [sys.executable, '-c', 'import sys; from mc.props import c10; '
             'c10._history_child(sys.argv[1], sys.argv[2])', inp, outp],
            cwd=VERIF, env=dict(os.environ), stdin=subprocess.DEVNULL,
            stdout=subprocess.PIPE, stderr=subprocess.STDOUT, timeout=3600)
        if p.returncode != 0 or not os.path.exists(outp):
            raise RuntimeError('history interpreter for [%s] failed rc=%s: %s'
                               % (show(job['steps']), p.returncode,
                                  p.stdout.decode(errors='replace')[-800:]))
        return json.load(open(outp))


def run_history(R, steps):
    """The registry of unit names cannot be reset, so every history gets an
    interpreter of its own; nothing of pgradd is imported there before the
    first action."""
    pack = in_child(dict(mode='walk', steps=[list(s) for s in steps]))
    R.evals += pack['evals']
    R.nontrivial += pack['nontrivial']
    R.outcomes.update(pack['outcomes'])
    R.extra.update(pack['extra'])
    R.violations.extend(pack['violations'])
    R.samples.extend(pack['samples'])
    R.notes.extend(pack['notes'][:3])


def shards(tier, seed):
    out = [('names',), ('conv',), ('spacing',), ('prefixconv',)]
    for h in w4.histories(REPO, LIBS, conv=(tier == 'thorough')):
        out.append(('history', h))
    for bi in range(len(FRAC_BASES)):
        out.append(('frac2', bi))
    for bi in range(FRAC3_BASES[tier]):
        for pi in range(len(FRAC_RED_POWERS)):
            out.append(('frac3', bi, pi))
    for bi in range(len(FRAC_CONV_BASES[tier])):
        for pi in range(len(FRAC_RED_POWERS)):
            out.append(('fracconv', bi, pi))
    for i in range(32):
        out.append(('pairs', i, 32))
    for i in range(24):
        out.append(('triples', i, 24))
    for i in range(16):
        out.append(('malformed', i, 16))
    return out


def run_shard(shard, tier):
    R = Result()
    k = shard[0]
    if k == 'names':
        run_names(R)
    elif k == 'conv':
        run_conversions(R)
    elif k == 'spacing':
        run_spacing(R)
    elif k == 'prefixconv':
        run_prefixconv(R)
    elif k == 'history':
        run_history(R, shard[1])
    elif k == 'frac2':
        run_frac2(R, shard[1])
    elif k == 'frac3':
        run_frac3(R, shard[1], shard[2])
    elif k == 'fracconv':
        run_fracconv(R, tier, shard[1], shard[2])
    elif k == 'pairs':
        run_pairs_full(R, shard[1], shard[2])
    elif k == 'triples':
        run_triples(R, shard[1], shard[2], tier)
    else:
        run_malformed(R, shard[1], shard[2], tier)
    return R


def replay(w):
    if w['kind'] == 'history':
        return in_child(dict(mode='replay', steps=w['steps'], table=w['table'],
                             then=w['then']))
    if w['kind'] == 'expr':
        cls, msg = compare(w['text'])
        return dict(violates=cls not in ('ok', 'open'),
                    detail='impl=%r ref=%r %s' % (impl_eval(w['text']),
                                                  ref_eval(w['text']), msg))
    if w['kind'] == 'exprconv':
        label, viol = conv_case(w['a'], w['b'])
        return dict(violates=viol is not None,
                    detail='%s %s' % (label, viol[1] if viol else 'holds'))
    R = Result()
    run_conversions(R)
    hit = [v for v in R.violations if v['witness'].get('a') == w['a'] and
           v['witness'].get('b') == w['b']] or \
          [v for v in R.violations]
    mine = [v for v in R.violations if (v['witness']['a'], v['witness']['b'])
            == (w['a'], w['b'])]
    return dict(violates=bool(mine or hit), detail='; '.join(
        v['msg'] for v in (mine or hit)) or 'holds')
