"""C13 - merging is a conflict-checked, order-free union (explicit-state).

Part 1 (state graph): breadth-first search to the FIXPOINT (quick: depth
bound) of the graph whose states are correlations and whose transitions call
the real ThermochemIncomplete/ThermochemGroup.update(piece, overwrite); every
transition is compared with the dictionary-union model below.
Part 2 (file level): every set partition of a group's data over 1-4 files x
every include order x four nestings x injections, loaded by GroupLibrary.Load;
plus GroupLibrary.Update with and without overwrite.
Part 3 (include trees, third wave): every ordered rooted tree of includes with
<= 4 (quick) / <= 5 (thorough) files x every way of storing each included file
next to the including file or in a subdirectory of its own (directory-local
file names, so one relative include string names different files in different
directories) x the group's data in any 1, 2 or 3 of the files (all injective
assignments; the other files are pure index files or define another group) x
{no injection, conflicting datum} (thorough also: duplicate equal datum).
Part 4 (unit systems, fourth wave): the files of one library state the group's
data in DIMENSIONAL form, each file in its own unit system - bare numbers under
the file's own `units:` block (three full blocks, one partial block) or the
unit written on every number; every assignment of the 5 systems to the 1, 2 or
3 files that hold the data x every include order x nestings x {no injection,
conflicting datum, the same datum again in the other file's units, a second
group split over the first and last file}.  Each shard of this part is walked
in ONE child interpreter of its own (the loads of a shard form one process
history; witnesses carry that history).
Part 5 (path spellings, fifth wave): the files of a library are named in every
way a path can be written - every include tree with 2-3 files x every
included file stored next to its includer, in a subdirectory of its own or in
a directory BESIDE the includer's (outside the library's own directory for the
top file's includes) x every include string written as plain relative path,
with a leading ./, as the ABSOLUTE path, or as a ..-relative path that leaves
the directory and enters it again x the top file given to Load by absolute
path, by a path relative to the current directory (from the parent directory;
by its bare file name or ./name from its own directory; by ../name from a
subdirectory) x every file holding one block of the group's data x {no
injection, conflicting datum} (thorough also: duplicate equal datum, and all
assignments of the blocks to the files).
"""
import itertools
import json
import os
import subprocess
import sys
import tempfile

from .. import VERIF
from ..runner import Result
from ..explore import BFS

TWO_HASH_SEEDS = ('quick', 'thorough')   # tiers in which the space is walked under a second PYTHONHASHSEED
LEVEL = 'model_checking'
R1 = (200.0, 1000.0)
R2 = (150.0, 1200.0)
TREFS = {'between': 350.0, 'below': 250.0, 'lastknot': 500.0, 'above': 600.0}
DEPTH = {'quick': 4, 'thorough': None}
BOUND = {'quick': '4 reference-temperature placements x 2 classes; 17 pieces x '
                  '{merge, merge-with-overwrite}; BFS depth 4 from 17 initial '
                  'states; file level: all set partitions of 5 data over <= 4 '
                  'files x all include orders x 4 nestings x 5 injections; '
                  'include trees: all 8 ordered rooted trees with 2-4 files x '
                  'all 2^(n-1) same-directory/subdirectory placements x all '
                  'injective assignments of 1, 2, 3 data blocks to the files x '
                  '{none, conflict} (3268 loads); unit systems: 5 systems '
                  '(written-out, 3 full units: blocks, 1 partial block) ^ k '
                  'files holding the data, k=1: x {top file, included file} x '
                  '{none, other group}; k=2: x 2 include orders x 3 nestings x '
                  '4 injections; k=3: x 6 include orders x flat nesting x '
                  '{none, conflict} (2120 loads, in 7 child interpreters); '
                  'path spellings: all 3 include trees with 2-3 files x '
                  '(3 storage places x 4 include-string spellings)^(n-1) x 5 '
                  'ways of naming the top file to Load (3 of them after a '
                  'change of the current directory) x every file holds block '
                  'number (its pre-order number) x {none, conflict} (3000 '
                  'loads)',
         'thorough': 'same alphabet, BFS to the fixpoint (complete reachable '
                     'state graph); file level additionally with zero-valued '
                     'reference values in every nesting; include trees: all '
                     '22 trees with 2-5 files, same product, injections {none, '
                     'conflict, duplicate-equal}; unit systems: as quick, k=3 '
                     'with all 4 nestings x all 4 injections (12620 loads); '
                     'path spellings: as quick x all n! assignments of the '
                     'blocks to the files x {none, conflict, duplicate-equal} '
                     '(26280 loads)'}
RULE = ('explicit-state search: a state is the canonical form (H_ref, S_ref, '
        'Cp table, range, T_ref to 12 significant digits + attribute names) of '
        'the real object obtained by replaying an event history on a fresh '
        'object; every enabled event is executed from every state; a '
        'transition is non-trivial when the model predicts a rejection, an '
        'overwrite, or a union that changes the state; file-level cases are '
        'non-trivial when data for one group come from more than one file '
        '(include-tree cases likewise; the numbers of tree cases in which a '
        'file without data for the group lies between two files that hold '
        'some, and in which one relative include string names two different '
        'files, are counted separately); unit-system cases are non-trivial '
        'when the files that hold the group\'s data use more than one unit '
        'system; every shard of that part runs in a child interpreter, in '
        'which its cases are loaded one after the other in the enumeration '
        'order; path-spelling cases always take the group\'s data from every '
        'file of the tree (all non-trivial); the numbers of cases with an '
        'absolute include string, with .. in an include string, with a file '
        'outside the top file\'s directory and with a changed current '
        'directory are counted separately')
ASSUMPTIONS = ['all pieces of one run share one reference temperature (as the '
               'quantifier states); files with two different reference '
               'temperatures are judged differentially only (all include orders '
               'agree)',
               'the valid range is merged as the hull of the ranges; a range '
               'difference is not a conflict (the statement lists no such '
               'conflict)',
               'canonical state drops only floating-point noise below 1e-12; '
               'every getter is a function of the five fields, and the '
               'attribute-name component exposes any new hidden field',
               'include trees: include strings are relative to the directory '
               'of the including file (as every shipped library uses them); '
               'every file is included exactly once (no file reachable along '
               'two include paths), all in one scheme and one T_ref; files '
               'without data for the group are pure index files when they '
               'include something, else they define one other group',
               'unit systems: the data a file gives are its numbers in the '
               'units of ITS OWN units: block (or the unit written on the '
               'number); expected non-dimensional values are computed by '
               'mc/domains/w4_c13.py from the numbers as written, the SI '
               'definitions of J, kJ, cal (4.184 J), kcal, kK and pgradd\'s '
               'documented gas constant 8.314472 J/(mol K) stated as a '
               'literal; compared to 12 significant digits; the same datum '
               'restated in another unit system is "the same datum": the '
               'reference numbers are whole calories chosen so that in every '
               'system the number written converts back to exactly the same '
               'SI value (asserted by the domain module)',
               'path spellings: a relative include string is relative to the '
               'directory of the including file, an absolute one names the '
               'file itself; a relative path given to Load is relative to the '
               'current directory of the process, which the case changes and '
               'restores (the scratch directories contain no symbolic links, '
               'so a/../b and b name the same file); the scheme file lies '
               'next to the top file; the expected content is the same union '
               'as for the include trees, however the files are named']
MANIFEST = dict(
    technique='explicit-state BFS over the real update()/Load transition '
              'functions against a dictionary-union reference model',
    text='The complete reachable state graph (thorough; depth 4 in quick) of '
         'correlation merging over a 17-piece alphabet with and without '
         'overwrite is explored on the real objects; on every transition the '
         'model decides accept/reject and the resulting union, and failure '
         'atomicity, source immutability, idempotence and confluence are '
         'checked. At file level every split of a group over 1-4 files, every '
         'include order and nesting, with injected duplicates, conflicts and '
         'second spellings, is loaded and compared with the single-file '
         'library. Every ordered rooted include tree of up to 4 (quick) / 5 '
         '(thorough) files, with the group\'s data in any 1-3 of the files and '
         'every included file stored next to its includer or in its own '
         'subdirectory under directory-local names, is loaded and compared '
         'with the union; a conflicting datum anywhere in the tree must be '
         'rejected. Files that state the data dimensionally, each in '
         'its own unit system (units written out, three full and one partial '
         'units: block with bare numbers; 5 systems on every one of 1-3 '
         'files, every include order), are loaded in child interpreters and '
         'compared with the union computed from the numbers as written; a '
         'conflicting datum in another unit system must be rejected, the same '
         'datum in another unit system must change nothing. Every way '
         'of naming the files (2-3 files: included files beside, below or '
         'outside the includer\'s directory; include strings plain, ./, '
         'absolute, or leaving and re-entering the directory through ..; top '
         'file named absolutely or relative to three different current '
         'directories, incl. by its bare name) is loaded and compared with '
         'the same union / must reject the same conflict.',
    note='One shared reference temperature per run; data values come from a '
         'small alphabet incl. zero; more than 4 (quick) / 5 (thorough) files '
         'or include depth beyond 3 (quick) / 4 (thorough), a file reachable '
         'along two include paths are not covered; absolute and ..-relative '
         'include strings and paths relative to the current directory only '
         'for trees of <= 3 files, without symbolic links, builtin-library '
         'names or directories as include targets. Unit systems: 5 systems over energy units {J, '
         'kJ, cal, kcal} and temperature {K, kK}, non-zero values only, at '
         'most 3 files, one T_ref; the libraries of one shard are loaded in '
         'one process in the one enumeration order (other orders of the same '
         'loads are not walked).',
    ref='5/C13')


def piece(H=None, S=None, Cp=None, rng=R1):
    return dict(H=H, S=S, Cp=dict(Cp or {}), rng=rng)


PIECES = {
    'H1': piece(H=-17.2), 'H2': piece(H=-17.3), 'H0': piece(H=0.0),
    'S1': piece(S=15.3), 'S2': piece(S=15.4), 'S0': piece(S=0.0),
    'CpA': piece(Cp={300.0: 3.1}), 'CpA2': piece(Cp={300.0: 3.2}),
    'CpB': piece(Cp={400.0: 3.9}),
    'CpBC': piece(Cp={400.0: 3.9, 500.0: 4.7}),
    'CpC0': piece(Cp={500.0: 0.0}),
    'CpN': piece(Cp={600.0: -2.5}),
    'R2': piece(rng=R2),
    'H2W': piece(H=-17.3, rng=R2),          # conflicts with H1 AND widens the range
    'HS': piece(H=-17.2, S=15.3),
    'FULL': piece(H=-17.2, S=15.3, Cp={300.0: 3.1, 400.0: 3.9, 500.0: 4.7}),
    'EMPTY': piece(rng=None),
}
EVENTS = [(k, ow) for k in PIECES for ow in (False, True)]


def model_step(st, p, ow):
    """Dictionary union with conflict detection.  None = must be rejected."""
    H, S, Cp, rng = st
    Cp = dict(Cp)
    for T, v in p['Cp'].items():
        if T in Cp and Cp[T] != v and not ow:
            return None
    if p['H'] is not None and H is not None and p['H'] != H and not ow:
        return None
    if p['S'] is not None and S is not None and p['S'] != S and not ow:
        return None
    Cp.update(p['Cp'])
    if p['H'] is not None:
        H = p['H']
    if p['S'] is not None:
        S = p['S']
    if p['rng'] is not None:
        rng = p['rng'] if rng is None else (min(rng[0], p['rng'][0]),
                                            max(rng[1], p['rng'][1]))
    return (H, S, tuple(sorted(Cp.items())), rng)


def r12(v):
    return None if v is None else float('%.12g' % float(v))


def canon(o):
    rng = o.get_range()
    return (r12(o.ND_H_ref), r12(o.ND_S_ref),
            tuple(sorted((r12(k), r12(v)) for k, v in o.ND_Cp_data.items())),
            None if rng is None else (r12(rng[0]), r12(rng[1])),
            r12(o.T_ref), tuple(sorted(vars(o))))


def mcanon(m):
    return (r12(m[0]), r12(m[1]), tuple((r12(k), r12(v)) for k, v in m[2]),
            None if m[3] is None else (r12(m[3][0]), r12(m[3][1])))


def observe(o, tref):
    """Getter values the property can see (for failure atomicity and
    agreement with the data)."""
    from pgradd.Error import IncompleteDataError
    out = []
    for T in (tref, 300.0, 400.0, 500.0, 275.0):
        for name in ('get_CpoR', 'get_HoRT', 'get_SoR'):
            try:
                out.append(r12(getattr(o, name)(T)))
            except IncompleteDataError:
                out.append('IncompleteDataError')
            except Exception as e:   # noqa
                out.append('EXC:' + type(e).__name__)
    return tuple(out)


def getters_agree(o, m, tref):
    """H(T_ref), S(T_ref), Cp at every knot agree with the merged data."""
    from pgradd.Error import IncompleteDataError
    H, S, Cp, rng = m
    probs = []

    def ev(f, T):
        try:
            return float(f(T))
        except IncompleteDataError:
            return None
    try:
        h = ev(o.get_HoRT, tref)
        s = ev(o.get_SoR, tref)
        if (H is None) != (h is None) or (H is not None and abs(h - H) > 1e-9 * max(1, abs(H))):
            probs.append('H/RT(T_ref)=%r but merged data say %r' % (h, H))
        if (S is None) != (s is None) or (S is not None and abs(s - S) > 1e-9 * max(1, abs(S))):
            probs.append('S/R(T_ref)=%r but merged data say %r' % (s, S))
        for T, v in Cp:
            c = ev(o.get_CpoR, T)
            if c is None or abs(c - v) > 1e-9 * max(1, abs(v)):
                probs.append('Cp/R(%g)=%r but merged data say %r' % (T, c, v))
    except Exception as e:    # noqa
        probs.append('getter raised %s: %s' % (type(e).__name__, e))
    return probs


class Universe(object):
    def __init__(self, cls_name, tref_name):
        from pgradd.ThermoChem import ThermochemIncomplete, ThermochemGroup
        self.cls = ThermochemIncomplete if cls_name == 'Incomplete' else ThermochemGroup
        self.cls_name = cls_name
        self.tref_name = tref_name
        self.tref = TREFS[tref_name]

    def build(self, p):
        return self.cls(p['H'], p['S'], p['Cp'], self.tref, p['rng'])

    def replay(self, hist):
        """hist = (initial piece name, (piece, ow), ...) - all accepted."""
        o = self.build(PIECES[hist[0]])
        m = model_step((None, None, (), None), PIECES[hist[0]], False)
        for (k, ow) in hist[1:]:
            o.update(self.build(PIECES[k]), ow)
            m = model_step(m, PIECES[k], ow)
        return o, m

    def transition(self, R, hist, ev):
        from pgradd.Error import ReadOnlyDataError
        k, ow = ev
        o, m = self.replay(hist)
        before, obs_before = canon(o), observe(o, self.tref)
        src = self.build(PIECES[k])
        src_before = canon(src)
        exp = model_step(m, PIECES[k], ow)
        try:
            o.update(src, ow)
            got = 'accepted'
        except ReadOnlyDataError:
            got = 'rejected'
        except Exception as e:   # noqa
            got = 'EXC:' + type(e).__name__
        after = canon(o)
        wit = dict(kind='bfs', cls=self.cls_name, tref=self.tref_name,
                   history=[hist[0]] + [list(e) for e in hist[1:]],
                   event=list(ev))
        tag = '%s/%s' % (self.cls_name, self.tref_name)
        nontrivial = exp is None or mcanon(exp) != mcanon(m) or (
            ow and any(model_step(m, PIECES[k], False) is None for _ in [0]))
        if nontrivial:
            R.nontrivial += 1
        R.evals += 1
        key = None
        if canon(src) != src_before:
            key, msg = 'source-modified', 'update() modified its argument'
        elif exp is None:
            if got != 'rejected':
                key = 'conflict-not-rejected'
                msg = ('merging %s (overwrite=%s) into %r conflicts but the '
                       'call was %s' % (k, ow, mcanon(m), got))
            elif after != before or observe(o, self.tref) != obs_before:
                key = 'rejected-but-changed'
                msg = ('rejected merge of %s changed the target from %r to %r'
                       % (k, before[:4], after[:4]))
            R.outcomes['reject'] += 1
        else:
            if got != 'accepted':
                key = 'spurious-' + got
                msg = ('merging %s (overwrite=%s) into %r is conflict-free '
                       'but the call was %s' % (k, ow, mcanon(m), got))
            elif after[:4] != mcanon(exp):
                key = 'wrong-union'
                msg = ('merging %s (overwrite=%s) into %r gave %r, the union '
                       'is %r' % (k, ow, mcanon(m), after[:4], mcanon(exp)))
            else:
                probs = getters_agree(o, mcanon(exp), self.tref)
                if probs:
                    key, msg = 'getters-disagree', probs[0]
            if mcanon(exp) == mcanon(m):
                R.outcomes['accept:no-op (idempotence/duplicate)'] += 1
                if key is None and (after != before or
                                    observe(o, self.tref) != obs_before):
                    key = 'duplicate-merge-changed-state'
                    msg = ('merging data already present (%s) changed the '
                           'target from %r to %r' % (k, before[:4], after[:4]))
            elif ow and model_step(m, PIECES[k], False) is None:
                R.outcomes['accept:overwrite'] += 1
            else:
                R.outcomes['accept:union'] += 1
        if key:
            R.violation('%s:%s:%s' % (key, tag, piece_class(k)),
                        '[%s] after %s: %s' % (tag, list(hist), msg), wit)
            return None
        if got != 'accepted':
            return None
        R.sample(dict(universe=tag, history=list(map(str, hist)),
                      event=str(ev), state=str(after[:4])), limit=3)
        return after


def piece_class(k):
    p = PIECES[k]
    if p['H'] == 0.0 or p['S'] == 0.0:
        return 'zero-reference'
    if 0.0 in p['Cp'].values():
        return 'zero-Cp'
    return 'nonzero'


def run_bfs(R, cls_name, tref_name, tier):
    U = Universe(cls_name, tref_name)
    b = BFS(max_depth=DEPTH[tier])
    init = []
    for k in PIECES:
        o, m = U.replay((k,))
        init.append(((k,), canon(o)))
        R.traces += 1
    b.run(init, lambda h: EVENTS, lambda h, ev: U.transition(R, h, ev))
    R.states += len(b.seen)
    R.transitions += b.transitions
    R.traces += b.traces
    R.extra['confluent_arrivals(same state via another order)'] += b.confluent_merges
    R.extra['max_depth_reached'] = max(R.extra['max_depth_reached'], b.depth_reached)
    if b.truncated:
        R.extra['universes_cut_by_depth_bound'] += 1
    else:
        R.extra['universes_explored_to_fixpoint'] += 1


# ----------------------------------------------------------------- files

SCHEME = ("patterns:\n-   center_name: 'C'\n    periph_name: 'C'\n"
          "    connectivity: 'fragment a{ C labeled c1 }'\n")
DATA = ['H', 'S', 'Cp300', 'Cp400', 'Cp500']
VALS = {'nonzero': dict(H=-17.2, S=15.3, Cp300=3.1, Cp400=3.9, Cp500=4.7),
        'zero': dict(H=0.0, S=0.0, Cp300=3.1, Cp400=0.0, Cp500=4.7)}
OTHER = dict(H=-17.3, S=15.4, Cp300=3.2, Cp400=4.0, Cp500=4.8)
GROUP = 'C(C)(H)3'
SPELL2 = 'C(H)3(C)'
FT = 350.0


def partitions(items):
    if not items:
        yield []
        return
    first, rest = items[0], items[1:]
    for p in partitions(rest):
        for i in range(len(p)):
            yield p[:i] + [[first] + p[i]] + p[i + 1:]
        yield [[first]] + p


def group_yaml(name, data, vals):
    lines = ['  %r:' % name, '    thermochem:', '      T_ref: %r K' % FT,
             '      range: [200 K, 1000 K]']
    if 'H' in data:
        lines.append('      ND_H_ref: %r' % vals['H'])
    if 'S' in data:
        lines.append('      ND_S_ref: %r' % vals['S'])
    cps = [d for d in data if d.startswith('Cp')]
    if cps:
        lines.append('      ND_Cp_data:')
        for d in cps:
            lines.append('        - [%s K, %r]' % (d[2:], vals[d]))
    return '\n'.join(lines)


def file_text(blocks, includes):
    """blocks: list of (groupname, data, vals)."""
    out = []
    if includes:
        out.append('include: [%s]' % ', '.join(includes))
    if blocks:
        out.append('groups:')
        for b in blocks:
            out.append(group_yaml(*b))
    return '\n'.join(out) + '\n'


def layout(nesting, blocks):
    """-> dict filename -> text.  blocks are in include order."""
    k = len(blocks)
    names = ['f%d.yaml' % i for i in range(k)]
    files = {}
    if nesting == 'flat':
        files['library.yaml'] = file_text([], names)
        for n, b in zip(names, blocks):
            files[n] = file_text(b, [])
    elif nesting == 'top-holds-first':
        files['library.yaml'] = file_text(blocks[0], names[1:])
        for n, b in zip(names[1:], blocks[1:]):
            files[n] = file_text(b, [])
    elif nesting == 'chain':
        files['library.yaml'] = file_text([], names[:1])
        for i, (n, b) in enumerate(zip(names, blocks)):
            files[n] = file_text(b, names[i + 1:i + 2])
    elif nesting == 'sub-include':
        if k < 3:
            return None
        files['library.yaml'] = file_text([], [names[0], 'mid.yaml'])
        files[names[0]] = file_text(blocks[0], [])
        files['mid.yaml'] = file_text([], names[1:])
        for n, b in zip(names[1:], blocks[1:]):
            files[n] = file_text(b, [])
    return files


def dump_group(lib, name=GROUP):
    ps = lib[name]
    if 'thermochem' not in ps:
        return None
    o = ps['thermochem']
    c = canon(o)
    return c[:5]


def load_files(files):
    import pgradd.ThermoChem   # noqa
    from pgradd.GroupAdd.Library import GroupLibrary
    with tempfile.TemporaryDirectory(prefix='pgv_c13_') as d:
        with open(os.path.join(d, 'scheme.yaml'), 'w') as f:
            f.write(SCHEME)
        for n, t in files.items():
            if os.path.dirname(n):
                os.makedirs(os.path.join(d, os.path.dirname(n)), exist_ok=True)
            with open(os.path.join(d, n), 'w') as f:
                f.write(t)
        return GroupLibrary.Load(os.path.join(d, 'library.yaml'))


INJECTIONS = ['none', 'duplicate-equal', 'conflict', 'second-spelling',
              'other-group']


def file_case(R, part, order, nesting, inj, vkind, only=None):
    from pgradd.Error import ReadOnlyDataError
    vals = VALS[vkind]
    blocks = [[(GROUP, part[i], vals)] for i in order]
    desc = dict(partition=[part[i] for i in order], nesting=nesting,
                injection=inj, values=vkind)
    if only is not None and only != desc:
        return
    k = len(blocks)
    expect = 'union'
    if inj == 'duplicate-equal':
        # the first datum of the first file is repeated in the last file
        d0 = blocks[0][0][1][0]
        if k == 1:
            return
        blocks[-1] = [(GROUP, blocks[-1][0][1] + [d0], vals)]
    elif inj == 'conflict':
        d0 = blocks[0][0][1][0]
        if k == 1:
            return
        v2 = dict(vals)
        v2[d0] = OTHER[d0]
        blocks[-1] = [(GROUP, blocks[-1][0][1] + [d0], v2)]
        expect = 'conflict'
    elif inj == 'second-spelling':
        blocks[0] = blocks[0] + [(SPELL2, ['H'], vals)]
        expect = 'reject-any'
    elif inj == 'other-group':
        blocks[-1] = blocks[-1] + [('C(C)2(H)2', ['H', 'S'], OTHER)]
    files = layout(nesting, blocks)
    if files is None:
        return
    R.evals += 1
    if k > 1:
        R.nontrivial += 1
    try:
        lib = load_files(files)
        got = 'loaded'
    except ReadOnlyDataError:
        got = 'ReadOnlyDataError'
    except Exception as e:    # noqa
        got = 'EXC:' + type(e).__name__
    wit = dict(kind='file', desc=desc)
    R.outcomes['file:%s:%s' % (inj, got)] += 1
    key = None
    if expect == 'conflict':
        if got != 'ReadOnlyDataError':
            key = 'file-conflict-not-rejected'
            msg = 'two different values for %s were given but Load %s' % (
                blocks[0][0][1][0], got)
    elif expect == 'reject-any':
        if got == 'loaded':
            key = 'second-spelling-accepted'
            msg = 'one file defines %s and %s; Load accepted it' % (GROUP, SPELL2)
    else:
        if got != 'loaded':
            key = 'file-spurious-' + got
            msg = 'conflict-free files were not loaded: ' + got
        else:
            want = (r12(vals['H']), r12(vals['S']),
                    tuple((r12(float(d[2:])), r12(vals[d])) for d in DATA[2:]),
                    (200.0, 1000.0), FT)
            have = dump_group(lib)
            if have != want:
                key = 'file-wrong-union'
                msg = 'library holds %r, union of the files is %r' % (have, want)
            elif inj == 'other-group' and dump_group(lib, 'C(C)2(H)2') is None:
                key = 'file-lost-group'
                msg = 'the second group is missing'
            else:
                probs = getters_agree(lib[GROUP]['thermochem'], want[:4], FT)
                if probs:
                    key, msg = 'file-getters-disagree', probs[0]
    if key:
        R.violation('%s:%s:%s' % (key, vkind, 'multi' if k > 1 else 'single'),
                    '%s: %s' % (desc, msg), wit)
    R.sample(dict(desc, files=sorted(files)), limit=2)


NESTINGS = ['flat', 'top-holds-first', 'chain', 'sub-include']


def run_files(R, part, tier, only=None):
    k = len(part)
    for order in itertools.permutations(range(k)):
        for nesting in NESTINGS:
            for inj in INJECTIONS:
                for vkind in ('nonzero', 'zero'):
                    if vkind == 'zero' and tier == 'quick' and nesting != 'flat':
                        continue
                    file_case(R, part, order, nesting, inj, vkind, only)


# ------------------------------------------------------- include trees
#
# "whatever the include order or nesting": the nestings above are four fixed
# shapes in ONE directory in which every file that is merged into holds data
# for the group.  Here the nesting is an arbitrary ordered rooted tree of
# includes (every shape with <= TREE_N files), the group's data sit in ANY k of
# the files (so index files without data for the group occur above, between
# and below the files that hold some), and every included file is stored
# either next to the including file or in a subdirectory of its own, with
# directory-local file names (so one relative include string names different
# files in different directories).

TREE_N = {'quick': 4, 'thorough': 5}
TREE_PARTS = {1: [['H', 'S', 'Cp300', 'Cp400', 'Cp500']],
              2: [['H', 'Cp300'], ['S', 'Cp400', 'Cp500']],
              3: [['H'], ['S', 'Cp300'], ['Cp400', 'Cp500']]}
TREE_INJ = {'quick': ['none', 'conflict'],
            'thorough': ['none', 'conflict', 'duplicate-equal']}
OTHER_GROUP = 'C(C)2(H)2'


def tree_files(parents, placement, holders, inj):
    """-> (files, expect).  holders[j] = node that holds block j of
    TREE_PARTS[len(holders)]; a file holding nothing for the group is a pure
    index file if it includes something, else it defines another group."""
    from ..domains import w3_c13 as W
    vals = VALS['nonzero']
    paths, includes = W.place(parents, placement)
    ch = W.children(parents)
    blocks = {v: (GROUP, list(b), vals)
              for v, b in zip(holders, TREE_PARTS[len(holders)])}
    expect = 'union'
    if inj in ('conflict', 'duplicate-equal'):
        # the first datum of block 0 is given again by the holder of the last
        # block - with the same or with another value
        d0 = TREE_PARTS[len(holders)][0][0]
        g, data, v = blocks[holders[-1]]
        v2 = dict(v)
        if inj == 'conflict':
            v2[d0] = OTHER[d0]
            expect = 'conflict'
        blocks[holders[-1]] = (g, data + [d0], v2)
    files = {}
    for v in range(len(parents)):
        if v in blocks:
            b = [blocks[v]]
        elif ch[v]:
            b = []
        else:
            b = [(OTHER_GROUP, ['H', 'S'], OTHER)]
        files[paths[v]] = file_text(b, [includes[c] for c in ch[v]])
    return files, expect


def tree_case(R, parents, placement, holders, inj):
    from pgradd.Error import ReadOnlyDataError
    from ..domains import w3_c13 as W
    parents, placement, holders = tuple(parents), tuple(placement), tuple(holders)
    k = len(holders)
    files, expect = tree_files(parents, placement, holders, inj)
    desc = dict(tree=list(parents), placement=list(placement),
                holders=list(holders), injection=inj, files=sorted(files))
    wit = dict(kind='tree', parents=list(parents), placement=list(placement),
               holders=list(holders), injection=inj)
    R.evals += 1
    if k > 1:
        R.nontrivial += 1
    if W.same_include_string_elsewhere(parents, placement):
        R.extra['tree cases with one include string naming two files'] += 1
    if any(parents[h] >= 0 and parents[h] not in holders
           and any(a in holders for a in ancestors(parents, h)) for h in holders):
        R.extra['tree cases with a data-free file between two holders'] += 1
    try:
        lib = load_files(files)
        got = 'loaded'
    except ReadOnlyDataError:
        got = 'ReadOnlyDataError'
    except Exception as e:    # noqa
        got = 'EXC:' + type(e).__name__
    R.outcomes['tree:%s:%s' % (inj, got)] += 1
    key = None
    if expect == 'conflict':
        if got != 'ReadOnlyDataError':
            key = 'tree-conflict-not-rejected'
            msg = ('two different values for %s were given (by file number '
                   '%d and file number %d of the tree) but Load %s'
                   % (TREE_PARTS[k][0][0], holders[0], holders[-1], got))
    elif got != 'loaded':
        key = 'tree-spurious-' + got
        msg = 'conflict-free files were not loaded: ' + got
    else:
        want = (r12(vals_of('H')), r12(vals_of('S')),
                tuple((r12(float(d[2:])), r12(vals_of(d))) for d in DATA[2:]),
                (200.0, 1000.0), FT)
        have = dump_group(lib)
        has_other = any(OTHER_GROUP in t for t in files.values())
        if have != want:
            key = 'tree-wrong-union'
            msg = 'library holds %r, union of the files is %r' % (have, want)
        elif has_other and dump_group(lib, OTHER_GROUP) != (
                r12(OTHER['H']), r12(OTHER['S']), (), (200.0, 1000.0), FT):
            key = 'tree-lost-group'
            msg = 'the other group is missing or wrong: %r' % (
                dump_group(lib, OTHER_GROUP),)
        else:
            probs = getters_agree(lib[GROUP]['thermochem'], want[:4], FT)
            if probs:
                key, msg = 'tree-getters-disagree', probs[0]
    if key:
        R.violation('%s:%s:%s' % (
            key, 'subdirs' if 'sub' in placement else 'one-dir',
            'depth>=2' if W.depth(parents) >= 2 else 'depth1'),
            '%s: %s' % (desc, msg), wit)
    R.sample(desc, limit=2)


def vals_of(d):
    return VALS['nonzero'][d]


def ancestors(parents, v):
    out = []
    while parents[v] >= 0:
        v = parents[v]
        out.append(v)
    return out


def run_trees(R, parents, tier):
    from ..domains import w3_c13 as W
    n = len(parents)
    for placement in W.placements(n):
        for k in sorted(TREE_PARTS):
            if k > n:
                continue
            for holders in W.holder_assignments(n, k):
                for inj in TREE_INJ[tier]:
                    if inj != 'none' and k == 1:
                        continue
                    tree_case(R, parents, placement, holders, inj)


# -------------------------------------------------------- path spellings
#
# "A library assembled from several included files ... whatever the include
# order or nesting": everything above gives the top file to Load by ABSOLUTE
# path and writes every include as the plain relative path to a file in or
# below the includer's directory.  Here the same trees are NAMED in every way
# (mc/domains/w5_c13.py): included files beside / below / outside the
# includer's directory, include strings plain, with ./, absolute, or through
# .., and the top file named absolutely or relative to the current directory
# of the process (three different ones).  What the library must hold does not
# depend on any of that.
#
# A case changes the current directory of the worker process and restores it
# before it returns (also when Load raises); nothing else of the process is
# touched, and the witness carries everything the case needs.

PATH_N = 3
PATH_INJ = {'quick': ['none', 'conflict'],
            'thorough': ['none', 'conflict', 'duplicate-equal']}


def path_files(parents, placement, spelling, holders, inj):
    """-> (files relative to TOP, expect); like tree_files with the file
    names and include strings of w5_c13.place."""
    from ..domains import w5_c13 as P
    vals = VALS['nonzero']
    paths, includes = P.place(parents, placement, spelling)
    ch = P.children(parents)
    parts = TREE_PARTS[len(holders)]
    blocks = {v: (GROUP, list(b), vals) for v, b in zip(holders, parts)}
    expect = 'union'
    if inj in ('conflict', 'duplicate-equal'):
        d0 = parts[0][0]
        g, data, v = blocks[holders[-1]]
        v2 = dict(v)
        if inj == 'conflict':
            v2[d0] = OTHER[d0]
            expect = 'conflict'
        blocks[holders[-1]] = (g, data + [d0], v2)
    files = {}
    for v in range(len(parents)):
        if v in blocks:
            b = [blocks[v]]
        elif ch[v]:
            b = []
        else:
            b = [(OTHER_GROUP, ['H', 'S'], OTHER)]
        files[paths[v]] = file_text(b, [includes[c] for c in ch[v]])
    return files, expect


def load_files_named(files, root):
    """Write `files` (names relative to the scratch directory TOP, the marker
    P.TOP in texts replaced by its real absolute name) and give the top file
    to Load the way `root` says.  The current directory is restored."""
    import pgradd.ThermoChem   # noqa
    from pgradd.GroupAdd.Library import GroupLibrary
    from ..domains import w5_c13 as P
    cwd_rel, path = P.root(root)
    old = os.getcwd()
    with tempfile.TemporaryDirectory(prefix='pgv_c13p_') as top:
        top = os.path.realpath(top)
        os.makedirs(os.path.join(top, P.LIBDIR, P.CWD_SUB))
        with open(os.path.join(top, P.LIBDIR, 'scheme.yaml'), 'w') as f:
            f.write(SCHEME)
        for n, t in files.items():
            os.makedirs(os.path.join(top, os.path.dirname(n)), exist_ok=True)
            with open(os.path.join(top, n), 'w') as f:
                f.write(t.replace(P.TOP, top))
        try:
            if cwd_rel is not None:
                os.chdir(os.path.join(top, cwd_rel))
            return GroupLibrary.Load(path.replace(P.TOP, top))
        finally:
            os.chdir(old)


def path_case(R, parents, placement, spelling, root, holders, inj):
    from pgradd.Error import ReadOnlyDataError
    from ..domains import w5_c13 as P
    parents, holders = tuple(parents), tuple(holders)
    placement, spelling = tuple(placement), tuple(spelling)
    k = len(holders)
    files, expect = path_files(parents, placement, spelling, holders, inj)
    incl = P.place(parents, placement, spelling)[1][1:]
    desc = dict(tree=list(parents), placement=list(placement),
                include_strings=incl, load=list(P.root(root)),
                holders=list(holders), injection=inj, files=sorted(files))
    wit = dict(kind='paths', parents=list(parents), placement=list(placement),
               spelling=list(spelling), root=root, holders=list(holders),
               injection=inj)
    R.evals += 1
    if k > 1:
        R.nontrivial += 1
    R.extra['path cases with an absolute include string'] += 'abs' in spelling
    R.extra['path cases with .. in an include string'] += any(
        '..' in s for s in incl)
    R.extra['path cases with a file outside the top file\'s directory'] += any(
        not n.startswith(P.LIBDIR + '/') for n in files)
    R.extra['path cases with a changed current directory'] += (
        P.root(root)[0] is not None)
    try:
        lib = load_files_named(files, root)
        got = 'loaded'
    except ReadOnlyDataError:
        got = 'ReadOnlyDataError'
    except Exception as e:    # noqa
        got = 'EXC:' + type(e).__name__
    R.outcomes['paths:%s:%s' % (inj, got)] += 1
    key = None
    if expect == 'conflict':
        if got != 'ReadOnlyDataError':
            key = 'paths-conflict-not-rejected'
            msg = ('two different values for %s were given (by file number '
                   '%d and file number %d of the tree) but Load %s'
                   % (TREE_PARTS[k][0][0], holders[0], holders[-1], got))
    elif got != 'loaded':
        key = 'paths-spurious-' + got
        msg = 'conflict-free files were not loaded: ' + got
    else:
        want = (r12(vals_of('H')), r12(vals_of('S')),
                tuple((r12(float(d[2:])), r12(vals_of(d))) for d in DATA[2:]),
                (200.0, 1000.0), FT)
        have = dump_group(lib)
        has_other = any(OTHER_GROUP in t for t in files.values())
        if have != want:
            key = 'paths-wrong-union'
            msg = 'library holds %r, union of the files is %r' % (have, want)
        elif has_other and dump_group(lib, OTHER_GROUP) != (
                r12(OTHER['H']), r12(OTHER['S']), (), (200.0, 1000.0), FT):
            key = 'paths-lost-group'
            msg = 'the other group is missing or wrong: %r' % (
                dump_group(lib, OTHER_GROUP),)
        else:
            probs = getters_agree(lib[GROUP]['thermochem'], want[:4], FT)
            if probs:
                key, msg = 'paths-getters-disagree', probs[0]
    if key:
        icls = ('absolute-include' if 'abs' in spelling else
                'dotdot-include' if any('..' in s for s in incl) else
                'plain-include')
        R.violation('%s:load-%s:%s' % (key, root, icls),
                    '%s: %s' % (desc, msg), wit)
    R.sample(desc, limit=1)


def run_paths(R, parents, root, tier):
    from ..domains import w5_c13 as P
    n = len(parents)
    for placement, spelling in P.edge_labels(n):
        for holders in P.holder_orders(n, tier):
            for inj in PATH_INJ[tier]:
                path_case(R, parents, placement, spelling, root, holders, inj)


# --------------------------------------------------------- unit systems
#
# "the union of the data given for it in all the files": a file gives its data
# in ITS OWN units.  Everything above writes non-dimensional numbers and the
# unit K on every temperature, so the unit handling of the file reader never
# had two different answers to give within one library.  Here every file that
# holds data states them dimensionally in one of 5 unit systems (mc/domains/
# w4_c13.py): all assignments of systems to files x include orders x nestings
# x injections.  The expected content is computed from the numbers as written.
#
# The loads of one shard run one after the other in ONE child interpreter (a
# fresh process per shard, so that neither the other parts of this check run
# in a process this part has been loading unit blocks in, nor the reverse); a
# witness names the shard and the position of the case in it, and replay()
# walks the shard from its first case up to that one: the whole history.

UNIT_NESTINGS = {1: ['top-holds-first', 'flat'],
                 2: ['flat', 'top-holds-first', 'chain'],
                 3: ['flat', 'top-holds-first', 'chain', 'sub-include']}
UNIT_INJ = ['none', 'conflict', 'duplicate-equal', 'other-group']
UNIT_QUICK_3 = (['flat'], ['none', 'conflict'])   # k = 3 in the quick tier


def unit_cases(k, first, tier):
    """The cases of shard (k, first), in the order in which they are loaded.
    first = unit system of the first data block (None: all of them)."""
    from ..domains import w4_c13 as U
    nestings, injs = UNIT_NESTINGS[k], UNIT_INJ
    if k == 1:
        injs = ['none', 'other-group']
    elif k == 3 and tier == 'quick':
        nestings, injs = UNIT_QUICK_3
    out = []
    for systems in U.system_tuples(k):
        if first is not None and systems[0] != first:
            continue
        for order in itertools.permutations(range(k)):
            for nesting in nestings:
                for inj in injs:
                    out.append(dict(systems=list(systems), order=list(order),
                                    nesting=nesting, injection=inj))
    return out


def unit_layout(nesting, blocks, systems):
    """Like layout(), with one unit system per data file.  blocks/systems in
    include order.  -> (files, given): given[group][datum] = list of the SI
    values the files state for it (one entry per file that states it)."""
    from ..domains import w4_c13 as U
    k = len(blocks)
    names = ['f%d.yaml' % i for i in range(k)]
    files, given = {}, {}

    def put(name, b, inc, system):
        text, g = U.file_text(b, inc, system)
        files[name] = text
        for grp in g:
            for d, v in g[grp].items():
                given.setdefault(grp, {}).setdefault(d, []).append(v)
    if nesting == 'flat':
        put('library.yaml', [], names, 'written')
        for n, b, s in zip(names, blocks, systems):
            put(n, b, [], s)
    elif nesting == 'top-holds-first':
        put('library.yaml', blocks[0], names[1:], systems[0])
        for n, b, s in zip(names[1:], blocks[1:], systems[1:]):
            put(n, b, [], s)
    elif nesting == 'chain':
        put('library.yaml', [], names[:1], 'written')
        for i, (n, b, s) in enumerate(zip(names, blocks, systems)):
            put(n, b, names[i + 1:i + 2], s)
    elif nesting == 'sub-include':
        put('library.yaml', [], [names[0], 'mid.yaml'], 'written')
        put(names[0], blocks[0], [], systems[0])
        put('mid.yaml', [], names[1:], 'written')
        for n, b, s in zip(names[1:], blocks[1:], systems[1:]):
            put(n, b, [], s)
    return files, given


def unit_case(R, case, wit):
    from pgradd.Error import ReadOnlyDataError
    from ..domains import w4_c13 as U
    systems, order = case['systems'], case['order']
    nesting, inj = case['nesting'], case['injection']
    k = len(systems)
    parts = TREE_PARTS[k]
    # blocks in include order; block i is written in systems[i]
    blocks = [[(GROUP, list(parts[i]), U.SI)] for i in order]
    sysord = [systems[i] for i in order]
    expect = 'union'
    if inj in ('conflict', 'duplicate-equal'):
        # the first datum of the file included first is given again by the
        # file included last, in THAT file's units - with another or with the
        # same value
        d0 = blocks[0][0][1][0]
        v2 = dict(U.SI)
        if inj == 'conflict':
            v2[d0] = U.SI_OTHER[d0]
            expect = 'conflict'
        blocks[-1] = [(GROUP, blocks[-1][0][1] + [d0], v2)]
    elif inj == 'other-group':
        # a second group, split over the first and the last file
        if k == 1:
            blocks[0] = blocks[0] + [(OTHER_GROUP, ['H', 'S', 'Cp400'], U.SI_OTHER)]
        else:
            blocks[0] = blocks[0] + [(OTHER_GROUP, ['H', 'Cp300'], U.SI_OTHER)]
            blocks[-1] = blocks[-1] + [(OTHER_GROUP, ['S', 'Cp400'], U.SI_OTHER)]
    files, given = unit_layout(nesting, blocks, sysord)
    mixed = len(set(systems)) > 1
    R.evals += 1
    if mixed:
        R.nontrivial += 1
    try:
        lib = load_files(files)
        got = 'loaded'
    except ReadOnlyDataError:
        got = 'ReadOnlyDataError'
    except Exception as e:    # noqa
        got = 'EXC:' + type(e).__name__
    R.outcomes['units:%s:%s' % (inj, got)] += 1
    R.extra['unit-system cases with a units: block in some file'] += any(
        t.startswith('units:') for t in files.values())

    def want_of(grp):
        g = {d: vs[0] for d, vs in given.get(grp, {}).items()}
        H, S, Cp = U.nondimensional(g)
        return (r12(H), r12(S), tuple((r12(T), r12(v)) for T, v in Cp),
                U.RANGE, U.T_REF)
    key = None
    if expect == 'conflict':
        if got != 'ReadOnlyDataError':
            key = 'units-conflict-not-rejected'
            vs = given[GROUP][blocks[0][0][1][0]]
            msg = ('two different values for %s were given (%r and %r in SI '
                   'units) but Load %s' % (blocks[0][0][1][0], vs[0], vs[-1], got))
    elif got != 'loaded':
        key = 'units-spurious-' + got
        msg = 'conflict-free files were not loaded: ' + got
    else:
        assert all(len(set(vs)) == 1 for g in given.values() for vs in g.values())
        want, have = want_of(GROUP), dump_group(lib)
        if have != want:
            key = 'units-wrong-union'
            msg = ('library holds %r, the files give (numbers as written, in '
                   'each file\'s own units) %r' % (have, want))
        elif inj == 'other-group' and dump_group(lib, OTHER_GROUP) != want_of(OTHER_GROUP):
            key = 'units-other-group-wrong'
            msg = ('the second group holds %r, the files give %r'
                   % (dump_group(lib, OTHER_GROUP), want_of(OTHER_GROUP)))
        else:
            probs = getters_agree(lib[GROUP]['thermochem'], want[:4], U.T_REF)
            if probs:
                key, msg = 'units-getters-disagree', probs[0]
    if key:
        R.violation('%s:%s:%s' % (key, 'mixed-systems' if mixed else 'one-system',
                                  'multi' if k > 1 else 'single'),
                    '%s (case number %d of its shard, loaded after the %d '
                    'before it in one process): %s'
                    % (case, wit['index'], wit['index'], msg), wit)
    R.sample(dict(case, files=files), limit=1)


def run_units(R, k, first, tier, upto=None):
    """Walk shard (k, first) in THIS process.  upto: stop after that case and
    report only what that case did (replay)."""
    cases = unit_cases(k, first, tier)
    for i, case in enumerate(cases):
        if upto is not None and i > upto:
            break
        wit = dict(kind='units', k=k, first=first, tier=tier, index=i, case=case)
        unit_case(Result() if (upto is not None and i < upto) else R, case, wit)


def _units_child(k, first, tier, outpath):
    R = Result()
    run_units(R, int(k), None if first == '-' else first, tier)
    with open(outpath, 'w') as f:
        json.dump(R.pack(), f, default=str)


def run_units_isolated(R, k, first, tier):
    with tempfile.TemporaryDirectory(prefix='pgv_c13u_') as d:
        outp = os.path.join(d, 'out.json')
        p = subprocess.run(
            [sys.executable, '-c', 'import sys; from mc.props import c13; '
             'c13._units_child(*sys.argv[1:5])',
             str(k), first or '-', tier, outp], cwd=VERIF, env=dict(os.environ),
            stdin=subprocess.DEVNULL, stdout=subprocess.PIPE,
            stderr=subprocess.STDOUT, timeout=7200)
        if p.returncode != 0 or not os.path.exists(outp):
            raise RuntimeError('unit-system child %s/%s failed rc=%s: %s' % (
                k, first, p.returncode, p.stdout.decode(errors='replace')[-800:]))
        pack = json.load(open(outp))
    R.evals += pack['evals']
    R.nontrivial += pack['nontrivial']
    R.outcomes.update(pack['outcomes'])
    R.extra.update(pack['extra'])
    R.violations.extend(pack['violations'])
    R.samples.extend(pack['samples'])
    R.notes.extend(pack['notes'][:3])


def run_update(R):
    """GroupLibrary.Update with and without overwrite; copy on first sight."""
    from pgradd.Error import ReadOnlyDataError
    vals = VALS['nonzero']
    for da, db in itertools.product([['H'], ['H', 'S'], ['H', 'Cp300', 'Cp400']],
                                    [['S'], ['H'], ['H', 'S', 'Cp500'], ['Cp300']]):
        for conflict in (False, True):
            for ow in (False, True):
                for fresh_target in (False, True):
                    R.evals += 1
                    R.nontrivial += 1
                    vb = dict(vals)
                    shared = [d for d in db if d in da]
                    if conflict:
                        if not shared:
                            continue
                        for d in shared:
                            vb[d] = OTHER[d]
                    A = load_files({'library.yaml': file_text(
                        [('C(C)2(H)2', ['H'], OTHER)] if fresh_target
                        else [(GROUP, da, vals)], [])})
                    B = load_files({'library.yaml': file_text([(GROUP, db, vb)], [])})
                    b_before = dump_group(B)
                    a_before = dump_group(A)
                    try:
                        A.Update(B, overwrite=ow)
                        got = 'accepted'
                    except ReadOnlyDataError:
                        got = 'rejected'
                    except Exception as e:   # noqa
                        got = 'EXC:' + type(e).__name__
                    desc = dict(a=[] if fresh_target else da, b=db,
                                conflict=conflict, overwrite=ow)
                    key = None
                    must_reject = conflict and not ow and not fresh_target
                    if must_reject != (got == 'rejected') or got.startswith('EXC'):
                        key, msg = 'update-verdict', 'Update was %s' % got
                    elif dump_group(B) != b_before:
                        key, msg = 'update-source-modified', 'source library changed'
                    elif got == 'rejected' and dump_group(A) != a_before:
                        key, msg = 'update-rejected-but-changed', 'target changed'
                    elif got == 'accepted':
                        un = {} if fresh_target else {d: vals[d] for d in da}
                        un.update({d: vb[d] for d in db})
                        want = (r12(un.get('H')), r12(un.get('S')),
                                tuple((r12(float(d[2:])), r12(un[d]))
                                      for d in DATA[2:] if d in un),
                                (200.0, 1000.0), FT)
                        if dump_group(A) != want:
                            key = 'update-wrong-union'
                            msg = 'holds %r, expected %r' % (dump_group(A), want)
                        elif fresh_target:
                            # copy on first sight: later changes to A must not
                            # reach B
                            C = load_files({'library.yaml': file_text(
                                [(GROUP, ['Cp500'] if 'Cp500' not in db else ['Cp400'], vals)], [])})
                            try:
                                A.Update(C)
                            except Exception:   # noqa
                                pass
                            if dump_group(B) != b_before:
                                key = 'update-aliasing'
                                msg = ('data merged into the target library '
                                       'appeared in the source library')
                    R.outcomes['update:' + got] += 1
                    if key:
                        R.violation(key, '%s: %s' % (desc, msg),
                                    dict(kind='update'))


def run_two_tref(R, only=None):
    """Files that give ONE group at DIFFERENT reference temperatures: the
    reference values have to be translated through the merged heat-capacity
    table.  No absolute oracle is used: every include order of the same files
    must give the same H/RT, S/R and Cp/R (differential, 1e-9), and the part of
    the answer that one file fixes alone must agree with that file."""
    T1, T2 = 298.15, 350.0
    cp_pts = ['Cp300', 'Cp400', 'Cp500']
    vals = VALS['nonzero']

    def gy(name, data, tref, with_range=True):
        lines = ['  %r:' % name, '    thermochem:', '      T_ref: %r K' % tref]
        if with_range:
            lines.append('      range: [200 K, 1000 K]')
        if 'H' in data:
            lines.append('      ND_H_ref: %r' % vals['H'])
        if 'S' in data:
            lines.append('      ND_S_ref: %r' % vals['S'])
        cps = [d for d in data if d.startswith('Cp')]
        if cps:
            lines.append('      ND_Cp_data:')
            for d in cps:
                lines.append('        - [%s K, %r]' % (d[2:], vals[d]))
        return 'groups:\n' + '\n'.join(lines) + '\n'
    splits = [(['S'], ['H'] + cp_pts), (['H'], ['S'] + cp_pts),
              (['S'] + cp_pts[:1], ['H'] + cp_pts[1:]), (['H', 'S'], cp_pts),
              (['S'] + cp_pts, ['H']), (['H'] + cp_pts[:2], ['S'] + cp_pts[2:])]
    temps = (250.0, 298.15, 350.0, 450.0, 700.0)
    for n, (da, db) in enumerate(splits):
        for (ta, tb) in ((T1, T2), (T2, T1)):
            for spell in (GROUP, SPELL2):
                case = dict(kind='two-tref', split=[da, db], trefs=[ta, tb], spell=spell)
                if only is not None and only != case:
                    continue
                files = {'a.yaml': gy(GROUP, da, ta), 'b.yaml': gy(spell, db, tb)}
                res = {}
                for order in (('a.yaml', 'b.yaml'), ('b.yaml', 'a.yaml')):
                    f = dict(files)
                    f['library.yaml'] = 'include: [%s]\n' % ', '.join(order)
                    try:
                        k = load_files(f)[GROUP]['thermochem']
                        res[order] = [r12(getattr(k, g)(T)) for T in temps
                                      for g in ('get_CpoR', 'get_HoRT', 'get_SoR')]
                    except Exception as e:     # noqa
                        res[order] = 'EXC:' + type(e).__name__
                R.evals += 2
                R.nontrivial += 2
                a, b = res.values()
                same = (a == b) if isinstance(a, str) or isinstance(b, str) else all(
                    abs(x - y) <= 1e-9 * max(1.0, abs(y)) for x, y in zip(a, b))
                R.outcomes['two-T_ref:%s' % ('order-free' if same else 'order-dependent')] += 1
                if not same:
                    R.violation('file-two-tref-order-dependent',
                                '%r: include order a,b gives %r..., order b,a gives %r...'
                                % (case, a if isinstance(a, str) else a[:6],
                                   b if isinstance(b, str) else b[:6]), case)
    R.sample(dict(two_T_ref_split=splits[0], T_refs=[T1, T2]), limit=1)


def shards(tier, seed):
    out = [('two-tref',)]
    for cls_name in ('Incomplete', 'Group'):
        for tn in TREFS:
            out.append(('bfs', cls_name, tn))
    for p in partitions(DATA):
        if len(p) <= 4:
            out.append(('files', p))
    out.append(('update',))
    from ..domains import w3_c13 as W
    for n in range(2, TREE_N[tier] + 1):
        for parents in W.trees(n):
            out.append(('trees', parents))
    from ..domains import w4_c13 as U
    out.append(('units', 1, None))
    out.append(('units', 2, None))
    for first in U.SYSTEM_NAMES:
        out.append(('units', 3, first))
    from ..domains import w5_c13 as P
    for n in range(2, PATH_N + 1):
        for parents in W.trees(n):
            for root in P.ROOTS:
                out.append(('paths', parents, root))
    return out


def run_shard(shard, tier):
    R = Result()
    if shard[0] == 'bfs':
        run_bfs(R, shard[1], shard[2], tier)
    elif shard[0] == 'files':
        run_files(R, shard[1], tier)
    elif shard[0] == 'two-tref':
        run_two_tref(R)
    elif shard[0] == 'trees':
        run_trees(R, shard[1], tier)
    elif shard[0] == 'units':
        run_units_isolated(R, shard[1], shard[2], tier)
    elif shard[0] == 'paths':
        run_paths(R, shard[1], shard[2], tier)
    else:
        run_update(R)
    return R


def replay(w):
    R = Result()
    if w['kind'] == 'bfs':
        U = Universe(w['cls'], w['tref'])
        hist = (w['history'][0],) + tuple(tuple(e) for e in w['history'][1:])
        U.transition(R, hist, tuple(w['event']))
    elif w['kind'] == 'file':
        d = w['desc']
        part = d['partition']
        for nesting in NESTINGS:
            for inj in INJECTIONS:
                for vk in VALS:
                    file_case(R, part, tuple(range(len(part))), nesting, inj, vk, only=d)
    elif w['kind'] == 'two-tref':
        run_two_tref(R, only=w)
    elif w['kind'] == 'tree':
        tree_case(R, w['parents'], w['placement'], w['holders'], w['injection'])
    elif w['kind'] == 'units':
        # the whole history: every case of the shard before this one is loaded
        # first, in this (fresh) process
        run_units(R, w['k'], w['first'], w['tier'], upto=w['index'])
    elif w['kind'] == 'paths':
        path_case(R, w['parents'], w['placement'], w['spelling'], w['root'],
                  w['holders'], w['injection'])
    else:
        run_update(R)
    return dict(violates=bool(R.violations),
                detail='\n'.join(v['key'] + ': ' + v['msg'] for v in R.violations) or 'holds')
