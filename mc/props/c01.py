"""C01 - an estimate is the exact count-weighted sum of group contributions.

For each of the nine shipped libraries and a synthetic library covering every
data shape: every unit vector (every group x every count of the alphabet),
every pair and triple of data-shape class representatives x count pairs, keys
as strings and as Group objects, on the temperature grid of the common range;
plus every such mapping with 1-2 descriptors that lack the property set
inserted (with counts 1, 0, 0.0 and -2) at the first, middle and last position.
"""
from ..runner import Result
from ..domains import estimates as E
from ..domains import libs

LEVEL = 'exploration'
LIBS = libs.LIBS + ['synthetic']
BOUND = {'quick': 'all unit vectors x 7 counts; all pairs (5 count pairs, both '
                  'key orders) and triples of data-shape class representatives; '
                  'string and Group keys; missing-data variants of every unit '
                  'and class-pair mapping',
         'thorough': 'additionally all pairs of groups for libraries with <= 80 '
                     'groups'}
RULE = ('each mapping is estimated on a FRESH library object (no molecule has '
        'been decomposed) and every non-dimensional property is compared with '
        'the harness\'s own sum over the constituents evaluated one by one; '
        'non-trivial = at least two terms, a non-unit count, or a property some '
        'constituent has no data for, or a missing-data variant')
ASSUMPTIONS = ['relative tolerance 1e-9 on the sums',
               'temperatures: ends and middle of the common range, reference '
               'temperatures inside it']
MANIFEST = dict(
    technique='exhaustive enumeration of descriptor->count mappings over every '
              'group of every library vs constituent-wise recomputation',
    text='For every group of every shipped library (and a synthetic library '
         'with every data shape) with every count of the alphabet, and all '
         'pairs/triples of data-shape representatives, each of Cp/R, H/RT, S/R, '
         'G/RT of the estimate equals sum(count x constituent) at every grid '
         'temperature (or raises the incomplete-data error exactly when a '
         'constituent does); inserting descriptors without data anywhere in '
         'the mapping raises the missing-data error naming exactly those.',
    note='Counts come from a 7-value alphabet; mappings larger than three '
         'terms are not enumerated.',
    ref='5/C01')


def estimate(lib, mapping, as_group=False):
    from pgradd.GroupAdd.Group import Group
    d = {}
    for g, c in mapping:
        if as_group and not isinstance(g, str) and hasattr(g, 'csg'):
            key = Group(lib.scheme, g.csg, list(reversed(g.psgs)))
        elif as_group:
            key = g
        else:
            key = str(g)
        d[key] = c
    return lib.Estimate(d, 'thermochem')


def check_mapping(R, name, lib, tag, mapping, as_group):
    wit = dict(kind='map', lib=name, mapping=[[str(g), c] for g, c in mapping],
               as_group=as_group)
    r = E.ev(estimate, lib, mapping, as_group)
    if r[0] != 'ok':
        R.evals += 1
        R.nontrivial += 1
        R.outcomes['estimate-raises:' + r[1]] += 1
        R.violation('estimate-raises:%s' % r[1],
                    '[%s] every descriptor of %r has data but Estimate raised %s'
                    % (name, wit['mapping'], r[1]), wit)
        return
    e = r[1]
    cons = [(lib[g]['thermochem'], c) for g, c in mapping]
    rng = E.common_range(lib, mapping)
    for T in E.grid_inside(rng, mapping, lib):
        for prop in E.PROPS:
            R.evals += 1
            got = E.ev(getattr(e, prop), T)
            parts = [E.ev(getattr(k, prop), T) for k, _ in cons]
            nontrivial = len(mapping) > 1 or mapping[0][1] != 1 or \
                any(p[0] == 'exc' for p in parts)
            if nontrivial:
                R.nontrivial += 1
            if any(p[0] == 'exc' for p in parts):
                exs = set(p[1] for p in parts if p[0] == 'exc')
                if got[0] == 'exc' and got[1] in exs:
                    R.outcomes['propagates:' + got[1]] += 1
                else:
                    R.outcomes['partial-sum'] += 1
                    R.violation('partial-sum:%s' % prop,
                                '[%s] %s(%g) of %r: a constituent raises %s but '
                                'the estimate gave %r' % (name, prop, T, wit['mapping'],
                                                          sorted(exs), got[:2]), wit)
                continue
            want = sum(c * p[1] for (k, c), p in zip(cons, parts))
            if got[0] != 'ok':
                R.outcomes['raises'] += 1
                R.violation('raises:%s:%s' % (prop, got[1]),
                            '[%s] %s(%g) of %r raised %s; constituents give %r'
                            % (name, prop, T, wit['mapping'], got[1], want), wit)
            elif not E.is_plain_finite(got[1]) or \
                    abs(float(got[1]) - want) > 1e-9 * max(1.0, abs(want)):
                R.outcomes['wrong-sum'] += 1
                R.violation('wrong-sum:%s:%s' % (prop, tag),
                            '[%s] %s(%g) of %r = %r, sum over constituents = %r'
                            % (name, prop, T, wit['mapping'], got[1], want), wit)
            else:
                R.outcomes['sum-ok'] += 1
    # the estimate must not follow later changes of the caller's own mapping
    d = dict((str(g), c) for g, c in mapping)
    r2 = E.ev(lib.Estimate, d, 'thermochem')
    temps = E.grid_inside(rng, mapping, lib)[:2]
    if r2[0] == 'ok' and temps:
        before = [E.ev(getattr(r2[1], p), T)[:2] for T in temps for p in E.PROPS]
        for k in list(d):
            d[k] = d[k] * 3 + 1
        d['Q(Z)9'] = 5
        after = [E.ev(getattr(r2[1], p), T)[:2] for T in temps for p in E.PROPS]
        d.clear()
        cleared = [E.ev(getattr(r2[1], p), T)[:2] for T in temps for p in E.PROPS]
        R.evals += 1
        R.nontrivial += 1
        if before != after or before != cleared:
            R.outcomes['aliases-caller-mapping'] += 1
            R.violation('estimate-follows-callers-mapping',
                        '[%s] estimate of %r changed after the caller modified its own '
                        'mapping: %r -> %r' % (name, wit['mapping'], before[:2],
                                               (after if before != after else cleared)[:2]), wit)
        else:
            R.outcomes['independent-of-callers-mapping'] += 1
    if len(mapping) > 1:
        R.sample(dict(library=name, mapping=wit['mapping'], range=rng), limit=1)


MISSING = ['Q(Z)9', 'C(H)3(O)', 'Q(Z)(Y)2(Z)']   # unknown, named without data, non-canonical unknown


def check_missing(R, name, lib, mapping):
    """Insert 1-2 descriptors without data at first/middle/last position."""
    from pgradd.Error import GroupMissingDataError
    base = [(str(g), c) for g, c in mapping]
    extras = [[m] for m in MISSING] + [[MISSING[0], MISSING[2]], [MISSING[1], MISSING[0]]]
    for ex in extras:
      for cnt in (1, 0, 0.0, -2):
        for pos in sorted(set([0, len(base) // 2, len(base)])):
            items = base[:pos] + [(x, cnt) for x in ex] + base[pos:]
            d = dict(items)
            R.evals += 1
            R.nontrivial += 1
            r = E.ev(lib.Estimate, d, 'thermochem')
            wit = dict(kind='missing', lib=name, items=[list(i) for i in items])
            if r[0] == 'ok':
                R.outcomes['missing:returned-an-estimate'] += 1
                R.violation('missing-data-ignored',
                            '[%s] %r contains descriptors without data (%r) but an '
                            'estimate was returned' % (name, items, ex), wit)
                continue
            if r[1] != 'GroupMissingDataError':
                R.outcomes['missing:' + r[1]] += 1
                R.violation('missing-data-wrong-error:' + r[1],
                            '[%s] %r: expected GroupMissingDataError, got %s'
                            % (name, items, r[1]), wit)
                continue
            try:
                lib.Estimate(d, 'thermochem')
            except GroupMissingDataError as err:
                named = sorted(str(g) for g in err.groups)
            if named != sorted(ex):
                R.outcomes['missing:wrong-groups-named'] += 1
                R.violation('missing-data-wrong-groups',
                            '[%s] %r: error names %r, descriptors without data '
                            'are %r' % (name, items, named, sorted(ex)), wit)
            else:
                R.outcomes['missing:named-exactly'] += 1


def run_lib(R, name, i, n, tier):
    lib = E.fresh(name)     # never decomposed anything
    below = 80 if tier == 'thorough' else 0
    for k, (tag, mapping) in enumerate(E.mappings(lib, tier, below)):
        if k % n != i:
            continue
        check_mapping(R, name, lib, tag, mapping, as_group=False)
        if tag != 'unit' or mapping[0][1] == 1:
            check_mapping(R, name, lib, tag, mapping, as_group=True)
        if (tag == 'unit' and mapping[0][1] == 2) or (tag == 'pair' and mapping[0][1] == 1):
            check_missing(R, name, lib, mapping)


def shards(tier, seed):
    out = []
    for name in LIBS:
        n = 4 if tier == 'quick' else 16
        for i in range(n):
            out.append((name, i, n))
    return out


def run_shard(shard, tier):
    R = Result()
    run_lib(R, shard[0], shard[1], shard[2], tier)
    return R


def replay(w):
    R = Result()
    lib = E.fresh(w['lib'])
    if w['kind'] == 'map':
        groups = {str(g): g for g in lib}
        mapping = [(groups.get(g, g), c) for g, c in w['mapping']]
        check_mapping(R, w['lib'], lib, 'replay', mapping, w['as_group'])
    else:
        r = E.ev(lib.Estimate, dict((a, b) for a, b in w['items']), 'thermochem')
        ex = [a for a, b in w['items'] if a in MISSING]
        ok = False
        if r[0] == 'exc' and r[1] == 'GroupMissingDataError':
            from pgradd.Error import GroupMissingDataError
            try:
                lib.Estimate(dict((a, b) for a, b in w['items']), 'thermochem')
            except GroupMissingDataError as err:
                ok = sorted(str(g) for g in err.groups) == sorted(ex)
        return dict(violates=not ok, detail=repr(r[:2]))
    return dict(violates=bool(R.violations),
                detail='\n'.join(v['msg'] for v in R.violations) or 'holds')
