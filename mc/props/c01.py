"""C01 - an estimate is the exact count-weighted sum of group contributions.

For each of the nine shipped libraries and a synthetic library covering every
data shape: every unit vector (every group x every count of the alphabet),
every pair and triple of data-shape class representatives x count pairs, keys
as strings and as Group objects, on the temperature grid of the common range;
plus every such mapping with 1-2 descriptors that lack the property set
inserted (with counts 1, 0, 0.0 and -2) at the first, middle and last position.

Third wave (domains/w3_c01.py) - libraries that are built, not loaded:
* constructor-built libraries of three descriptors, each carrying one of three
  correlation objects {X, X' (equal data, another object), Y}: all 27
  assignments (so every way in which descriptors can share one object or hold
  equal ones) x every non-empty subset of the descriptors x the count
  alphabets, both key orders;
* synonym libraries: for every library and every data-shape class
  representative g, the library's items re-given to the constructor plus a
  descriptor that carries g's own correlation object; all mappings containing
  both (count pairs, both orders) and triples with a second representative;
* histories on ONE library object (a constructor-made copy of each library,
  a hand-made library, and freshly loaded objects of the libraries without
  uncertainty data): descriptors without data are probed (nothing / Estimate /
  lib[...] / lib.get) before every Update(), the Updates add them in every
  sequence of disjoint additions, and after the last Update (and in every
  Estimate probe) every non-empty subset of {a present group, the two new
  descriptors} is estimated: exact sum when all are present by then,
  missing-data error naming exactly the absent ones otherwise.  The witness
  of a history is the whole history.

Fourth wave (domains/w4_c01.py):
* the optional switch of get_SoR / get_GoRT given explicitly but switched
  off: 10 presentations of a false value (None, False, 0, 0.0, -0.0, numpy
  bool / int / float scalars, 0-d bool and float arrays) x {positional,
  keyword} x {S/R, G/RT}, at the middle grid temperature, for the count-2
  unit vector of every group of every library, every (1, .) pair of
  data-shape representatives and every three-descriptor mapping (8) of each
  of the 27 built libraries;
  the expectation is the same plain sum over the constituents;
* several library objects in one process: a source library (each of the ten
  libraries - three carry uncertainty data - and a hand-made one) is merged
  by Update() into a receiver made in one of 4 ways, while a bystander
  library made in one of 4 ways (2 descriptors of its own + 1 group of the
  source) exists since before the receiver / since before the Update / is
  made afterwards: 48 histories per source, run one after the other in one
  child interpreter per source.  Judged: every non-empty subset of the
  bystander's descriptors (before and after the Update) and, on the receiver,
  the source's data-shape representatives, adjacent pairs of them and the
  receiver's own descriptors.  The witness is the list of all histories run
  in that interpreter up to the violating one.

Fifth wave (domains/w5_c01.py):
* how the temperature is presented: python int, numpy float64, 0-d and
  1-element arrays, python list / tuple, 1-D arrays (2, 3 ascending, 3
  reversed, strided view), every 2-D shape a x b with a, b <= 3, three 3-D
  shapes, Fortran order and a transposed view, integer dtype (1-D, 2-D) - up
  to 25 presentations x the four properties, for every count-2 unit vector,
  every (1, .) pair and every (1, 2, 0.5) triple of data-shape
  representatives of every library, the 8 three-descriptor mappings of each
  built library and the unit vectors of the range libraries.  Expectation:
  the constituents called with the same object, summed with the counts,
  element by element and in the same shape;
* relations between the constituents' ranges: a library of 22 descriptors
  (every closed interval over 200 / 300 / 400 / 500 K incl. the four single
  points, and "no range", each with a heat-capacity table inside the interval
  and with reference values only), made by the constructor and loaded from a
  YAML file: 22 unit vectors, all 462 ordered pairs, all 165 triples of the
  table-carrying descriptors in two orders.  Where the ranges have a
  temperature in common (one point included) the estimate must exist and be
  the sum on the grid of that intersection; mappings with NO common
  temperature are tallied and not judged;
* call histories on ONE estimate object: every sequence of <= 2 calls over
  {Cp/R, H/RT} x 2 temperatures and {S/R, G/RT} x 2 temperatures x {switch
  absent, False, True, 1} (20 letters, 420 sequences), each on an estimate
  object of its own, for (per library) a mapping on a library that never
  decomposed anything (a request for the element correction fails there) and
  the descriptors of the first molecule (thorough: first two) of a fixed list
  that the library decomposes (the request is honoured).  Every call that does not request the correction is judged
  against the plain sum.  The witness is the call sequence up to that call.
"""
import json
import os
import subprocess
import sys
import tempfile

from .. import VERIF
from ..runner import Result
from ..domains import estimates as E
from ..domains import libs
from ..domains import w3_c01 as W
from ..domains import w4_c01 as V
from ..domains import w5_c01 as X

LEVEL = 'exploration'
LIBS = libs.LIBS + ['synthetic']
BOUND = {'quick': 'all unit vectors x 7 counts; all pairs (5 count pairs, both '
                  'key orders) and triples of data-shape class representatives; '
                  'string and Group keys; missing-data variants of every unit '
                  'and class-pair mapping. Built libraries: 27 assignments of 3 '
                  'correlation objects (two of them equal in data) to 3 '
                  'descriptors x (21 unit + 30 pair + 8 triple mappings), '
                  'string and Group keys; one synonym library per (library, '
                  'data-shape representative) x (10 pair + 3 triple mappings), '
                  'string and Group keys; histories: for each of the 10 '
                  'libraries and one hand-made library, on a constructor-made '
                  'copy: 5 Update sequences over 2 new descriptors x 4 kinds '
                  'of probe before each Update = 44 (string keys; also object '
                  'keys on the synthetic and the hand-made base); for the 7 '
                  'libraries without uncertainty data, on a freshly loaded '
                  'object: one Update adding both x 4 probes = 4; every '
                  'history ends in 7 judged estimates (all non-empty subsets '
                  'of {present group, the two new descriptors}), every '
                  'estimate probe is the same 7. Fourth wave: S/R and G/RT '
                  'with the optional switch given but off: 10 presentations '
                  'of a false value x {positional, keyword} x 2 getters = 40 '
                  'calls at the middle grid temperature for every count-2 '
                  'unit vector, every pair of data-shape representatives '
                  'whose first count is 1, and the 8 three-descriptor '
                  'mappings (string keys) of each of the 27 built libraries; '
                  'several library objects in one '
                  'process: 11 source libraries x 4 ways of building the '
                  'receiver of Update(source) x 4 ways of building a '
                  'bystander library x 3 moments of building it = 528 '
                  'histories (48 per child interpreter), each with 7 judged '
                  'bystander estimates after (and, if it existed, before) '
                  'the Update and 2r-1 (+4) judged receiver estimates for r '
                  'data-shape representatives. Fifth wave: up to 25 '
                  'presentations of the temperature (scalar-likes, lists, 1-D, '
                  'all 2-D shapes up to 3x3, three 3-D shapes, memory layouts, '
                  'integer dtype) x 4 properties for every count-2 unit '
                  'vector, (1, .) pair and (1, 2, 0.5) triple of data-shape '
                  'representatives, the 8 three-descriptor mappings of each '
                  'of the 27 built libraries and the 22 unit vectors of each '
                  'range library; range relations: 22 descriptors (10 closed '
                  'intervals over 4 temperatures incl. 4 single points + no '
                  'range, x 2 data shapes) x 2 construction routes '
                  '(constructor, YAML load): 22 units + 462 ordered pairs + '
                  '330 triples = 814 mappings per route (those without a '
                  'common temperature - 306 per route - tallied, not judged); '
                  'call histories on one estimate: 20 + 20^2 = 420 call '
                  'sequences over a 20-letter alphabet (4 getters x 2 '
                  'temperatures, S/R and G/RT with the switch absent / False '
                  '/ True / 1) for 2 estimates per library (one on a library '
                  'that decomposed nothing, one of a decomposed molecule; the '
                  'synthetic library, whose scheme decomposes none of the '
                  'molecules offered, has the first only): 19 in all',
         'thorough': 'additionally all pairs of groups for libraries with <= 80 '
                     'groups (which also widens the switched-off family to '
                     'those pairs); the built-library, synonym, history, '
                     'switched-off and several-libraries families at the '
                     'same bound as quick; the temperature presentations '
                     'also for the mappings added above; range relations as '
                     'in quick; call histories for a second molecule per '
                     'library, and additionally with all 1000 sequences of 3 '
                     'calls over the 10 letters of one temperature'}
RULE = ('each mapping is estimated on a FRESH library object (no molecule has '
        'been decomposed) and every non-dimensional property is compared with '
        'the harness\'s own sum over the constituents evaluated one by one; '
        'non-trivial = at least two terms, a non-unit count, or a property some '
        'constituent has no data for, or a missing-data variant. Built and '
        'synonym libraries go through the same comparison on a library made by '
        'the constructor. A history runs on a library object of its own; the '
        'expected sum is taken over correlation objects the harness holds '
        '(those it handed to Update(), and the present group\'s object taken '
        'from lib.contents before the first step), never through the library '
        'lookup whose behaviour over time is the thing under test; every '
        'history case is non-trivial. A call that passes the optional switch '
        'explicitly is non-trivial; its expectation is the same sum over '
        'constituents called without the switch. The several-libraries family '
        'runs in one child interpreter per source library, its histories one '
        'after the other on one loaded source object; expectations are the '
        'source\'s own correlation objects (taken before the first history) '
        'and the hand-made ones; every case of it is non-trivial. A '
        'presentation of the temperature other than one python float is '
        'non-trivial; it is judged where every constituent, called with the '
        'same object, answers (shape and every element must equal the '
        'count-weighted sum) or one reports missing data (the estimate must '
        'raise what a constituent raises), and only tallied where the '
        'constituents themselves refuse the presentation. Range-relation '
        'mappings go through the same comparison as every other mapping; a '
        'mapping whose ranges have no temperature in common is tallied '
        'without a verdict. A call history runs on an estimate object of its '
        'own; the expected sums are taken once, before the first sequence, '
        'over the library\'s correlation objects; calls that request the '
        'element correction are executed and tallied, never judged (C07); '
        'every call of a history is non-trivial')
ASSUMPTIONS = ['relative tolerance 1e-9 on the sums',
               'temperatures: ends and middle of the common range, reference '
               'temperatures inside it',
               'histories: Update() only ever ADDS descriptors that have no '
               'thermochem data yet (merging into existing data is C13); the '
               'library copies what it is given, so the harness-held originals '
               'are the expectation',
               'a constructor-made copy of a library shares the scheme and the '
               'correlation objects of a privately loaded original, which no '
               'case modifies; it has no uncertainty block, and freshly loaded '
               'libraries WITH uncertainty data get no history: a descriptor '
               'outside the uncertainty basis must make the estimate fail '
               '(C20), so "added by Update(), then estimated" is outside C01 '
               'there',
               'histories compare the sums at one temperature (middle of the '
               'common range); if Update() itself refuses an addition the '
               'history ends without a verdict and a note is written '
               '(observed: a YAML-loaded library that names the group with an '
               'empty block raises TypeError - C13\'s ground)',
               'the switched-off presentations are evaluated on fresh library '
               'objects (no molecule decomposed); what a TRUE switch must '
               'subtract is C07\'s property and is not judged here',
               'several library objects: each receiver gets exactly one '
               'Update() from one source (two sources with uncertainty data '
               'are refused by design); on a receiver that took over an '
               'uncertainty basis only the source\'s groups are estimated '
               '(a descriptor outside the basis must fail, C20); the source '
               'object is shared by the 48 histories of its interpreter, '
               'which is why a witness carries the whole prefix',
               'temperature presentations: arrays are filled with grid '
               'temperatures of the common range; float32 is not enumerated '
               '(single-precision answers cannot be held to 1e-9); H/RT, S/R '
               'and G/RT of a tabulated correlation refuse arrays (ValueError '
               'in the constituent itself), so array shapes are in effect '
               'judged on Cp/R and on missing-data propagation',
               'range relations: the statement is silent about a mapping '
               'whose constituents have no temperature in common (observed: '
               'Estimate raises AssertionError); such mappings are counted, '
               'not judged. A correlation the constructor refuses, or a '
               'library file Load refuses, cannot be put into a library: it '
               'is left out with a note, without a verdict',
               'call histories: the library object is shared by the '
               'sequences of one subject, each sequence has its own estimate '
               'object; the constituents are not modified between calls']
MANIFEST = dict(
    technique='exhaustive enumeration of descriptor->count mappings over every '
              'group of every library vs constituent-wise recomputation',
    text='For every group of every shipped library (and a synthetic library '
         'with every data shape) with every count of the alphabet, and all '
         'pairs/triples of data-shape representatives, each of Cp/R, H/RT, S/R, '
         'G/RT of the estimate equals sum(count x constituent) at every grid '
         'temperature (or raises the incomplete-data error exactly when a '
         'constituent does); inserting descriptors without data anywhere in '
         'the mapping raises the missing-data error naming exactly those. The '
         'same holds for libraries built with the constructor in which '
         'descriptors share one correlation object or hold equal ones (all 27 '
         'assignments of 3 objects to 3 descriptors; a synonym of every '
         'data-shape representative of every library), and on one library '
         'object over time: a descriptor that was looked up or estimated '
         'while absent and then added by Update() contributes exactly its '
         'data afterwards (every sequence of additions of two descriptors x '
         'every kind of earlier probe). S/R and G/RT are the same sums when '
         'the optional element switch is passed explicitly in any of 10 '
         'false presentations, positionally or by keyword. An estimate on '
         'one library object is the sum over that object\'s correlations '
         'whatever happened to other library objects of the process: for 11 '
         'source libraries merged by Update() into receivers built in 4 '
         'ways, bystander libraries built in 4 ways at 3 moments estimate '
         'exactly, and so does the receiver. The sum holds element by '
         'element and in the constituents\' shape for up to 25 presentations '
         'of the temperature (numpy scalars, lists, 1-D, every 2-D shape up '
         'to 3x3, 3-D, Fortran / transposed / strided layouts, integer '
         'dtype); for every relation between the constituents\' ranges '
         '(all ordered pairs and 330 triples over 10 closed intervals incl. '
         'single points and no range, constructor-made and YAML-loaded), in '
         'particular when the ranges meet in exactly one temperature; and '
         'for every call on an estimate whatever was called on it before '
         '(all sequences of <= 2 calls over 4 getters x 2 temperatures x 4 '
         'states of the element switch).',
    note='Counts come from a 7-value alphabet; mappings larger than three '
         'terms are not enumerated. Histories contain at most two Update() '
         'calls and only additions. A true element switch is not judged '
         '(C07). A process holds one source, and per history one receiver '
         'with one Update() and one bystander. Array temperatures are in '
         'effect judged on Cp/R only (the tabulated constituents refuse '
         'arrays for H/RT and S/R); mappings whose ranges share no '
         'temperature are not judged; call histories have at most 2 calls '
         '(thorough: 3 at one temperature) and the constituents are never '
         'modified between calls.',
    ref='5/C01')


def fresh(name):
    """Library by name: shipped / synthetic, or one of the built ones."""
    if name.startswith('w3ctor:'):
        return W.ctor_library(name)
    if name.startswith('w3syn:'):
        return W.synonym_library(name)
    if name.startswith('w5ranges:'):
        return X.range_library(name)[0]
    return E.fresh(name)


def estimate(lib, mapping, as_group=False):
    from pgradd.GroupAdd.Group import Group
    d = {}
    for g, c in mapping:
        if as_group and not isinstance(g, str) and hasattr(g, 'csg'):
            key = Group(lib.scheme, g.csg, list(reversed(g.psgs)))
        elif as_group:
            key = g
        else:
            key = str(g)
        d[key] = c
    return lib.Estimate(d, 'thermochem')


def check_mapping(R, name, lib, tag, mapping, as_group, switch=False,
                  shapes=False):
    wit = dict(kind='map', lib=name, mapping=[[str(g), c] for g, c in mapping],
               as_group=as_group)
    r = E.ev(estimate, lib, mapping, as_group)
    if r[0] != 'ok':
        R.evals += 1
        R.nontrivial += 1
        R.outcomes['estimate-raises:' + r[1]] += 1
        R.violation('estimate-raises:%s' % r[1],
                    '[%s] every descriptor of %r has data but Estimate raised %s'
                    % (name, wit['mapping'], r[1]), wit)
        return
    e = r[1]
    cons = [(lib[g]['thermochem'], c) for g, c in mapping]
    rng = E.common_range(lib, mapping)
    for T in E.grid_inside(rng, mapping, lib):
        for prop in E.PROPS:
            R.evals += 1
            got = E.ev(getattr(e, prop), T)
            parts = [E.ev(getattr(k, prop), T) for k, _ in cons]
            nontrivial = len(mapping) > 1 or mapping[0][1] != 1 or \
                any(p[0] == 'exc' for p in parts)
            if nontrivial:
                R.nontrivial += 1
            if any(p[0] == 'exc' for p in parts):
                exs = set(p[1] for p in parts if p[0] == 'exc')
                if got[0] == 'exc' and got[1] in exs:
                    R.outcomes['propagates:' + got[1]] += 1
                else:
                    R.outcomes['partial-sum'] += 1
                    R.violation('partial-sum:%s' % prop,
                                '[%s] %s(%g) of %r: a constituent raises %s but '
                                'the estimate gave %r' % (name, prop, T, wit['mapping'],
                                                          sorted(exs), got[:2]), wit)
                continue
            want = sum(c * p[1] for (k, c), p in zip(cons, parts))
            if got[0] != 'ok':
                R.outcomes['raises'] += 1
                R.violation('raises:%s:%s' % (prop, got[1]),
                            '[%s] %s(%g) of %r raised %s; constituents give %r'
                            % (name, prop, T, wit['mapping'], got[1], want), wit)
            elif not E.is_plain_finite(got[1]) or \
                    abs(float(got[1]) - want) > 1e-9 * max(1.0, abs(want)):
                R.outcomes['wrong-sum'] += 1
                R.violation('wrong-sum:%s:%s' % (prop, tag),
                            '[%s] %s(%g) of %r = %r, sum over constituents = %r'
                            % (name, prop, T, wit['mapping'], got[1], want), wit)
            else:
                R.outcomes['sum-ok'] += 1
    if switch:
        temps = E.grid_inside(rng, mapping, lib)
        if temps:
            check_switch_off(R, name, e, cons, temps[len(temps) // 2], wit)
    if shapes:
        temps = E.grid_inside(rng, mapping, lib)
        if temps:
            check_shapes(R, name, e, cons, temps, wit)
    # the estimate must not follow later changes of the caller's own mapping
    d = dict((str(g), c) for g, c in mapping)
    r2 = E.ev(lib.Estimate, d, 'thermochem')
    temps = E.grid_inside(rng, mapping, lib)[:2]
    if r2[0] == 'ok' and temps:
        before = [E.ev(getattr(r2[1], p), T)[:2] for T in temps for p in E.PROPS]
        for k in list(d):
            d[k] = d[k] * 3 + 1
        d['Q(Z)9'] = 5
        after = [E.ev(getattr(r2[1], p), T)[:2] for T in temps for p in E.PROPS]
        d.clear()
        cleared = [E.ev(getattr(r2[1], p), T)[:2] for T in temps for p in E.PROPS]
        R.evals += 1
        R.nontrivial += 1
        if before != after or before != cleared:
            R.outcomes['aliases-caller-mapping'] += 1
            R.violation('estimate-follows-callers-mapping',
                        '[%s] estimate of %r changed after the caller modified its own '
                        'mapping: %r -> %r' % (name, wit['mapping'], before[:2],
                                               (after if before != after else cleared)[:2]), wit)
        else:
            R.outcomes['independent-of-callers-mapping'] += 1
    if len(mapping) > 1:
        R.sample(dict(library=name, mapping=wit['mapping'], range=rng), limit=1)


def check_switch_off(R, name, e, cons, T, wit):
    """S/R and G/RT with the element correction explicitly NOT requested:
    every presentation of 'off' x positional / keyword.  The expectation is
    the same plain sum over the constituents as for the call without the
    argument."""
    for prop in V.SWITCHED:
        parts = [E.ev(getattr(k, prop), T) for k, _ in cons]
        exs = set(p[1] for p in parts if p[0] == 'exc')
        want = None if exs else sum(c * p[1] for (k, c), p in zip(cons, parts))
        for label, val in V.off_switches():
            for route in V.ROUTES:
                R.evals += 1
                R.nontrivial += 1
                got = E.ev(V.call_switched, e, prop, T, val, route)
                how = '%s(%g, %s%s)' % (prop, T, 'S_elements=' if route ==
                                        'keyword' else '', label)
                w = dict(wit, switch=label, route=route)
                if exs:
                    if got[0] == 'exc' and got[1] in exs:
                        R.outcomes['switch-off:propagates:' + got[1]] += 1
                    else:
                        R.outcomes['switch-off:partial-sum'] += 1
                        R.violation('switch-off-partial-sum:%s' % prop,
                                    '[%s] %s of %r: a constituent raises %s '
                                    'but the estimate gave %r' % (
                                        name, how, wit['mapping'], sorted(exs),
                                        got[:2]), w)
                    continue
                if got[0] != 'ok':
                    R.outcomes['switch-off:raises'] += 1
                    R.violation('switch-off-raises:%s:%s' % (prop, got[1]),
                                '[%s] %s of %r raised %s; no element '
                                'correction was requested and the constituents '
                                'give %r' % (name, how, wit['mapping'], got[1],
                                             want), w)
                elif not E.is_plain_finite(got[1]) or \
                        abs(float(got[1]) - want) > 1e-9 * max(1.0, abs(want)):
                    R.outcomes['switch-off:wrong-sum'] += 1
                    R.violation('switch-off-wrong-sum:%s' % prop,
                                '[%s] %s of %r = %r; no element correction '
                                'was requested and the sum over constituents '
                                'is %r' % (name, how, wit['mapping'], got[1],
                                           want), w)
                else:
                    R.outcomes['switch-off:sum-ok'] += 1


def check_shapes(R, name, e, cons, temps, wit):
    """Every presentation of the temperature (domains/w5_c01.py) x the four
    properties.  The expectation is the sum over the constituents, each
    called with the SAME temperature object: where they all answer (numbers
    or arrays) the estimate must answer in the same shape with the
    count-weighted sum element by element; where one of them reports missing
    data the estimate must raise what a constituent raises (the rule of the
    scalar family).  Where the constituents refuse the presentation itself
    (a python list; an array for H/RT, S/R) there is no 'correlation value
    at that temperature' and nothing is demanded."""
    import numpy as np
    for label, T in X.temperature_presentations(temps):
        for prop in E.PROPS:
            R.evals += 1
            R.nontrivial += 1
            parts = [E.ev(getattr(k, prop), T) for k, _ in cons]
            got = E.ev(getattr(e, prop), T)
            how = '%s(%s: %s)' % (prop, label, X.describe_T(T))
            w = dict(wit, T_presentation=label)
            exs = set(p[1] for p in parts if p[0] == 'exc')
            if exs:
                if 'IncompleteDataError' not in exs:
                    R.outcomes['shape:constituents-refuse:%s' % sorted(exs)[0]] += 1
                elif got[0] == 'exc' and got[1] in exs:
                    R.outcomes['shape:propagates:' + got[1]] += 1
                else:
                    R.outcomes['shape:partial-sum'] += 1
                    R.violation('shape-partial-sum:%s' % prop,
                                '[%s] %s of %r: a constituent raises %s but '
                                'the estimate gave %r' % (
                                    name, how, wit['mapping'], sorted(exs),
                                    got[:2]), w)
                continue
            try:
                want = np.asarray(sum(c * np.asarray(p[1], dtype=float)
                                      for (k, c), p in zip(cons, parts)),
                                  dtype=float)
            except Exception:       # noqa
                R.outcomes['shape:constituents-not-numeric'] += 1
                continue
            if not np.all(np.isfinite(want)):
                R.outcomes['shape:constituents-not-finite'] += 1
                continue
            if got[0] != 'ok':
                R.outcomes['shape:raises'] += 1
                R.violation('shape-raises:%s:%s' % (prop, got[1]),
                            '[%s] %s of %r raised %s; every constituent '
                            'answers, their sum is %r' % (
                                name, how, wit['mapping'], got[1],
                                want.tolist()), w)
                continue
            try:
                g = np.asarray(got[1])
                bad = g.dtype.kind not in 'fiu'
                g = g.astype(float)
            except Exception:       # noqa
                bad = True
            if bad or g.shape != want.shape or not np.all(np.isfinite(g)) or \
                    np.any(np.abs(g - want) > 1e-9 * np.maximum(1.0, np.abs(want))):
                R.outcomes['shape:wrong-sum'] += 1
                R.violation('shape-wrong-sum:%s' % prop,
                            '[%s] %s of %r = %r; sum over the constituents '
                            'called with the same temperatures = %r' % (
                                name, how, wit['mapping'],
                                got[1].tolist() if hasattr(got[1], 'tolist')
                                else got[1], want.tolist()), w)
            else:
                R.outcomes['shape:sum-ok:%d-D' % want.ndim] += 1


X_RANGE_SLICES = 3
MISSING = ['Q(Z)9', 'C(H)3(O)', 'Q(Z)(Y)2(Z)']   # unknown, named without data, non-canonical unknown


def check_missing(R, name, lib, mapping):
    """Insert 1-2 descriptors without data at first/middle/last position."""
    from pgradd.Error import GroupMissingDataError
    base = [(str(g), c) for g, c in mapping]
    extras = [[m] for m in MISSING] + [[MISSING[0], MISSING[2]], [MISSING[1], MISSING[0]]]
    for ex in extras:
      for cnt in (1, 0, 0.0, -2):
        for pos in sorted(set([0, len(base) // 2, len(base)])):
            items = base[:pos] + [(x, cnt) for x in ex] + base[pos:]
            d = dict(items)
            R.evals += 1
            R.nontrivial += 1
            r = E.ev(lib.Estimate, d, 'thermochem')
            wit = dict(kind='missing', lib=name, items=[list(i) for i in items])
            if r[0] == 'ok':
                R.outcomes['missing:returned-an-estimate'] += 1
                R.violation('missing-data-ignored',
                            '[%s] %r contains descriptors without data (%r) but an '
                            'estimate was returned' % (name, items, ex), wit)
                continue
            if r[1] != 'GroupMissingDataError':
                R.outcomes['missing:' + r[1]] += 1
                R.violation('missing-data-wrong-error:' + r[1],
                            '[%s] %r: expected GroupMissingDataError, got %s'
                            % (name, items, r[1]), wit)
                continue
            try:
                lib.Estimate(d, 'thermochem')
            except GroupMissingDataError as err:
                named = sorted(str(g) for g in err.groups)
            if named != sorted(ex):
                R.outcomes['missing:wrong-groups-named'] += 1
                R.violation('missing-data-wrong-groups',
                            '[%s] %r: error names %r, descriptors without data '
                            'are %r' % (name, items, named, sorted(ex)), wit)
            else:
                R.outcomes['missing:named-exactly'] += 1


def run_lib(R, name, i, n, tier):
    lib = E.fresh(name)     # never decomposed anything
    below = 80 if tier == 'thorough' else 0
    for k, (tag, mapping) in enumerate(E.mappings(lib, tier, below)):
        if k % n != i:
            continue
        varied = (tag == 'unit' and mapping[0][1] == 2) or \
            (tag == 'pair' and mapping[0][1] == 1)
        shaped = varied or (tag == 'triple' and mapping[0][1] == 1)
        check_mapping(R, name, lib, tag, mapping, as_group=False, switch=varied,
                      shapes=shaped)
        if tag != 'unit' or mapping[0][1] == 1:
            check_mapping(R, name, lib, tag, mapping, as_group=True)
        if varied:
            check_missing(R, name, lib, mapping)


# ------------------------------------------------------- built libraries

def run_ctor(R, i, n):
    for k, name in enumerate(W.ctor_names()):
        if k % n != i:
            continue
        lib = W.ctor_library(name)
        for tag, mapping in W.ctor_mappings(lib):
            check_mapping(R, name, lib, tag, mapping, as_group=False,
                          switch=(tag == 'built-triple'),
                          shapes=(tag == 'built-triple'))
            if tag != 'built-unit' or mapping[0][1] == 1:
                check_mapping(R, name, lib, tag, mapping, as_group=True)


def run_synonyms(R, libname, base):
    reps = [str(g) for g in E.class_reps(base)]
    for k, gname in enumerate(reps):
        hname = reps[(k + 1) % len(reps)] if len(reps) > 1 else None
        name = W.syn_name(libname, gname)
        lib = W.synonym_library(name, base)
        for tag, mapping in W.syn_mappings(lib, gname, hname):
            check_mapping(R, name, lib, tag, mapping, as_group=False)
            check_mapping(R, name, lib, tag, mapping, as_group=True)


# ------------------------------------------------------------- histories

def grid_of(cons):
    rs = [k.get_range() for k, _ in cons]
    rs = [(float(r[0]), float(r[1])) for r in rs if r is not None]
    if not rs:
        return [500.0]
    lo, hi = max(r[0] for r in rs), min(r[1] for r in rs)
    if lo > hi:
        return []
    return [0.5 * (lo + hi)]


def compare_history_sum(R, ctx, e, cons, wit, pre='hist'):
    for T in grid_of(cons):
        for prop in E.PROPS:
            R.evals += 1
            R.nontrivial += 1
            got = E.ev(getattr(e, prop), T)
            parts = [E.ev(getattr(k, prop), T) for k, _ in cons]
            if any(p[0] == 'exc' for p in parts):
                exs = set(p[1] for p in parts if p[0] == 'exc')
                if got[0] == 'exc' and got[1] in exs:
                    R.outcomes[pre + ':propagates:' + got[1]] += 1
                else:
                    R.outcomes[pre + ':partial-sum'] += 1
                    R.violation('%s-partial-sum:%s' % (pre, prop),
                                '%s %s(%g): a constituent raises %s but the '
                                'estimate gave %r' % (ctx, prop, T, sorted(exs),
                                                      got[:2]), wit)
                continue
            want = sum(c * p[1] for (k, c), p in zip(cons, parts))
            if got[0] != 'ok':
                R.outcomes[pre + ':raises'] += 1
                R.violation('%s-raises:%s:%s' % (pre, prop, got[1]),
                            '%s %s(%g) raised %s; constituents give %r'
                            % (ctx, prop, T, got[1], want), wit)
            elif not E.is_plain_finite(got[1]) or \
                    abs(float(got[1]) - want) > 1e-9 * max(1.0, abs(want)):
                R.outcomes[pre + ':wrong-sum'] += 1
                R.violation('%s-wrong-sum:%s' % (pre, prop),
                            '%s %s(%g) = %r, sum over constituents = %r'
                            % (ctx, prop, T, got[1], want), wit)
            else:
                R.outcomes[pre + ':sum-ok'] += 1


def run_history(R, name, build, keystyle, steps, base=None, g1obj=None):
    """One history on one library object of its own.  The model is the dict
    `have`: descriptor name -> correlation object held by the harness."""
    from pgradd.Error import GroupMissingDataError
    wit = dict(kind='hist', lib=name, build=build, keys=keystyle,
               steps=[[p, list(a)] for p, a in steps])
    lib = W.history_library(name, build, base)
    if g1obj is None:
        g1obj = E.class_reps(lib)[0]
    g1 = str(g1obj)
    have = {g1: lib.contents[g1obj]['thermochem']}
    corr = W.new_correlations()
    objs = {g1: g1obj}
    for d in W.NEW:
        objs[d] = W.key_object(lib.scheme, d)

    def key(x):
        return objs[x] if keystyle == 'obj' else x

    def observe(when):
        for mapping in W.observation_mappings(g1):
            ctx = '[%s/%s/%s keys] after %r, %s: Estimate(%r)' % (
                name, build, keystyle, wit['steps'], when, mapping)
            absent = sorted(x for x, _ in mapping if x not in have)
            d = dict((key(x), c) for x, c in mapping)
            r = E.ev(lib.Estimate, d, 'thermochem')
            if not absent:
                if r[0] != 'ok':
                    R.evals += 1
                    R.nontrivial += 1
                    R.outcomes['hist:estimate-raises:' + r[1]] += 1
                    R.violation('hist-estimate-raises:%s' % r[1],
                                '%s: every descriptor has data by now but '
                                'Estimate raised %s' % (ctx, r[1]), wit)
                    continue
                compare_history_sum(R, ctx, r[1],
                                    [(have[x], c) for x, c in mapping], wit)
                continue
            R.evals += 1
            R.nontrivial += 1
            if r[0] == 'ok':
                R.outcomes['hist:missing:returned-an-estimate'] += 1
                R.violation('hist-missing-data-ignored',
                            '%s: %r have no data (yet) but an estimate was '
                            'returned' % (ctx, absent), wit)
                continue
            if r[1] != 'GroupMissingDataError':
                R.outcomes['hist:missing:' + r[1]] += 1
                R.violation('hist-missing-data-wrong-error:' + r[1],
                            '%s: expected GroupMissingDataError, got %s'
                            % (ctx, r[1]), wit)
                continue
            named = None
            try:
                lib.Estimate(d, 'thermochem')
            except GroupMissingDataError as err:
                named = sorted(str(g) for g in err.groups)
            if named != absent:
                R.outcomes['hist:missing:wrong-groups-named'] += 1
                R.violation('hist-missing-data-wrong-groups',
                            '%s: error names %r, descriptors without data are '
                            '%r' % (ctx, named, absent), wit)
            else:
                R.outcomes['hist:missing:named-exactly'] += 1

    def lookup(when, how):
        for x in [g1] + W.NEW:
            R.evals += 1
            R.nontrivial += 1
            if how == 'getitem':
                r = E.ev(lambda: lib[key(x)])
            else:
                r = E.ev(lambda: lib.get(key(x)))
            ok = r[0] == 'ok' and E.ev(
                lambda: ('thermochem' in r[1]) == (x in have))[:2] == ('ok', True)
            if ok:
                R.outcomes['hist:lookup-ok'] += 1
            else:
                R.outcomes['hist:lookup-wrong'] += 1
                R.violation('hist-lookup-wrong',
                            '[%s/%s/%s keys] after %r, %s: %s of %r gave %r; '
                            'it %s thermochem data' % (
                                name, build, keystyle, wit['steps'], when, how,
                                x, r[:2], 'has' if x in have else 'has no'),
                            wit)

    for n, (probe, adds) in enumerate(steps):
        when = 'before Update #%d' % (n + 1)
        if probe == 'estimate':
            observe(when)
        elif probe in ('getitem', 'get'):
            lookup(when, probe)
        r = E.ev(lib.Update, W.extra_library(lib.scheme, adds, corr))
        R.evals += 1
        R.nontrivial += 1
        if r[0] != 'ok':
            # whether Update() accepts an addition is C13's question; without
            # it the premise "every descriptor has data" is not established
            R.outcomes['hist:update-refused:' + r[1]] += 1
            if not R.notes:
                R.notes.append('[%s/%s] Update() adding %r raised %s: history '
                               'ends without a verdict' % (name, build, adds, r[1]))
            return
        for d in adds:
            have[d] = corr[d]
    observe('after the last Update')


def run_histories(R, name, build, base):
    g1obj = None if base is None else E.class_reps(base)[0]
    for keystyle in W.keystyles(name, build):
        for steps in W.histories(build):
            run_history(R, name, build, keystyle, steps, base, g1obj)


def run_built(R, name):
    if name.startswith('w3ctor:'):
        run_histories(R, name, 'ctor', None)
        return
    base = W.private_load(name)     # never modified, never estimated on
    run_synonyms(R, name, base)
    run_histories(R, name, 'ctor', base)


# ------------------------------------- several library objects, one process

def run_process_histories(R, source, hists):
    """The histories `hists` one after the other in THIS process, all on one
    loaded source library (a load per history would cost 0.1-0.6 s each).
    Later histories therefore run in whatever process state the earlier ones
    left behind: the witness of a violation in history k is hists[:k+1], and
    replaying it walks that whole prefix in a fresh process."""
    if source.startswith('w3ctor:'):
        S = W.ctor_library(source)
    else:
        S = W.private_load(source)      # never modified, never estimated on
    reps = E.class_reps(S)
    g1obj = reps[0]
    g1 = str(g1obj)
    held = dict((str(g), S.contents[g]['thermochem']) for g in reps)
    with_basis = source in libs.UQ_LIBS

    def judge(lib, who, when, mapping, have, wit):
        ctx = '[%s] %s, %s: Estimate(%r)' % (source, who, when, mapping)
        r = E.ev(lib.Estimate, dict(mapping), 'thermochem')
        if r[0] != 'ok':
            R.evals += 1
            R.nontrivial += 1
            R.outcomes['process:estimate-raises:' + r[1]] += 1
            R.violation('process-estimate-raises:%s' % r[1],
                        '%s: every descriptor has data in this library but '
                        'Estimate raised %s (histories run in this process: '
                        '%r)' % (ctx, r[1], wit['histories']), wit)
            return
        compare_history_sum(R, ctx, r[1], [(have[x], c) for x, c in mapping],
                            wit, pre='process')

    for k, (pa, pb, moment) in enumerate(hists):
        wit = dict(kind='process', source=source,
                   histories=[list(h) for h in hists[:k + 1]])
        corr = V.own_correlations()
        have_b = {g1: held[g1], V.B_GROUP: corr[V.B_GROUP],
                  V.B_CORR: corr[V.B_CORR]}
        who_b = 'bystander library built by %r' % pb
        who_a = 'receiver library built by %r' % pa

        def make(who, when, path, items):
            # building a library from hand-made parts cannot fail; if it does
            # (in a process that did nothing but these histories) that is
            # reported with the history instead of ending the exploration
            R.evals += 1
            R.nontrivial += 1
            r = E.ev(V.build, S.scheme, path, items)
            if r[0] == 'ok':
                R.outcomes['process:library-built'] += 1
                return r[1]
            R.outcomes['process:construction-raises:' + r[1]] += 1
            R.violation('process-construction-raises:%s' % r[1],
                        '[%s] %s, %s: building it from hand-made '
                        'correlations raised %s (histories run in this '
                        'process: %r)' % (source, who, when, r[1],
                                          wit['histories']), wit)
            return None

        def bystander(when):
            B = make(who_b, when, pb, V.bystander_items(S, g1obj, corr))
            if B is not None:
                for mapping in V.bystander_mappings(g1):
                    judge(B, who_b, when, mapping, have_b, wit)
            return B

        B = None
        if moment == 'first':
            B = bystander('made before the receiver (%r)' % pa)
            if B is None:
                continue
        A = make(who_a, 'before its Update(%s)' % source, pa,
                 V.receiver_items(S, pa, corr))
        if A is None:
            continue
        if moment == 'between':
            B = bystander('made before the receiver (%r) was Update()d' % pa)
            if B is None:
                continue
        r = E.ev(A.Update, S)
        R.evals += 1
        R.nontrivial += 1
        if r[0] != 'ok':
            # whether Update() accepts the source is C13's question
            R.outcomes['process:update-refused:' + r[1]] += 1
            if not R.notes:
                R.notes.append('[%s] Update(%s) on a receiver built by %r '
                               'raised %s: history ends without a verdict'
                               % (source, source, pa, r[1]))
            continue
        R.outcomes['process:update-accepted'] += 1
        when = 'after the receiver (%r) was Update()d from %s' % (pa, source)
        if B is None:
            B = make(who_b, when, pb, V.bystander_items(S, g1obj, corr))
        if B is not None:
            for mapping in V.bystander_mappings(g1):
                judge(B, who_b + (' earlier' if moment != 'last' else ''),
                      when, mapping, have_b, wit)
        # the receiver: the library copies what it is given, so the source's
        # own objects (and the hand-made ones) are the expectation.  With an
        # uncertainty basis taken over from the source, descriptors outside
        # it must fail (C20) and are not estimated here.
        own = [] if (pa == 'bare' or with_basis) else [V.A_GROUP, V.A_CORR]
        have_a = dict(held)
        for d in own:
            have_a[d] = corr[d]
        for mapping in V.receiver_mappings([str(g) for g in reps], own):
            judge(A, who_a, 'after Update(%s)' % source, mapping, have_a, wit)
        if k == 0:
            R.sample(dict(process=source, history=[pa, pb, moment]), limit=1)


def _process_child(source, outpath):
    R = Result()
    run_process_histories(R, source, V.process_histories())
    with open(outpath, 'w') as f:
        json.dump(R.pack(), f, default=str)


def run_process_isolated(R, source):
    """This family is about state that outlives one library object; it gets
    an interpreter of its own so that whatever it leaves behind cannot reach
    the other families of this worker (whose witnesses are replayed alone),
    and so that nothing the worker did before reaches it."""
    with tempfile.TemporaryDirectory(prefix='pgv_c01p_') as d:
        outp = os.path.join(d, 'out.json')
        p = subprocess.run(
            [sys.executable, '-c', 'import sys; from mc.props import c01; '
             'c01._process_child(sys.argv[1], sys.argv[2])', source, outp],
            cwd=VERIF, env=dict(os.environ), stdin=subprocess.DEVNULL,
            stdout=subprocess.PIPE, stderr=subprocess.STDOUT, timeout=3600)
        if p.returncode != 0 or not os.path.exists(outp):
            raise RuntimeError('process-family child for %s failed rc=%s: %s'
                               % (source, p.returncode,
                                  p.stdout.decode(errors='replace')[-1200:]))
        pack = json.load(open(outp))
    R.evals += pack['evals']
    R.nontrivial += pack['nontrivial']
    R.outcomes.update(pack['outcomes'])
    R.extra.update(pack['extra'])
    R.violations.extend(pack['violations'])
    R.samples.extend(pack['samples'])
    R.notes.extend(pack['notes'][:3])


# ------------------------------------------- fifth wave: ranges, call histories

def run_ranges(R, name, i, n):
    """The interval-relation library (domains/w5_c01.py) built by `name`'s
    route; mappings k with k % n == i."""
    lib, names, notes = X.range_library(name)
    if i == 0:
        R.notes.extend(notes[:4])
        R.sample(dict(library=name, descriptors=names), limit=1)
    for k, (tag, mapping) in enumerate(X.range_mappings(names)):
        if k % n != i:
            continue
        rng = E.common_range(lib, mapping)
        if rng is not None and rng[0] > rng[1]:
            # no temperature lies in every constituent's range: the statement
            # quantifies over an empty set and does not say whether such an
            # estimate can be made at all.  Tallied, never judged.
            R.evals += 1
            r = E.ev(estimate, lib, mapping)
            R.outcomes['ranges:empty-common-range:%s' % (
                'estimate-returned' if r[0] == 'ok' else 'Estimate-raises-' + r[1])] += 1
            continue
        if rng is None:
            R.outcomes['ranges:relation:no-range'] += 1
        elif rng[0] == rng[1]:
            R.outcomes['ranges:relation:single-point'] += 1
        else:
            R.outcomes['ranges:relation:proper-interval'] += 1
        check_mapping(R, name, lib, tag, mapping, as_group=False,
                      shapes=(tag == 'range-unit'))


def run_call_subject(R, name, subject, seqs):
    """Call sequences on estimates of ONE mapping of library `name`; every
    sequence gets an estimate object of its own (made by the same library
    object), every call in it that does not request the element correction
    is judged against the plain sum over the constituents (evaluated once,
    before the first sequence, on the library's own correlation objects)."""
    kind, what = subject
    lib = W.private_load(name)      # nobody else in this process holds it
    if kind == 'mol':
        d = dict(lib.GetDescriptors(what))
    else:
        d = dict((g, c) for g, c in what)
    items = [(str(g), c) for g, c in d.items()]
    cons = [(lib[g]['thermochem'], c) for g, c in d.items()]
    rng = E.common_range(lib, list(d.items()))
    grid = E.grid_inside(rng, list(d.items()), lib)
    if not grid:
        R.outcomes['calls:no-temperature-in-range'] += 1
        return
    temps = [grid[0], grid[len(grid) // 2]]
    want = {}
    for ti, T in enumerate(temps):
        for prop in E.PROPS:
            parts = [E.ev(getattr(k, prop), T) for k, _ in cons]
            exs = set(p[1] for p in parts if p[0] == 'exc')
            want[prop, ti] = (exs, None if exs else
                              sum(c * p[1] for (k, c), p in zip(cons, parts)))
    n = 0
    for seq in seqs:
        n += 1
        r = E.ev(lib.Estimate, dict(d), 'thermochem')
        if r[0] != 'ok':
            R.evals += 1
            R.nontrivial += 1
            R.outcomes['calls:estimate-raises:' + r[1]] += 1
            R.violation('calls-estimate-raises:%s' % r[1],
                        '[%s] Estimate(%r) raised %s' % (name, items, r[1]),
                        dict(kind='calls', lib=name, subject=[kind, what],
                             calls=[]))
            return
        e = r[1]
        for k, (prop, ti, sw) in enumerate(seq):
            R.evals += 1
            R.nontrivial += 1
            T = temps[ti]
            got = E.ev(X.do_call, e, prop, T, sw)
            if sw in ('on', 'on-int'):
                # what a TRUE switch subtracts is C07's property
                R.outcomes['calls:correction-requested:%s' % (
                    'answered' if got[0] == 'ok' else got[1])] += 1
                continue
            wit = dict(kind='calls', lib=name, subject=[kind, what],
                       calls=[list(c) for c in seq[:k + 1]])
            ctx = '[%s] estimate of %r (%s), call %d of %r: %s(%g%s)' % (
                name, items, 'library never decomposed anything' if kind ==
                'fresh' else 'descriptors of %s' % what, k + 1, wit['calls'],
                prop, T, '' if sw == 'absent' else ', S_elements=False')
            exs, w = want[prop, ti]
            if exs:
                if got[0] == 'exc' and got[1] in exs:
                    R.outcomes['calls:propagates:' + got[1]] += 1
                else:
                    R.outcomes['calls:partial-sum'] += 1
                    R.violation('calls-partial-sum:%s' % prop,
                                '%s: a constituent raises %s but the estimate '
                                'gave %r' % (ctx, sorted(exs), got[:2]), wit)
            elif got[0] != 'ok':
                R.outcomes['calls:raises'] += 1
                R.violation('calls-raises:%s:%s' % (prop, got[1]),
                            '%s raised %s; constituents give %r'
                            % (ctx, got[1], w), wit)
            elif not E.is_plain_finite(got[1]) or \
                    abs(float(got[1]) - w) > 1e-9 * max(1.0, abs(w)):
                R.outcomes['calls:wrong-sum'] += 1
                R.violation('calls-wrong-sum:%s' % prop,
                            '%s = %r, sum over constituents = %r'
                            % (ctx, got[1], w), wit)
            else:
                R.outcomes['calls:sum-ok'] += 1
    R.sample(dict(library=name, subject=[kind, what], temperatures=temps,
                  call_sequences=n), limit=3)


def run_calls(R, name, tier):
    subjects = X.call_subjects(W.private_load(name), tier)
    for subject in subjects:
        run_call_subject(R, name, subject, X.call_sequences(tier))


def shards(tier, seed):
    out = []
    for name in LIBS:
        n = 4 if tier == 'quick' else 16
        for i in range(n):
            out.append((name, i, n))
    # third wave: built libraries, synonyms, histories (same in both tiers)
    for i in range(3):
        out.append(('w3-ctor', i, 3))
    for name in LIBS + [W.HIST_CTOR_BASE]:
        out.append(('w3-built', name))
    for name in LIBS:
        # a descriptor outside an uncertainty basis is C20's business
        if name not in libs.UQ_LIBS:
            out.append(('w3-loaded', name))
    # fourth wave: several library objects in one process (same in both
    # tiers); one child interpreter per source library
    for name in LIBS + [W.HIST_CTOR_BASE]:
        out.append(('w4-process', name))
    # fifth wave (same in both tiers, thorough with longer call sequences)
    for name in X.RANGE_LIBS:
        for i in range(X_RANGE_SLICES):
            out.append(('w5-ranges', name, i, X_RANGE_SLICES))
    for name in LIBS:
        out.append(('w5-calls', name))
    return out


def run_shard(shard, tier):
    R = Result()
    if shard[0] == 'w3-ctor':
        run_ctor(R, shard[1], shard[2])
    elif shard[0] == 'w3-built':
        run_built(R, shard[1])
    elif shard[0] == 'w3-loaded':
        run_histories(R, shard[1], 'loaded', None)
    elif shard[0] == 'w4-process':
        run_process_isolated(R, shard[1])
    elif shard[0] == 'w5-ranges':
        run_ranges(R, shard[1], shard[2], shard[3])
    elif shard[0] == 'w5-calls':
        run_calls(R, shard[1], tier)
    else:
        run_lib(R, shard[0], shard[1], shard[2], tier)
    return R


def replay(w):
    R = Result()
    if w['kind'] == 'hist':
        run_history(R, w['lib'], w['build'], w['keys'], w['steps'])
        return dict(violates=bool(R.violations),
                    detail='\n'.join(v['msg'] for v in R.violations) or 'holds')
    if w['kind'] == 'calls':
        run_call_subject(R, w['lib'], tuple(w['subject']),
                         [[tuple(c) for c in w['calls']]])
        return dict(violates=bool(R.violations),
                    detail='\n'.join(v['msg'] for v in R.violations) or 'holds')
    if w['kind'] == 'process':
        # replay runs in a fresh interpreter already
        run_process_histories(R, w['source'], [tuple(h) for h in w['histories']])
        return dict(violates=bool(R.violations),
                    detail='\n'.join(v['msg'] for v in R.violations) or 'holds')
    lib = fresh(w['lib'])
    if w['kind'] == 'map':
        groups = {str(g): g for g in lib}
        mapping = [(groups.get(g, g), c) for g, c in w['mapping']]
        check_mapping(R, w['lib'], lib, 'replay', mapping, w['as_group'],
                      switch=True, shapes=True)
    else:
        r = E.ev(lib.Estimate, dict((a, b) for a, b in w['items']), 'thermochem')
        ex = [a for a, b in w['items'] if a in MISSING]
        ok = False
        if r[0] == 'exc' and r[1] == 'GroupMissingDataError':
            from pgradd.Error import GroupMissingDataError
            try:
                lib.Estimate(dict((a, b) for a, b in w['items']), 'thermochem')
            except GroupMissingDataError as err:
                ok = sorted(str(g) for g in err.groups) == sorted(ex)
        return dict(violates=not ok, detail=repr(r[:2]))
    return dict(violates=bool(R.violations),
                detail='\n'.join(v['msg'] for v in R.violations) or 'holds')
