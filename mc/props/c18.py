"""C18 - a correlation written to YAML reads back as the same correlation.

Correlations: table size {0,1,2,3} (thorough: +7, 15) x H in {absent, 0,
-17.2242733, 1.5e-5, 2.5e4} x S in {absent, 0, 15.3} x range {absent, present} x
T_ref {298.15, 298, 300} x a zero Cp value present/absent, built directly and by
loading a file (numpy scalars); x 19 unit choices.  Plus every group of every
shipped library x the 19 unit choices.  The text is loaded back both as a
tagged object and embedded in a library file.

Third wave (domains in mc/domains/w3_c18.py):
* magnitude ladder: every value sign x {1.234567, 9.87654321} x 10**e, e in
  -9..9 (thorough: -12..12), placed in H_ref, S_ref and two Cp points (once
  negated), built directly and by loading a file, x 25 unit choices (the 19
  plus mK and MK temperatures with the three matching enthalpy/entropy pairs);
* histories on one object: every sequence of 2 (thorough: 3) of the public
  mutators {del_ND_H_ref, del_ND_S_ref, del_ND_Cp(400), del_ND_Cp(),
  set_range((250,1200)), set_range(None), update(other, overwrite)} from 3
  starting correlations, the object written and read back before the first and
  after every step, in 3 unit choices; the expectation is the object's fields
  read just before formatting, and formatting must leave them untouched;
* every ordered pair of the 25 unit choices written one after the other from
  the same object (the second text is judged).

Fourth wave (domains and the sharper comparison in mc/domains/w4_c18.py):
* "six significant digits" is judged a second time in EVERY family, after the
  first comparison (relative 1e-5, kept) found nothing: a temperature, and a
  value in the dimensional form, may come back at most half a unit of the
  sixth significant digit of the number as written away from what was
  formatted (that is what one correct rounding to six digits costs);
* temperatures: 24 six-digit temperatures around the values a loader could
  take for granted (298.15 K +- 1..6, 10 units of the sixth digit; 298, 300,
  273.15, 1000 K +- 1 unit) and 5 needing more than six digits (298.15 K +-
  0.4, 0.6 unit, the next float), each placed in T_ref, a tabulated
  temperature, the lower and the upper end of the range, of a correlation
  with and without a Cp table, built directly and by loading, x 5 unit
  choices (none; K, kK, mK, MK dimensional);
* ranges: every (lo, lo + w) for lo in {200, 298.15, 300, 1000} K and w in
  {0, .001, .1, .4, .6, 1, 2, 10, 1e5} units of the sixth digit of lo (a
  single temperature; two ends written as the same number; as neighbouring
  numbers; ordinary) x {no Cp and T_ref outside, no Cp and T_ref = lo, Cp
  table on the ends} x {direct, loaded} x the 5 unit choices;
* six-digit data: values that are exactly +-m x 10**e [units] for 14 mantissas
  m over the whole decade (1, 1.00001 ... 9.99999, and 9.999994, 9.999995,
  1.000005) and e in -1..2 (thorough -3..4), in H_ref, S_ref and two Cp
  points, for all 9 enthalpy x entropy unit pairs and T_ref 298.15 (thorough:
  and 500), built by loading a file in those units and directly, written in the same
  units.

Fifth wave (domains and the per-part comparison in mc/domains/w5_c18.py):
* partial unit choices: every combination of molar enthalpy in {left out,
  None, kcal/mol, kJ/mol, J/mol} x molar entropy in {left out, None,
  cal/(mol K), J/(mol K), kJ/(mol K)} x molar heat capacity in the same five x
  temperature in {left out, K, kK} = 375 choices (heat capacities in other
  units than the entropy; any part left without units, which yaml_format
  documents as "written as dimensionless values"), each applied to 8
  correlations: many-digit values in every slot built directly and by
  loading, zeros in every slot, H_ref / S_ref / the Cp table / the range
  missing in turn, and a lone Cp point;
* the statement is read PER PART in EVERY family, after the two older
  comparisons found nothing: a part (H_ref, S_ref, heat capacities) for which
  the unit choice names no units is in the non-dimensional form and must come
  back exactly.
"""
import itertools
import os
import tempfile

from ..runner import Result
from ..domains import estimates as E
from ..domains import libs
from ..domains import w3_c18 as W
from ..domains import w4_c18 as X
from ..domains import w5_c18 as Y

TWO_HASH_SEEDS = ('thorough',)   # tiers in which the space is walked under a second PYTHONHASHSEED
LEVEL = 'exploration'
UNITS = [{}] + [{'molar enthalpy': h, 'molar entropy': s,
                 'molar heat capacity': s, 'temperature': t}
                for h in ('kcal/mol', 'kJ/mol', 'J/mol')
                for s in ('cal/(mol K)', 'J/(mol K)', 'kJ/(mol K)')
                for t in ('K', 'kK')]
HS = [None, 0.0, -17.224273321869813, 1.5e-5, 2.5e4, 5e-05, -1e+16]
SS = [None, 0.0, 15.302888746272764]
TREFS = [298.15, 298.0, 300.0]
GROUP = 'C(C)(H)3'
BOUND = {t: 'table sizes %s (with and without a zero entry) x 7 H x 3 S x 2 '
            'ranges x 3 T_ref x {built directly, loaded from a file, dict in descending order, point merged in later} x 19 unit '
            'choices x {tagged load, embedded in a library file}; every group of '
            '9 shipped libraries x 19 unit choices; magnitude ladder +-{1.234567, '
            '9.87654321} x 10**e, e in %s, in H, S and two Cp points x {built '
            'directly, loaded} x 25 unit choices (19 + mK/MK x 3 matching '
            'pairs); all sequences of %d of the 7 public mutators x 3 starting '
            'correlations x 3 unit choices, written and read back before the '
            'first and after every step; all 625 ordered pairs of unit choices '
            'written from one object; 29 temperatures (24 six-digit ones around '
            '298.15/298/300/273.15/1000 K, 5 needing more digits) x {T_ref, table '
            'temperature, range lower end, range upper end} x {with, without Cp '
            'table} x {direct, loaded} x 5 unit choices (none, K, kK, mK, MK); '
            'ranges (lo, lo + w): 4 lo x 9 widths from 0 through fractions of a '
            'unit of the sixth digit to ordinary x 3 shapes x {direct, loaded} x '
            '5 unit choices; six-digit dimensional data +-14 mantissas x 10**e, e '
            'in %s, in H, S and two Cp points x 9 enthalpy/entropy unit pairs x %s '
            'T_ref x {loaded from a file in those units, direct}, written in the '
            'same units; 375 partial unit choices (5 enthalpy x 5 entropy x 5 '
            'heat-capacity choices incl. left out and None x 3 temperature '
            'choices incl. left out) x 8 correlations (many-digit values direct '
            'and loaded, zeros, each part missing in turn, a lone Cp point)'
            % ([0, 1, 2, 3] if t == 'quick' else [0, 1, 2, 3, 7, 15],
               '-9..9' if t == 'quick' else '-12..12', W.hist_len(t),
               '-1..2' if t == 'quick' else '-3..4', 1 if t == 'quick' else 2)
         for t in ('quick', 'thorough')}
RULE = ('each correlation is formatted with yaml_format(units), the text '
        'loaded back, and the two objects compared field by field as the '
        'statement says (six significant digits for temperatures; exact / six '
        'digits for values; presence preserved).  Non-trivial = the correlation '
        'has a zero or missing part, a value needing more than six digits or '
        'an exponent, or a dimensional unit choice.  Magnitude-ladder cases and '
        'every step of a history count as non-trivial; in a history the '
        'expectation of a step is a plain copy of the object\'s fields taken '
        'just before it is formatted (so a text remembered from an earlier '
        'state, or a formatter that edits the object, is seen), and a mutator '
        'that raises ends that history without a verdict.  Fourth wave: when '
        'the first comparison finds nothing, every case of every family is '
        'compared again with "six significant digits" read as: at most half a '
        'unit of the sixth significant digit of the number as it is written in '
        'the chosen units (mc/domains/w4_c18.py: strict_problems); the cases of '
        'the temperature, range and six-digit-data families all count as '
        'non-trivial; a correlation of those families that cannot be constructed '
        '(source-unbuildable) has no verdict.  Fifth wave: when both older '
        'comparisons find nothing, every case of every family is compared a '
        'third time part by part (mc/domains/w5_c18.py: slot_problems): '
        'H_ref, S_ref and the heat capacities must each come back exactly '
        'when the unit choice names no units (key left out, or None) for that '
        'part, whatever it names for the others; a part with units is held to '
        'six digits by the older comparisons, each with that part\'s own '
        'units.  Every case of the partial-unit family counts as non-trivial')
ASSUMPTIONS = ['"six significant digits" is judged with a relative tolerance '
               'of 1e-5 (two roundings can compound in the dimensional form) and, '
               'since the fourth wave, also as half a unit of the sixth digit of '
               'the written number (times 1 + 1e-9 for conversion noise); which '
               'digit is the sixth is computed with this harness\'s own constants '
               '(R = 8.314472 J/(mol K), 1 cal = 4.184 J)',
               'T_ref values are exactly representable in six digits, except five '
               'members of the temperature family; for those the reference '
               'enthalpy may additionally deviate by the relative amount T_ref '
               'itself was rounded by (it is written multiplied by T_ref and read '
               'divided by the rounded T_ref)',
               'two tabulated temperatures that are written as the same six-digit '
               'number are not part of any family (they cannot come back as two '
               'points)',
               'in a unit choice, a value part "without units" means the key is '
               'left out or maps to None, as yaml_format documents; the '
               'temperature key is left out or names a unit (None is not '
               'documented for it and is not enumerated)',
               'histories use only the documented mutator methods (no direct '
               'attribute assignment); a mutator raising (e.g. update() after '
               'del_ND_Cp() left the table as None) is outside this property']
MANIFEST = dict(
    technique='exhaustive enumeration of correlations x unit choices, '
              'round trip through the formatter and both loaders',
    text='Every correlation of the family (missing/zero/tiny/large reference '
         'values, 0-15 table points incl. a zero, with/without range), built '
         'directly and by loading, and every group of every shipped library, is '
         'written with each of 19 unit choices and read back through the tagged '
         'loader and through a library file; reference temperature, range, '
         'table and reference values must survive as the statement specifies.  '
         'The same is demanded of values of every decade 1e-9..1e9 (thorough '
         '1e-12..1e12) in every value slot under 25 unit choices incl. mK and '
         'MK, of one object written again after each of its mutators was '
         'applied (all sequences up to the bound), and of one object written '
         'in two unit choices in a row.  Temperatures that need all six digits '
         '(or more) in every temperature slot, ranges whose two ends are written '
         'as the same or as neighbouring six-digit numbers, and dimensional data '
         'that are exactly six-digit numbers in the units they are written in '
         'must come back to within half a unit of the sixth digit; that sharper '
         'reading is applied to every case of every family.  Every one of '
         'the 375 unit choices that name units for some parts and none (key '
         'left out, or None) for others - heat capacities in other units than '
         'the entropy included - is applied to 8 correlations; a part without '
         'units must come back exactly, a part with units to six digits.',
    note='Values come from a small alphabet chosen to hit zero, absence, '
         'exponent notation and numpy scalar types.',
    ref='5/C18')
SCHEME = E.SCHEME
assert W.BASE_UNITS == UNITS


def tables(tier):
    sizes = [0, 1, 2, 3] + ([7, 15] if tier == 'thorough' else [])
    for n in sizes:
        Ts = [300.0 + 100.0 * i for i in range(n)]
        vals = [3.1 + 0.8 * i - 0.01 * i * i for i in range(n)]
        yield dict(zip(Ts, vals))
        if n >= 2:
            v2 = list(vals)
            v2[1] = 0.0
            yield dict(zip(Ts, v2))


def family(tier):
    for tab in tables(tier):
        for H in HS:
            for S in SS:
                for rng in (None, (200.0, 2000.0)):
                    for tref in TREFS:
                        if tab and rng is None and not (min(tab) <= tref <= max(tab)):
                            continue
                        yield dict(tab=tab, H=H, S=S, rng=rng, tref=tref)


def build_direct(c, how='direct'):
    from pgradd.ThermoChem import ThermochemGroup
    items = sorted(c['tab'].items())
    if how == 'direct':
        return ThermochemGroup(c['H'], c['S'], dict(items), c['tref'], c['rng'])
    if how == 'descending':       # table dict built in descending temperature order
        return ThermochemGroup(c['H'], c['S'], dict(reversed(items)), c['tref'], c['rng'])
    # 'merged': the second point arrives later through update()
    k = ThermochemGroup(c['H'], c['S'], dict(items[:1] + items[2:]), c['tref'], c['rng'])
    k.update(ThermochemGroup(None, None, dict(items[1:2]), c['tref'], c['rng']))
    return k


def lib_text(body, indent=6):
    pad = ' ' * indent
    return ("groups:\n  '%s':\n    thermochem:\n" % GROUP +
            '\n'.join(pad + l for l in body.split('\n')) + '\n')


def load_lib_text(text):
    import pgradd.ThermoChem   # noqa
    from pgradd.GroupAdd.Library import GroupLibrary
    with tempfile.TemporaryDirectory(prefix='pgv_c18_') as d:
        with open(os.path.join(d, 'scheme.yaml'), 'w') as f:
            f.write(SCHEME)
        with open(os.path.join(d, 'library.yaml'), 'w') as f:
            f.write(text)
        return GroupLibrary.Load(os.path.join(d, 'library.yaml'))[GROUP]['thermochem']


def build_loaded(c):
    """The same correlation obtained by loading a dimensional file, so that
    numpy scalars occur as they do in practice."""
    from decimal import Decimal
    R0 = 8.314472

    class P(float):      # positional repr: the units parser reads no exponents
        def __repr__(self):
            return format(Decimal(float.__repr__(self)), 'f')
    c = dict(c, H=None if c['H'] is None else P(c['H']),
             S=None if c['S'] is None else P(c['S']))
    lines = ['T_ref: %r K' % c['tref']]
    if c['H'] is not None:
        lines.append('H_ref: %r J/mol' % P(c['H'] * R0 * c['tref']))
    if c['S'] is not None:
        lines.append('S_ref: %r J/(mol K)' % P(c['S'] * R0))
    if c['tab']:
        lines.append('Cp_data:')
        for T in sorted(c['tab']):
            lines.append('    - [%r K, %r J/(mol K)]' % (T, c['tab'][T] * R0))
    if c['rng']:
        lines.append('range: [%r K, %r K]' % c['rng'])
    return load_lib_text(lib_text('\n'.join(lines)))


def sig6(a, b):
    if a == b:
        return True
    return abs(a - b) <= 1e-5 * max(abs(a), abs(b))


def compare(src, back, dimensional):
    probs = []
    if back is None:
        return ['nothing loaded']

    def val(a, b, what):
        if (a is None) != (b is None):
            probs.append('%s: presence not preserved (%r -> %r)' % (what, a, b))
        elif a is not None:
            try:
                fa, fb = float(a), float(b)
            except Exception:     # noqa
                probs.append('%s: not a number after the round trip (%r)' % (what, b))
                return
            if dimensional:
                if not sig6(fa, fb):
                    probs.append('%s: %r -> %r (more than six digits lost)' % (what, fa, fb))
            elif fa != fb:
                probs.append('%s: %r -> %r (must be exact in the non-dimensional form)'
                             % (what, fa, fb))
    if not sig6(float(src.T_ref), float(back.T_ref)):
        probs.append('T_ref: %r -> %r' % (src.T_ref, back.T_ref))
    ra, rb = src.get_range(), back.get_range()
    if (ra is None) != (rb is None) or (ra is not None and not (
            sig6(float(ra[0]), float(rb[0])) and sig6(float(ra[1]), float(rb[1])))):
        probs.append('range: %r -> %r' % (ra, rb))
    val(src.ND_H_ref, back.ND_H_ref, 'H_ref')
    val(src.ND_S_ref, back.ND_S_ref, 'S_ref')
    a = sorted((float(k), v) for k, v in src.ND_Cp_data.items())
    b = sorted((float(k), v) for k, v in back.ND_Cp_data.items())
    if len(a) != len(b):
        probs.append('Cp table: %d points -> %d points' % (len(a), len(b)))
    else:
        for (Ta, va), (Tb, vb) in zip(a, b):
            if not sig6(Ta, Tb):
                probs.append('Cp temperature: %r -> %r' % (Ta, Tb))
            val(va, vb, 'Cp(%g)' % Ta)
    return probs


def roundtrip(R, src, units, wit, label, nontrivial, head='roundtrip', snap=False,
              form=None):
    """Write src with `units`, read the text back both ways, compare.

    With snap=True (histories) the expectation is a plain copy of the fields
    taken BEFORE formatting, and formatting must leave the fields as they were.
    """
    from pgradd import yaml_io
    dimensional = bool(units)
    R.evals += 1
    if nontrivial or dimensional:
        R.nontrivial += 1
    before = W.Snap(src) if snap else None
    try:
        text = src.yaml_format(units)
    except Exception as e:      # noqa
        R.outcomes['format-raises:' + type(e).__name__] += 1
        R.violation('format-raises:%s' % type(e).__name__,
                    '%s: yaml_format(%r) raised %s: %s' % (label, units, type(e).__name__, e), wit)
        return
    if snap:
        after = W.Snap(src)
        if after.fields() != before.fields():
            R.outcomes['format-mutates'] += 1
            R.violation('format-mutates',
                        '%s: yaml_format(%r) changed the object it formats: %r -> %r'
                        % (label, units, before.fields(), after.fields()), wit)
            return
        src = before
    for how in ('tagged', 'library'):
        try:
            if how == 'tagged':
                back = yaml_io.load(yaml_io.parse(text), {}, tag='!ThermochemGroup')
            else:
                back = load_lib_text(lib_text(text))
            probs = compare(src, back, dimensional)
            if not probs:      # fourth wave: "six digits" = half a unit of the sixth
                probs = X.strict_problems(src, back, units)
            if not probs:      # fifth wave: a part without units must be exact
                probs = Y.slot_problems(src, back, units)
        except Exception as e:      # noqa
            probs = ['cannot be loaded back (%s: %s)' % (type(e).__name__, str(e)[:120])]
        R.outcomes['%s:%s' % (how, 'same' if not probs else 'differs')] += 1
        if probs:
            cls = probs[0].split(':')[0].split(' (')[0].split('(')[0]
            R.violation('%s:%s:%s' % (head, cls, form or ('dimensional' if dimensional else 'nd')),
                        '%s written with units %r and read back (%s): %s\n--- text ---\n%s'
                        % (label, units, how, probs[0], text), dict(wit, how=how))
            break
    else:
        if dimensional and nontrivial:
            R.sample(dict(correlation=label, units=units, text=text), limit=1)


def run_family(R, i, n, tier, only=None):
    for k, c in enumerate(family(tier)):
        if k % n != i and only is None:
            continue
        if only is not None and k != only[0]:
            continue
        nontrivial = (c['H'] in (None, 0.0, 1.5e-5, 2.5e4, 5e-05, -1e+16) or c['S'] in (None, 0.0) or
                      0.0 in c['tab'].values() or not c['tab'])
        label = 'H=%r S=%r Cp=%r range=%r T_ref=%r' % (
            c['H'], c['S'], sorted(c['tab'].items())[:3], c['rng'], c['tref'])
        for built in ('direct', 'loaded', 'descending', 'merged'):
            if only is not None and built != only[1]:
                continue
            if built in ('descending', 'merged') and (
                    len(c['tab']) < 2 or (built == 'merged' and (
                        len(c['tab']) < 3 or c['rng'] is None))):
                continue
            try:
                src = build_loaded(c) if built == 'loaded' else build_direct(c, built)
            except Exception as e:      # noqa
                R.evals += 1
                R.outcomes['source-unbuildable:' + type(e).__name__] += 1
                continue
            for ui, u in enumerate(UNITS):
                if only is not None and ui != only[2]:
                    continue
                roundtrip(R, src, u, dict(kind='fam', idx=k, built=built, unit=ui),
                          '%s (%s)' % (label, built), nontrivial)


def run_lib(R, name, i, n, only=None):
    lib = E.library(name)
    for k, g in enumerate(E.with_data(lib)):
        if k % n != i and only is None:
            continue
        if only is not None and str(g) != only[0]:
            continue
        src = lib[g]['thermochem']
        for ui, u in enumerate(UNITS):
            if only is not None and ui != only[1]:
                continue
            roundtrip(R, src, u, dict(kind='lib', lib=name, group=str(g), unit=ui),
                      '%s[%s]' % (name, g), False)


def build_case(c, built):
    if built == 'loaded':      # numpy scalars, every number written positionally
        return load_lib_text(lib_text(W.dimensional_text(c)))
    return build_direct(c, 'direct')


def mag_one(R, v, built, uis):
    c = W.ladder_case(v)
    label = 'magnitude ladder value %r in H, S, Cp(300), -Cp(500) (%s)' % (v, built)
    try:
        src = build_case(c, built)
    except Exception as e:      # noqa
        R.evals += 1
        R.outcomes['source-unbuildable:' + type(e).__name__] += 1
        return
    for ui in uis:
        roundtrip(R, src, W.EXT_UNITS[ui], dict(kind='mag', value=v, built=built, unit=ui),
                  label, True)


def run_mag(R, i, n, tier):
    for k, v in enumerate(W.ladder(tier)):
        if k % n != i:
            continue
        for built in ('direct', 'loaded'):
            mag_one(R, v, built, range(len(W.EXT_UNITS)))


def history_one(R, si, seq, ui):
    """One object, one history: written and read back before the first and
    after every operation.  The witness carries the whole history."""
    name, c, built = W.STARTS[si]
    units = W.BASE_UNITS[ui]
    src = build_case(c, built)
    done = []
    for j in range(len(seq) + 1):
        if j:
            op = seq[j - 1]
            try:
                W.apply_op(src, op)
            except Exception as e:      # noqa
                R.outcomes['op-raises:%s:%s' % (op, type(e).__name__)] += 1
                return
            done.append(op)
        roundtrip(R, src, units,
                  dict(kind='hist', start=si, ops=list(seq), unit=ui, step=j),
                  'start %s (%s), written after each of %s; now after %s'
                  % (name, built, list(seq), done or 'nothing'),
                  True, head='history', snap=True)


def run_hist(R, i, n, tier):
    for k, (si, seq, ui) in enumerate(W.histories(tier)):
        if k % n == i:
            history_one(R, si, seq, ui)


def pair_one(R, a, b):
    name, c, built = W.STARTS[0]
    src = build_case(c, built)
    try:
        src.yaml_format(W.EXT_UNITS[a])     # judged on its own in the other families
    except Exception as e:      # noqa
        R.outcomes['first-format-raises:' + type(e).__name__] += 1
    roundtrip(R, src, W.EXT_UNITS[b], dict(kind='pair', first=a, unit=b),
              'start %s written with units %r and then' % (name, W.EXT_UNITS[a]),
              True, head='history', snap=True)


def run_pair(R, i, n):
    for k, (a, b) in enumerate(W.unit_pairs()):
        if k % n == i:
            pair_one(R, a, b)


def x_units(ui):
    return W.EXT_UNITS[ui]


def x_one(R, kind, key, built, uis):
    """One correlation of a fourth-wave family (kind 'temp' | 'range' | 'six'),
    built one way, written in the unit choices uis (indices into EXT_UNITS)."""
    if kind == 'temp':
        T, slot, shape = key
        c = X.temp_case(float(T), slot, shape)
        label = 'temperature %r in %s of a %s correlation (%s)' % (T, slot, shape, built)
        text = None
    elif kind == 'range':
        lo, w, shape = key
        c = X.range_case(float(lo), float(w), shape)
        label = 'range %r (width %g units of the sixth digit), %s (%s)' % (
            c['rng'], w, shape, built)
        text = None
    else:
        d, bi, tref = key
        units = W.BASE_UNITS[bi]
        c = X.six_case(float(d), units, float(tref))
        label = ('six-digit datum %r in H_ref [%s], S_ref, Cp(200), -Cp(600) [%s], '
                 'T_ref %r (%s)' % (d, units['molar enthalpy'], units['molar entropy'],
                                    tref, built))
        text = X.six_text(float(d), units, float(tref))
    try:
        if built == 'loaded':
            src = load_lib_text(lib_text(text if text is not None
                                         else W.dimensional_text(c)))
        else:
            src = build_direct(c, 'direct')
    except Exception as e:      # noqa
        R.evals += 1
        R.outcomes['source-unbuildable:' + type(e).__name__] += 1
        return
    for ui in uis:
        roundtrip(R, src, x_units(ui),
                  dict(kind=kind, key=list(key), built=built, unit=ui),
                  label, True, head=kind)


def x_cases(kind, tier):
    if kind == 'temp':
        return [(k, X.TEMP_UNITS) for k in X.temp_cases()]
    if kind == 'range':
        return [(k, X.TEMP_UNITS) for k in X.range_cases()]
    return [((d, bi, tref), [bi]) for (d, bi, tref) in X.six_cases(tier)]


def run_x(R, kind, i, n, tier):
    for k, (key, uis) in enumerate(x_cases(kind, tier)):
        if k % n != i:
            continue
        for built in ('direct', 'loaded'):
            x_one(R, kind, key, built, uis)


def partial_one(R, ci, uis):
    """One correlation of the fifth-wave family, written in the partial unit
    choices uis (indices into Y.PARTIAL_UNITS)."""
    name, c, built = Y.CORRS[ci]
    try:
        src = build_case(c, built)
    except Exception as e:      # noqa
        R.evals += 1
        R.outcomes['source-unbuildable:' + type(e).__name__] += 1
        return
    for ui in uis:
        u = Y.PARTIAL_UNITS[ui]
        roundtrip(R, src, u, dict(kind='partial', corr=ci, unit=ui),
                  'correlation %r (%s) H=%r S=%r Cp=%r range=%r T_ref=%r'
                  % (name, built, c['H'], c['S'], sorted(c['tab'].items()),
                     c['rng'], c['tref']),
                  True, head='partial', form=Y.form(u))


def run_partial(R, i, n):
    uis = [ui for ui in range(len(Y.PARTIAL_UNITS)) if ui % n == i]
    for ci in range(len(Y.CORRS)):
        partial_one(R, ci, uis)


def shards(tier, seed):
    out = []
    n = 16 if tier == 'quick' else 48
    for i in range(n):
        out.append(('fam', i, n))
    for name in libs.LIBS:
        for i in range(4):
            out.append(('lib', name, i, 4))
    n = 8 if tier == 'quick' else 12
    for i in range(n):
        out.append(('mag', i, n))
    n = 4 if tier == 'quick' else 24
    for i in range(n):
        out.append(('hist', i, n))
    for i in range(2):
        out.append(('pair', i, 2))
    for kind, n in (('temp', 4), ('range', 2), ('six', 4 if tier == 'quick' else 16)):
        for i in range(n):
            out.append((kind, i, n))
    for i in range(5):
        out.append(('partial', i, 5))
    return out


def run_shard(shard, tier):
    R = Result()
    if shard[0] == 'fam':
        run_family(R, shard[1], shard[2], tier)
    elif shard[0] == 'mag':
        run_mag(R, shard[1], shard[2], tier)
    elif shard[0] == 'hist':
        run_hist(R, shard[1], shard[2], tier)
    elif shard[0] == 'pair':
        run_pair(R, shard[1], shard[2])
    elif shard[0] in ('temp', 'range', 'six'):
        run_x(R, shard[0], shard[1], shard[2], tier)
    elif shard[0] == 'partial':
        run_partial(R, shard[1], shard[2])
    else:
        run_lib(R, shard[1], shard[2], shard[3])
    return R


def replay(w):
    R = Result()
    if w['kind'] == 'fam':
        run_family(R, 0, 1, 'thorough', only=(w['idx'], w['built'], w['unit']))
        if not R.evals:
            run_family(R, 0, 1, 'quick', only=(w['idx'], w['built'], w['unit']))
    elif w['kind'] == 'mag':
        mag_one(R, float(w['value']), w['built'], [w['unit']])
    elif w['kind'] == 'hist':
        history_one(R, w['start'], tuple(w['ops']), w['unit'])
    elif w['kind'] == 'pair':
        pair_one(R, w['first'], w['unit'])
    elif w['kind'] in ('temp', 'range', 'six'):
        x_one(R, w['kind'], tuple(w['key']), w['built'], [w['unit']])
    elif w['kind'] == 'partial':
        partial_one(R, w['corr'], [w['unit']])
    else:
        run_lib(R, w['lib'], 0, 1, only=(w['group'], w['unit']))
    return dict(violates=bool(R.violations),
                detail='\n'.join(v['msg'] for v in R.violations[:3]) or 'holds')
