"""C20 - standard errors are the scaled quadratic form of the descriptors.

The three shipped libraries with uncertainty data and two synthetic ones (2-
and 3-descriptor bases with off-diagonal terms): every unit vector, every pair
of basis descriptors x count pairs, every mapping of size <= 3 over a
10-descriptor sub-basis in ALL key orders, each scaled by {-2, 0.5, 3}, each
with one out-of-basis descriptor at every position; temperature grid; the
three _SE getters.

Third wave (domains/w3_c20.py): (a) 66 further synthetic library files - the
3-descriptor basis in ALL 6 orders (5 of them not string-sorted) x 9 stored
matrices (symmetric; each single entry above / below the diagonal different
from its mirror image; asymmetric everywhere with float and with whole-number
entries) with the uncertainty block in the library file, and the 6 orders x
{symmetric, asymmetric} with the block in an included uq.yaml - each walked
with the complete family above; (b) the caller's mapping edited after
Estimate(): for every 1-3 subset of a 5-descriptor sub-basis of the 3 shipped
+ 3 original synthetic libraries, every single-step edit (clear, scale all,
set / delete each key, add an in-basis / an out-of-basis key, re-use for the
next mapping and estimate again) x {before, after} the first standard-error
call; the estimate made first must keep the standard errors of the counts it
was given.

Fourth wave (domains/w4_c20.py): (c) the common factor as a LADDER: every 1-3
subset mapping of the 5-descriptor sub-basis (3 shipped + 3 synthetic
libraries) and one 3-descriptor mapping on each of the 66 further library files
x 36 common factors (17 magnitudes 1e-12 .. 1e12, both signs, 0.0 and -0.0),
judged with a purely relative tolerance against |RMSE| sqrt(x'Mx) and against
|k| SE(x) - a standard error that is small because the counts are small is
still a standard error; (d) libraries built BY HAND instead of by Load: all
histories of <= 2 builds over 21 (route, source) letters - routes
GroupLibrary(scheme) + Update, GroupLibrary(scheme, {}, {}) + Update,
constructor arguments only, fresh Load; sources 2 shipped + 2 synthetic with
uncertainty data, 1 shipped + 1 synthetic without - and all histories of 3
Update-builds over the 3 synthetic sources, each history in ONE process
(an interpreter of its own); after every build every library made so far must
have the standard errors of ITS source's data (or none when the source has
none), afterwards the sources too, and GroupLibrary(scheme) given nothing must
carry no uncertainty data.

Fifth wave (domains/w5_c20.py): (e) the COUNT of the out-of-basis descriptor
over a value alphabet of 15 spellings - 1, -2, 0.217, 1e-12, 1e12, numpy 3,
True and eight presentations of zero (0, 0.0, -0.0, False, numpy int64 /
float64 / float32 zeros, numpy -0.0) - at every (mapping, out-of-basis
descriptor, position) of the out-of-basis family: an error whatever the count;
the same eight zeros as an explicit entry for an IN-basis descriptor (first /
last position) of every 1-3 subset mapping of the 5-descriptor sub-basis: the
standard errors must not notice it; (f) RANGES: library files whose three
groups are letters of {H+S+Cp table, H+S only} x group ranges (8 letters; all
3 alike and every mixture over a 3-letter sub-alphabet, thorough every mixture
with a non-empty common range) x 4 ranges of the RMSE correlation, 5 mappings
x 15 temperatures from 100 K to 1500 K x 3 getters - wherever the library's
RMSE correlation gives a value the standard error is |value| sqrt(x'Mx), inside
or outside the estimate's own validity range; and all histories of <= 2
(thorough 3) set_range() calls on the ESTIMATE over 7 arguments x {before,
after} the first standard-error call, observed after every step; (g) the
library's RMSE correlation UPDATED IN PLACE between standard-error calls: on a
library object of its own per history, two estimates made first, then every
history of <= 3 steps over {observe at 298.15 K, observe at 500 K, update()
with one of 5 pieces (8 at thorough; <= 2 steps over all 8 for the two other
synthetic libraries; one 24-step walk through all 8 pieces for each shipped
library)}, at the end both estimates and two new ones over the temperature
grid against the correlation as it is now, and at T_ref against the H / S
number the last accepted piece brought.
"""
import itertools
import json
import math
import os
import subprocess
import sys
import tempfile

import yaml

from .. import VERIF
from ..runner import Result
from ..models import thermoref as tr
from ..domains import estimates as E
from ..domains import libs
from ..domains import w3_c20 as W
from ..domains import w4_c20 as W4
from ..domains import w5_c20 as W5

LEVEL = 'exploration'
BOUND = {t: '3 shipped + 3 synthetic libraries (one with an integer-valued matrix); all unit vectors x 3 counts; all '
            'basis pairs x 3 count pairs; all 1-3 subsets of a 10-descriptor '
            'sub-basis in every key order; scalings {-2, 0.5, 3}; one '
            'out-of-basis descriptor (with / without data) at every position; 3 '
            'temperatures x 3 getters; the same family on 66 more synthetic '
            'library files = 6 orders of a 3-descriptor basis x 9 stored '
            'matrices (8 of them not symmetric: every single off-diagonal '
            'position, and all positions at once with float / whole-number '
            'entries) in the library file + 6 orders x 2 matrices in an included '
            'uq.yaml; caller-owned mapping: all 1-3 subsets of a 5-descriptor '
            'sub-basis (6 libraries) x every single-step edit of the mapping '
            '(clear, scale, set/delete each key, add in-basis / out-of-basis '
            'key, re-use for the next mapping) x {before, after} the first '
            'standard-error call; common-factor ladder: 36 factors (17 '
            'magnitudes 1e-12..1e12 x both signs, 0.0, -0.0) x all 1-3 subsets '
            'of the 5-descriptor sub-basis (6 libraries) and x %s on each of '
            'the 66 further library files; hand-built libraries: all histories '
            'of <= 2 builds over 21 (route, source) letters (4 routes x 6 '
            'sources, fresh Load only for the 3 synthetic ones) + all '
            'histories of 3 builds over %s, every library made so far observed '
            'after every build (2 mappings x 3 getters at 500 K), sources and a '
            'library constructed from nothing observed at the end; fifth wave: '
            'count of the out-of-basis descriptor over 15 spellings (8 of them '
            'zeros) at every (mapping, descriptor, position) of the '
            'out-of-basis family; 8 zero spellings as an explicit in-basis '
            'entry (first / last position) x all 1-3 subsets of the '
            '5-descriptor sub-basis (6 libraries); %s range library files '
            '(group shape x group range letters x 4 RMSE ranges) x 5 mappings x '
            '15 temperatures x 3 getters; set_range() on the estimate: all '
            'histories of <= %s calls over 7 arguments x {before, after} the '
            'first standard-error call (one call: all 1-3 subset mappings; '
            'more: %s) x 6 libraries; RMSE correlation updated in place: syn3 '
            'all histories of <= 3 steps over %s, syn2 / synint <= 2 steps '
            'over 10 ops, each shipped library one 24-step walk%s, a library '
            'object of its own per history' % ((
                ('one 3-descriptor mapping', '{default, explicit} x 3 synthetic '
                 'sources (216)') if t == 'quick' else
                ('a unit, a pair and a 3-descriptor mapping', '{default, '
                 'explicit} x 3 synthetic sources and over {default, explicit, '
                 'ctor} x 6 sources (5832)')) + (
                ('128', '2', 'one mapping', '7 ops (399)', '') if t == 'quick' else
                ('1448', '3', 'a unit, a pair, a triple', '10 ops (1110)',
                 ' + 16 two-step histories')))
            for t in ('quick', 'thorough')}
RULE = ('each mapping is estimated and the three standard-error getters are '
        'compared with |RMSE_X(T)| * sqrt(x\'Mx), x\'Mx summed in pure Python '
        'from the matrix rows read from the data file by the harness; '
        'non-trivial = more than one non-zero count, a non-unit count, a '
        'permuted key order or an out-of-basis variant; every caller-mapping '
        'case (Estimate(d), edit d, standard errors of the estimate against '
        'the counts originally given) is non-trivial; every common-factor '
        'case (mapping x factor, the three getters x 3 temperatures against the '
        'quadratic form of the scaled counts and against |k| x the unscaled '
        'standard error, relative tolerance) and every observation of a '
        'hand-built library (one mapping on one library at one point of a '
        'history) is non-trivial; fifth wave: every out-of-basis count, every '
        'zero entry, every (range library file, mapping), every set_range '
        'history and every step and final observation of an RMSE-update '
        'history is non-trivial')
ASSUMPTIONS = ['the basis order and matrix are read from uq.yaml / the library '
               'file with PyYAML by the harness itself',
               'for the synthetic library files the harness writes the '
               'file and judges with the basis order and matrix it wrote '
               '(a non-symmetric stored matrix is used as stored: x\'Mx = sum '
               'x_i M_ij x_j)',
               'relative tolerance 1e-9 (with an absolute floor of 1e-9 in '
               'the families of the first three waves; none in the '
               'common-factor ladder, where the factor 0 must give exactly 0)',
               'a hand-built library is judged with the basis order, matrix '
               'and RMSE correlation of the source it was made from (RMSE '
               'evaluated on the source as loaded, as everywhere else); that '
               'GuSolventGA2017Aq / the synthetic plain file carry no '
               'uncertainty data is read from the files by the harness',
               'the hand-built histories of one shard share one child '
               'interpreter; once a library constructed from nothing stops '
               'being empty, later witnesses carry the history that did it',
               'range family: the value of the library\'s RMSE correlation at T '
               'is asked from the loaded library (as everywhere else); where it '
               'raises, the standard error is tallied, not judged',
               'RMSE-update family: judged against the library\'s RMSE '
               'correlation as it is at the time of the call, and at T_ref '
               'against the harness\'s own number for the H / S value of the '
               'last accepted piece; only in-place updates of the object the '
               'library holds are enumerated (not its replacement by another '
               'object); each history has a library object of its own, so '
               'the witness is the history']
MANIFEST = dict(
    technique='exhaustive enumeration of count vectors over the uncertainty '
              'basis (all key orders, scalings, out-of-basis insertions) vs a '
              'pure-Python quadratic form',
    text='For every library with uncertainty data: every unit vector, every '
         'basis pair, every small mapping in every key order, scaled copies, '
         'and every insertion of an out-of-basis descriptor; each _SE getter '
         'must equal |RMSE(T)| sqrt(x\'Mx), be a non-negative plain float, '
         'scale with the absolute value of a common factor, not depend on the '
         'mapping order, and an out-of-basis descriptor must raise. The '
         'library files include every order of a 3-descriptor basis and '
         'stored matrices that are not symmetric; the caller\'s mapping is '
         'edited in every single-step way after Estimate() and the standard '
         'errors must stay those of the counts originally given. A ladder '
         'of 36 common factors from 1e-12 to 1e12 (and zero) is applied with a '
         'purely relative oracle. Libraries assembled by hand - '
         'GroupLibrary(scheme) + Update(), explicit empty arguments + '
         'Update(), constructor arguments only, a fresh Load - are built one '
         'after the other in one process in every order of <= 2 builds (3 for '
         'the synthetic sources); each must have the standard errors of its '
         'own source, a library made from a source without uncertainty data '
         'must give none, and a library constructed from nothing must carry '
         'none. The out-of-basis descriptor is given 15 counts, eight of '
         'them spellings of zero, and must raise every time; explicit zero '
         'entries of in-basis descriptors must change nothing. Library files '
         'with group ranges narrower / wider than the RMSE correlation\'s, and '
         'set_range() histories on the estimate: the standard error exists '
         'wherever the RMSE correlation does. The library\'s RMSE correlation '
         'is updated in place between calls on an existing estimate: every '
         'later call must follow it.',
    note='Mappings with more than three non-zero counts are not enumerated; '
         'common factors outside 1e-12 .. 1e12 are not enumerated '
         '(far from where k^2 x\'Mx would leave the double range).',
    ref='5/C20')

SCHEME = E.SCHEME
SYN = {
    'syn2': dict(basis=['C(C)(H)3', 'C(C)2(H)2'],
                 mat=[[2.0, -0.5], [-0.5, 1.25]]),
    'syn3': dict(basis=['C(C)(H)3', 'C(C)2(H)2', 'C(C)3(H)'],
                 mat=[[1.5, 0.25, -0.75], [0.25, 0.5, 0.125], [-0.75, 0.125, 2.0]]),
    # all entries whole numbers: loads with an integer dtype
    'synint': dict(basis=['C(C)(H)3', 'C(C)2(H)2', 'C(C)3(H)'],
                   mat=[[4, 1, 0], [1, 3, -1], [0, -1, 2]]),
}
SYN_GROUPS = """
groups:
  'C(C)(H)3': {thermochem: {T_ref: 298.15 K, ND_H_ref: -17.5, ND_S_ref: 15.25, ND_Cp_data: [[300 K, 3.0], [800 K, 5.0]], range: [250 K, 1000 K]}}
  'C(C)2(H)2': {thermochem: {T_ref: 298.15 K, ND_H_ref: -8.25, ND_S_ref: 4.75, ND_Cp_data: [[300 K, 2.75], [800 K, 4.0]], range: [250 K, 1000 K]}}
  'C(C)3(H)': {thermochem: {T_ref: 298.15 K, ND_H_ref: -3.5, ND_S_ref: -6.25, ND_Cp_data: [[300 K, 2.25], [800 K, 3.0]], range: [250 K, 1000 K]}}
  'C(C)4': {thermochem: {T_ref: 298.15 K, ND_H_ref: 1.5, ND_S_ref: -17.75, ND_Cp_data: [[300 K, 2.0], [800 K, 2.5]], range: [250 K, 1000 K]}}
"""
_L = {}


def _write_and_load(basis, mat, place='inline'):
    import pgradd.ThermoChem    # noqa
    from pgradd.GroupAdd.Library import GroupLibrary
    d = tempfile.mkdtemp(prefix='pgv_c20_')
    with open(os.path.join(d, 'scheme.yaml'), 'w') as f:
        f.write(SCHEME)
    uq = basis and dict(UQ=dict(
        RMSE=dict(thermochem=dict(T_ref='298.15 K', ND_H_ref=-1.5, ND_S_ref=0.75,
                                  ND_Cp_data=[['300 K', 0.5], ['800 K', 0.25]],
                                  range=['250 K', '1000 K'])),
        DOF=7, InvCovMat=dict(groups=list(basis), mat=[list(r) for r in mat])))
    with open(os.path.join(d, 'library.yaml'), 'w') as f:
        if not basis:
            # fourth wave: a library file without any uncertainty block
            f.write(SYN_GROUPS)
        elif place == 'inline':
            f.write(SYN_GROUPS + yaml.safe_dump(uq))
        else:
            # as the shipped libraries do: the block sits in an included file
            f.write('include:\n    - uq.yaml\n' + SYN_GROUPS)
            with open(os.path.join(d, 'uq.yaml'), 'w') as g:
                g.write(yaml.safe_dump(uq))
    try:
        return GroupLibrary.Load(os.path.join(d, 'library.yaml'))
    finally:
        import shutil
        shutil.rmtree(d, ignore_errors=True)


def _write_and_load_text(text):
    """Fifth wave: a library file given as text (written by W5)."""
    import pgradd.ThermoChem    # noqa
    from pgradd.GroupAdd.Library import GroupLibrary
    d = tempfile.mkdtemp(prefix='pgv_c20_')
    with open(os.path.join(d, 'scheme.yaml'), 'w') as f:
        f.write(SCHEME)
    with open(os.path.join(d, 'library.yaml'), 'w') as f:
        f.write(text)
    try:
        return GroupLibrary.Load(os.path.join(d, 'library.yaml'))
    finally:
        import shutil
        shutil.rmtree(d, ignore_errors=True)


def fresh_lib(name):
    """A library object of its own (never the cached one): for the families
    that change the library's uncertainty data in place."""
    if name in SYN:
        return _write_and_load(SYN[name]['basis'], SYN[name]['mat'])
    assert name in libs.UQ_LIBS, name
    return libs.load(name)


def load(name):
    """-> (library, basis names, matrix rows) - basis/matrix read by me."""
    if name in _L:
        return _L[name]
    if name in SYN:
        lib = _write_and_load(SYN[name]['basis'], SYN[name]['mat'])
        basis, mat = SYN[name]['basis'], SYN[name]['mat']
    elif name.startswith('synx:'):
        basis, mat, place = W.spec(name)
        lib = _write_and_load(basis, mat, place)
    elif name.startswith('synr:'):
        text, basis, mat = W5.range_lib_text(name)
        lib = _write_and_load_text(text)
    elif name == 'synplain':
        basis, mat = [], []
        lib = _write_and_load(None, None)
    elif name in W4.PLAIN_SOURCES:
        basis, mat = [], []
        lib = libs.load(name)
        # "without uncertainty data" is read from the files by the harness:
        # neither the library file nor anything it includes has a UQ block
        # (GuSolventGA2017Aq ships a uq.yaml that its library.yaml never
        # includes)
        d = os.path.join(libs.data_dir(), name)
        top = yaml.safe_load(open(os.path.join(d, 'library.yaml')))
        assert 'UQ' not in top, name
        for inc in top.get('include') or []:
            sub = yaml.safe_load(open(os.path.join(d, inc)))
            assert 'UQ' not in sub and not sub.get('include'), (name, inc)
    else:
        lib = libs.load(name)
        u = yaml.safe_load(open(os.path.join(libs.data_dir(), name, 'uq.yaml')))['UQ']
        basis = [str(x) for x in u['InvCovMat']['groups']]
        mat = [[float(v) for v in row] for row in u['InvCovMat']['mat']]
    _L[name] = (lib, basis, mat)
    return _L[name]


GETTERS = [('get_CpoR_SE', 'get_CpoR'), ('get_HoRT_SE', 'get_HoRT'),
           ('get_SoR_SE', 'get_SoR')]


def expected(lib, basis, mat, items, T, rm_getter):
    # (`lib` is the library object whose RMSE correlation counts: the cached
    # one, or - fifth wave - the private one of a history)
    x = [0.0] * len(basis)
    for g, c in items:
        x[basis.index(g)] = c
    q = tr.quad_form(x, mat)
    rm = getattr(lib.uq_contents['RMSE'].thermochem, rm_getter)(T)
    return abs(float(rm)) * math.sqrt(max(q, 0.0)), q


def check(R, name, items, tag):
    lib, basis, mat = load(name)
    wit = dict(kind='se', lib=name, items=[list(i) for i in items])
    r = E.ev(lib.Estimate, dict(items), 'thermochem')
    R.evals += 1
    nz = [c for _, c in items if c != 0]
    if len(nz) > 1 or any(c != 1 for c in nz) or tag != 'unit':
        R.nontrivial += 1
    if r[0] != 'ok':
        R.outcomes['estimate-raises:' + r[1]] += 1
        R.violation('estimate-raises:' + r[1], '[%s] %r: Estimate raised %s' % (
            name, items, r[1]), wit)
        return None
    return observe(R, name, r[1], items, tag, wit)


TEMPS = (298.15, 500.0, 1000.0)


def observe(R, name, e, items, tag, wit, prefix='se-wrong', temps=TEMPS,
            lib=None):
    """The three getters x temperature grid of estimate `e` against the
    quadratic form of `items`."""
    lib0, basis, mat = load(name)
    lib = lib0 if lib is None else lib
    vals = []
    for T in temps:
        for se, rmg in GETTERS:
            want, q = expected(lib, basis, mat, items, T, rmg)
            got = E.ev(getattr(e, se), T)
            R.evals += 1
            if got[0] != 'ok':
                R.outcomes['se-raises:' + got[1]] += 1
                R.violation('se-raises:%s' % got[1], '[%s] %r: %s(%g) raised %s' % (
                    name, items, se, T, got[1]), wit)
                vals.append(None)
                continue
            v = got[1]
            vals.append(v)
            if type(v) is not float or not (v >= 0) or \
                    abs(v - want) > 1e-9 * max(1.0, want):
                R.outcomes[prefix] += 1
                R.violation('%s:%s:%s' % (prefix, se, tag),
                            '[%s] %r: %s(%g) = %r (%s), |RMSE| sqrt(x\'Mx) = %r '
                            '(x\'Mx = %r)' % (name, items, se, T, v, type(v).__name__,
                                              want, q), wit)
            else:
                R.outcomes['se-ok'] += 1
    return vals


def check_family(R, name, items, tag):
    base = check(R, name, items, tag)
    if base is None or any(v is None for v in base):
        return
    # order independence: every key order
    if 1 < len(items) <= 3:
        for perm in itertools.permutations(items):
            if list(perm) == list(items):
                continue
            v = check(R, name, list(perm), 'order')
            if v is not None and v != base and all(x is not None for x in v):
                if any(abs(a - b) > 1e-9 * max(1, abs(b)) for a, b in zip(v, base)):
                    R.violation('order-dependent', '[%s] %r vs %r: %r vs %r' % (
                        name, list(perm), items, v[:3], base[:3]),
                        dict(kind='se', lib=name, items=[list(i) for i in perm]))
    # scaling law
    for k in (-2, 0.5, 3):
        v = check(R, name, [(g, c * k) for g, c in items], 'scaled')
        if v is None or any(x is None for x in v):
            continue
        if any(abs(a - abs(k) * b) > 1e-9 * max(1, abs(a)) for a, b in zip(v, base)):
            R.violation('scaling-law', '[%s] %r scaled by %r: %r, expected |k| x %r'
                        % (name, items, k, v[:3], base[:3]),
                        dict(kind='se', lib=name, items=[[g, c * k] for g, c in items]))
    R.sample(dict(library=name, mapping=[list(i) for i in items], SE=base[:3]), limit=1)


def check_outside(R, name, items):
    """One out-of-basis descriptor, with and without thermochem data, at every
    position: error when the estimate is built or evaluated."""
    lib, basis, mat = load(name)
    with_data = [str(g) for g in E.with_data(lib) if str(g) not in basis]
    outs = ['Q(Z)9'] + with_data[:1]
    for o in outs:
        for pos in range(len(items) + 1):
            its = list(items[:pos]) + [(o, 1)] + list(items[pos:])
            R.evals += 1
            R.nontrivial += 1
            r = E.ev(lib.Estimate, dict(its), 'thermochem')
            ok = r[0] == 'exc'
            if not ok:
                g = [E.ev(getattr(r[1], se), 500.0) for se, _ in GETTERS]
                ok = all(x[0] == 'exc' for x in g)
            R.outcomes['out-of-basis:' + ('error' if ok else 'ignored')] += 1
            if not ok:
                R.violation('out-of-basis-ignored', '[%s] %r: descriptor %r is '
                            'outside the uncertainty basis but a standard error '
                            'was returned' % (name, its, o),
                            dict(kind='out', lib=name, items=[list(i) for i in its]))
            # fifth wave: the out-of-basis descriptor's COUNT over the value
            # alphabet (the loop above is its first letter, the count 1)
            for tok in W5.COUNT_TOKENS[1:]:
                check_outside_count(R, name, items, o, pos, tok)


def check_outside_count(R, name, items, o, pos, tok):
    """One out-of-basis descriptor `o` with the count spelled by `tok` at
    position `pos` of the mapping: an error, whatever the count - zero
    included."""
    lib, basis, mat = load(name)
    its = list(items[:pos]) + [(o, W5.decode(tok))] + list(items[pos:])
    R.evals += 1
    R.nontrivial += 1
    r = E.ev(lib.Estimate, dict(its), 'thermochem')
    ok = r[0] == 'exc'
    if not ok:
        g = [E.ev(getattr(r[1], se), 500.0) for se, _ in GETTERS]
        ok = all(x[0] == 'exc' for x in g)
    cls = W5.count_class(tok)
    R.outcomes['out-of-basis(count %s):%s' % (cls, 'error' if ok else 'ignored')] += 1
    if not ok:
        R.violation('out-of-basis-ignored:count-' + cls,
                    '[%s] %r + %r with count %s at position %d: the descriptor '
                    'is outside the uncertainty basis but a standard error was '
                    'returned' % (name, items, o, tok, pos),
                    dict(kind='outc', lib=name, items=[list(i) for i in items],
                         o=o, pos=pos, tok=tok))
    return ok


def families(name):
    lib, basis, mat = load(name)
    for g in basis:
        for c in (1, -1, 0.217):
            yield 'unit', [(g, c)]
    sub = basis[:10]
    cp = [(1, 1), (2, -1), (0.5, 3.0)]
    pairs = list(itertools.combinations(basis, 2))
    if len(pairs) > 400:
        # all pairs involving the sub-basis, plus every adjacent pair
        pairs = [p for p in pairs if p[0] in sub or p[1] in sub] + \
            list(zip(basis[10:-1], basis[11:]))
    for a, b in pairs:
        for ca, cb in cp:
            yield 'pair', [(a, ca), (b, cb)]
    for t in itertools.combinations(sub, 3):
        yield 'triple', [(t[0], 1), (t[1], 2), (t[2], -0.5)]


MUT_SUB = 5      # caller-mapping family: subsets of the first 5 basis names


def mut_bases(name):
    lib, basis, mat = load(name)
    sub = basis[:MUT_SUB]
    out = [[(g, 0.217)] for g in sub]
    out += [[(a, 2), (b, -1)] for a, b in itertools.combinations(sub, 2)]
    out += [[(a, 1), (b, 2), (c, -0.5)]
            for a, b, c in itertools.combinations(sub, 3)]
    return out


def mut_cases(name):
    """(items, edit, moment, mapping the dict is re-used for)"""
    lib, basis, mat = load(name)
    bases = mut_bases(name)
    for k, items in enumerate(bases):
        other = bases[(k + 1) % len(bases)]
        for op in W.edits(items, basis):
            for timing in W.TIMINGS:
                yield items, op, timing, other


def check_mut(R, name, items, op, timing, other):
    """Estimate(d); the caller edits d; the estimate keeps the standard errors
    of the counts it was given (absolute oracle, as everywhere else)."""
    lib, basis, mat = load(name)
    wit = dict(kind='mut', lib=name, items=[list(i) for i in items],
               op=list(op), timing=timing, other=[list(i) for i in other])
    tag = '%s/%s' % (op[0], timing)
    R.nontrivial += 1
    d = dict(items)
    r = E.ev(lib.Estimate, d, 'thermochem')
    R.evals += 1
    if r[0] != 'ok':
        R.outcomes['estimate-raises:' + r[1]] += 1
        R.violation('estimate-raises:' + r[1], '[%s] %r: Estimate raised %s' % (
            name, items, r[1]), wit)
        return
    e = r[1]
    if timing == 'after-first-SE':
        observe(R, name, e, items, 'before-edit', wit)
    W.apply_edit(d, items, op, other)
    e2 = None
    if op[0] == 'replace':
        e2 = E.ev(lib.Estimate, d, 'thermochem')
        R.evals += 1
    v = observe(R, name, e, items, tag, wit, prefix='se-follows-callers-mapping')
    if all(x is not None for x in v):
        R.outcomes['independent-of-callers-mapping'] += 1
    if e2 is not None:
        if e2[0] != 'ok':
            R.outcomes['estimate-raises:' + e2[1]] += 1
            R.violation('estimate-raises:' + e2[1], '[%s] %r (re-used mapping): '
                        'Estimate raised %s' % (name, other, e2[1]), wit)
        else:
            observe(R, name, e2[1], other, 'reused-mapping', wit)
            # and the first one once more, now that a second estimate exists
            observe(R, name, e, items, tag + '/second-estimate', wit,
                    prefix='se-follows-callers-mapping')


# ------------------------------------------- fourth wave: the common factor

def factor_class(k):
    return 'zero' if k == 0 else 'tiny' if abs(k) < 1 else 'huge'


def ladder_bases(name, tier):
    if name.startswith('synx:'):
        lib, basis, mat = load(name)
        out = [[(basis[0], 1), (basis[1], 2), (basis[2], -0.5)]]
        if tier == 'thorough':
            out += [[(basis[2], 0.217)], [(basis[1], 2), (basis[0], -1)]]
        return out
    return mut_bases(name)


def check_factor(R, name, items, k, base=None):
    """SE(k x) against |RMSE| sqrt((kx)'M(kx)) and against |k| SE(x), both
    with a purely RELATIVE tolerance (1e-9 of the expected value; exactly 0 for
    the factor 0): a standard error that is small because the counts are small
    is still a standard error."""
    lib, basis, mat = load(name)
    wit = dict(kind='factor', lib=name, items=[list(i) for i in items], k=k)
    cls = factor_class(k)
    R.nontrivial += 1
    if base is None:
        r0 = E.ev(lib.Estimate, dict(items), 'thermochem')
        R.evals += 1
        if r0[0] != 'ok':
            R.violation('estimate-raises:' + r0[1], '[%s] %r: Estimate raised %s'
                        % (name, items, r0[1]), wit)
            return
        base = observe(R, name, r0[1], items, 'factor-base', wit)
    scaled = [(g, c * k) for g, c in items]
    r = E.ev(lib.Estimate, dict(scaled), 'thermochem')
    R.evals += 1
    if r[0] != 'ok':
        R.outcomes['estimate-raises:' + r[1]] += 1
        R.violation('estimate-raises:' + r[1], '[%s] %r: Estimate raised %s' % (
            name, scaled, r[1]), wit)
        return
    n = 0
    for T in TEMPS:
        for se, rmg in GETTERS:
            b = base[n]
            n += 1
            want, q = expected(lib, basis, mat, scaled, T, rmg)
            got = E.ev(getattr(r[1], se), T)
            R.evals += 1
            if got[0] != 'ok':
                R.outcomes['se-raises:' + got[1]] += 1
                R.violation('se-raises:%s' % got[1], '[%s] %r: %s(%g) raised %s' % (
                    name, scaled, se, T, got[1]), wit)
                continue
            v = got[1]
            bad = []
            if type(v) is not float or not (v >= 0) or \
                    not abs(v - want) <= 1e-9 * want:
                bad.append(('se-wrong', '|RMSE| sqrt(x\'Mx) = %r (x\'Mx = %r)'
                            % (want, q)))
            if b is not None and type(v) is float and \
                    not abs(v - abs(k) * b) <= 1e-9 * abs(k) * b:
                bad.append(('scaling-law', '|k| x SE(x) = %r (SE(x) = %r)'
                            % (abs(k) * b, b)))
            for key, what in bad:
                R.outcomes['factor-' + key] += 1
                R.violation('%s:%s:factor-%s' % (key, se, cls),
                            '[%s] %r x common factor %r: %s(%g) = %r (%s), %s' % (
                                name, items, k, se, T, v, type(v).__name__, what),
                            wit)
            if not bad:
                R.outcomes['factor-%s-ok' % cls] += 1


def run_factor(R, names, tier):
    for name in names:
        lib, basis, mat = load(name)
        for items in ladder_bases(name, tier):
            r0 = E.ev(lib.Estimate, dict(items), 'thermochem')
            R.evals += 1
            wit = dict(kind='factor', lib=name, items=[list(i) for i in items],
                       k=1.0)
            if r0[0] != 'ok':
                R.violation('estimate-raises:' + r0[1], '[%s] %r: Estimate '
                            'raised %s' % (name, items, r0[1]), wit)
                continue
            base = observe(R, name, r0[1], items, 'factor-base', wit)
            for k in W4.factors():
                check_factor(R, name, items, k, base)
        R.sample(dict(library=name, mapping=[list(i) for i in items],
                      common_factors=W4.factors()[:6] + ['...']), limit=1)


# ------------------------------------- fourth wave: libraries built by hand

def build(route, source):
    """One library made from `source` (a name load() knows) by `route`."""
    import pgradd.ThermoChem    # noqa
    from pgradd.GroupAdd.Library import GroupLibrary
    src, basis, mat = load(source)
    if route == 'default':
        lib = GroupLibrary(src.scheme)
        lib.Update(src)
    elif route == 'explicit':
        lib = GroupLibrary(src.scheme, {}, {})
        lib.Update(src)
    elif route == 'ctor':
        if basis:
            lib = GroupLibrary(src.scheme, list(src.items()),
                               dict(src.uq_contents))
        else:
            lib = GroupLibrary(src.scheme, list(src.items()))
    elif route == 'load':
        if source == 'synplain':
            lib = _write_and_load(None, None)
        else:
            lib = _write_and_load(SYN[source]['basis'], SYN[source]['mat'])
    else:
        raise ValueError(route)
    return lib


def hb_mappings(source):
    src, basis, mat = load(source)
    names = basis or [str(g) for g in E.with_data(src)]
    return [[(names[0], 0.217)],
            [(names[0], 1), (names[1], 2), (names[2], -0.5)]]


HB_T = (500.0,)


def observe_built(R, lib, source, where, wit):
    """A library made from `source` has the standard errors of the source's
    uncertainty data (basis / matrix as read by the harness) - or none at all
    when the source has none."""
    src, basis, mat = load(source)
    for items in hb_mappings(source):
        R.nontrivial += 1
        r = E.ev(lib.Estimate, dict(items), 'thermochem')
        R.evals += 1
        if r[0] != 'ok':
            R.outcomes['handbuilt-estimate-raises:' + r[1]] += 1
            R.violation('handbuilt-estimate-raises:%s:%s' % (
                'uq' if basis else 'no-uq', r[1]),
                '%s: [library made from %s] %r: Estimate raised %s' % (
                    where, source, items, r[1]), wit)
            continue
        if basis:
            observe(R, source, r[1], items, 'handbuilt', wit,
                    prefix='handbuilt-se-wrong', temps=HB_T)
            continue
        for se, _ in GETTERS:
            got = E.ev(getattr(r[1], se), HB_T[0])
            R.evals += 1
            if got[0] == 'ok':
                R.outcomes['se-without-uncertainty-data'] += 1
                R.violation('se-without-uncertainty-data:' + se,
                            '%s: [library made from %s, which has no uncertainty '
                            'data] %r: %s(%g) = %r' % (where, source, items, se,
                                                       HB_T[0], got[1]), wit)
            else:
                R.outcomes['no-uncertainty-data:se-raises:' + got[1]] += 1


def run_history(R, history, earlier=None):
    """Builds made one after the other in this process; after every build all
    libraries made so far are observed, at the end also the sources, and a
    library constructed from nothing.  -> True iff the process still makes
    clean libraries afterwards."""
    from pgradd.GroupAdd.Library import GroupLibrary
    wit = dict(kind='history', history=[list(s) for s in history],
               earlier=earlier)
    made = []
    for n, (route, source) in enumerate(history):
        where = 'after build %d of %r' % (n + 1, [list(s) for s in history])
        R.evals += 1
        r = E.ev(build, route, source)
        if r[0] != 'ok':
            R.outcomes['handbuilt-build-raises:' + r[1]] += 1
            R.violation('handbuilt-build-raises:%s:%s' % (route, r[1]),
                        '%s: making a library from %s by route %r raised %s'
                        % (where, source, route, r[1]), wit)
        else:
            made.append((r[1], source))
        for lib, s in made:
            observe_built(R, lib, s, where, wit)
    where = 'after %r' % ([list(s) for s in history],)
    for s in sorted(set(s for _, s in history)):
        # the loaded source itself, after having been handed to Update()
        observe_built(R, load(s)[0], s, where + ' (the source)', wit)
    R.evals += 1
    bare = GroupLibrary(load(history[-1][1])[0].scheme)
    sane = not bare.uq_contents
    if sane:
        R.outcomes['fresh-library-clean'] += 1
    else:
        R.outcomes['fresh-library-carries-uncertainty-data'] += 1
        R.violation('fresh-library-carries-uncertainty-data',
                    '%s: GroupLibrary(scheme) - given nothing - carries '
                    'uncertainty data with keys %r' % (
                        where, sorted(map(str, bare.uq_contents))), wit)
    return sane


def run_histories(R, i, n, tier):
    """Runs in an interpreter of its own (see run_histories_isolated)."""
    taint = None
    for k, h in enumerate(W4.histories(tier)):
        if k % n != i:
            continue
        sane = run_history(R, h, earlier=taint)
        if taint is None and not sane:
            # from here on this process is damaged: later witnesses carry the
            # history that did it
            taint = [list(s) for s in h]
            R.notes.append('hand-built family: a library constructed from '
                           'nothing stopped being empty after %r' % (taint,))
        if k < 2:
            R.sample(dict(history=[list(s) for s in h]), limit=2)


def _hist_child(i, n, tier, outpath):
    R = Result()
    run_histories(R, i, n, tier)
    with open(outpath, 'w') as f:
        json.dump(R.pack(), f, default=str)


def run_histories_isolated(R, i, n, tier):
    """The hand-built family exercises process-wide state (a shared default
    argument); it gets an interpreter of its own so that the other shards of
    this worker, whose witnesses are replayed alone, never run in a process a
    history has damaged."""
    with tempfile.TemporaryDirectory(prefix='pgv_c20h_') as d:
        outp = os.path.join(d, 'out.json')
        p = subprocess.run(
            [sys.executable, '-c', 'import sys; from mc.props import c20; '
             'c20._hist_child(int(sys.argv[1]), int(sys.argv[2]), sys.argv[3], '
             'sys.argv[4])', str(i), str(n), tier, outp], cwd=VERIF,
            env=dict(os.environ), stdin=subprocess.DEVNULL,
            stdout=subprocess.PIPE, stderr=subprocess.STDOUT, timeout=3600)
        if p.returncode != 0 or not os.path.exists(outp):
            raise RuntimeError('history child %d/%d failed rc=%s: %s' % (
                i, n, p.returncode, p.stdout.decode(errors='replace')[-800:]))
        pack = json.load(open(outp))
    R.evals += pack['evals']
    R.nontrivial += pack['nontrivial']
    R.outcomes.update(pack['outcomes'])
    R.extra.update(pack['extra'])
    R.violations.extend(pack['violations'])
    R.samples.extend(pack['samples'])
    R.notes.extend(pack['notes'][:3])


# ------------------------------------------------------------ fifth wave

def check_zero_entry(R, name, items, g, pos, tok):
    """An IN-basis descriptor `g` listed with a zero count (spelled by `tok`)
    at position `pos`: the standard errors are those of `items`."""
    wit = dict(kind='zeros', lib=name, items=[list(i) for i in items], g=g,
               pos=pos, tok=tok)
    lib, basis, mat = load(name)
    its = list(items[:pos]) + [(g, W5.decode(tok))] + list(items[pos:])
    R.nontrivial += 1
    R.evals += 1
    r = E.ev(lib.Estimate, dict(its), 'thermochem')
    if r[0] != 'ok':
        R.outcomes['estimate-raises:' + r[1]] += 1
        R.violation('estimate-raises:%s:zero-entry' % r[1], '[%s] %r + (%r, %s) '
                    'at position %d: Estimate raised %s' % (
                        name, items, g, tok, pos, r[1]), wit)
        return
    observe(R, name, r[1], items, 'zero-entry', wit, temps=HB_T)


def run_zeros(R, name):
    lib, basis, mat = load(name)
    sub = basis[:MUT_SUB + 1]
    for items in mut_bases(name):
        spare = [g for g in sub if g not in [k for k, _ in items]]
        if not spare:
            continue
        for tok in W5.ZERO_TOKENS:
            for pos in sorted(set((0, len(items)))):
                check_zero_entry(R, name, items, spare[0], pos, tok)
    R.sample(dict(library=name, mapping=[list(i) for i in items],
                  zero_spellings=W5.ZERO_TOKENS), limit=1)


def check_range_lib(R, name, only=None):
    """A library file whose group ranges and RMSE range are letters of W5:
    wherever the library's RMSE correlation gives a value, the standard error
    is |that value| sqrt(x'Mx) - inside or outside the estimate's own range."""
    lib, basis, mat = load(name)
    rm = lib.uq_contents['RMSE'].thermochem
    rmv = {}
    for T in W5.RANGE_TEMPS:
        for se, rmg in GETTERS:
            rmv[T, rmg] = E.ev(getattr(rm, rmg), T)
            R.evals += 1
    for items in W5.range_mappings(basis):
        if only is not None and [list(i) for i in items] != only:
            continue
        wit = dict(kind='range', lib=name, items=[list(i) for i in items])
        R.nontrivial += 1
        R.evals += 1
        r = E.ev(lib.Estimate, dict(items), 'thermochem')
        if r[0] != 'ok':
            R.outcomes['estimate-raises:' + r[1]] += 1
            R.violation('estimate-raises:%s:range-family' % r[1], '[%s] %r: '
                        'Estimate raised %s' % (name, items, r[1]), wit)
            continue
        x = [0.0] * len(basis)
        for g, c in items:
            x[basis.index(g)] = c
        q = tr.quad_form(x, mat)
        er = E.ev(r[1].get_range)
        er = er[1] if er[0] == 'ok' else None
        for T in W5.RANGE_TEMPS:
            inside = er is None or (er[0] <= T <= er[1])
            where = 'inside' if inside else 'outside'
            for se, rmg in GETTERS:
                ref = rmv[T, rmg]
                got = E.ev(getattr(r[1], se), T)
                R.evals += 1
                if ref[0] != 'ok':
                    R.outcomes['rmse-has-no-value:se-%s' % (
                        'raises' if got[0] == 'exc' else 'returns')] += 1
                    continue
                want = abs(float(ref[1])) * math.sqrt(max(q, 0.0))
                if got[0] != 'ok':
                    R.outcomes['se-raises:' + got[1]] += 1
                    R.violation('se-raises:%s:%s-estimate-range' % (got[1], where),
                                '[%s] %r: %s(%g) raised %s; the RMSE correlation '
                                'gives %r there, the estimate\'s own range is %r'
                                % (name, items, se, T, got[1], ref[1], er), wit)
                    continue
                v = got[1]
                if type(v) is not float or not (v >= 0) or \
                        not abs(v - want) <= 1e-9 * max(1.0, want):
                    R.outcomes['se-wrong'] += 1
                    R.violation('se-wrong:%s:%s-estimate-range' % (se, where),
                                '[%s] %r: %s(%g) = %r (%s), |RMSE| sqrt(x\'Mx) = '
                                '%r (x\'Mx = %r); estimate\'s own range %r' % (
                                    name, items, se, T, v, type(v).__name__,
                                    want, q, er), wit)
                else:
                    R.outcomes['se-ok:%s-estimate-range' % where] += 1


def setrange_cases(name, tier):
    """(items, history of set_range letters, moment)"""
    bases = mut_bases(name)
    # a unit, a pair, a triple (syn2 has no triple)
    few = [bases[0]] + [b for b in bases if len(b) == 2][:1]
    few += [b for b in bases if len(b) == 3][-1:]
    for hist in W5.set_range_histories(2 if tier == 'quick' else 3):
        for items in (bases if len(hist) == 1 else
                      few[-1:] if tier == 'quick' else few):
            for moment in W5.MOMENTS:
                yield items, hist, moment


def check_setrange(R, name, items, hist, moment):
    """set_range() on the ESTIMATE: its validity range is its own business;
    the standard errors stay |RMSE(T)| sqrt(x'Mx) after every step."""
    lib, basis, mat = load(name)
    wit = dict(kind='setrange', lib=name, items=[list(i) for i in items],
               hist=list(hist), moment=moment)
    R.nontrivial += 1
    R.evals += 1
    r = E.ev(lib.Estimate, dict(items), 'thermochem')
    if r[0] != 'ok':
        R.outcomes['estimate-raises:' + r[1]] += 1
        R.violation('estimate-raises:' + r[1], '[%s] %r: Estimate raised %s' % (
            name, items, r[1]), wit)
        return
    e = r[1]
    if moment == 'after-first-SE':
        observe(R, name, e, items, 'before-set_range', wit)
    for n, k in enumerate(hist):
        rng = W5.SET_RANGES[k]
        s = E.ev(e.set_range, None if rng is None else tuple(rng))
        R.evals += 1
        R.outcomes['estimate.set_range:' + (s[1] if s[0] == 'exc' else 'ok')] += 1
        observe(R, name, e, items, 'after-set_range/%s' % moment, wit,
                prefix='se-follows-estimate-range')


def rmse_mappings(name):
    lib, basis, mat = load(name)
    if len(basis) < 3:
        return [[(basis[0], 0.217)], [(basis[1], 2), (basis[0], -1)]]
    return [[(basis[0], 0.217)], [(basis[0], 1), (basis[1], 2), (basis[2], -0.5)]]


def run_rmse_history(R, name, hist):
    """A library object of its own; two estimates made first; then the
    history: ['obs', T] = the three getters of both estimates at T, ['mut', p]
    = the library's RMSE correlation updated IN PLACE with piece p.  At the
    end both estimates, and two made now, over the temperature grid (+ the
    RMSE correlation's T_ref) against the library's RMSE correlation AS IT IS
    NOW; at T_ref also against the H / S value the last accepted piece
    brought (the harness's own number)."""
    import pgradd.ThermoChem    # noqa
    from pgradd.ThermoChem import ThermochemGroup
    wit = dict(kind='rmse', lib=name, hist=[list(o) for o in hist])
    lib = fresh_lib(name)
    R.evals += 1
    _, basis, mat = load(name)
    rm = lib.uq_contents['RMSE'].thermochem
    T_ref = float(rm.T_ref)
    ests = []
    for items in rmse_mappings(name):
        r = E.ev(lib.Estimate, dict(items), 'thermochem')
        R.evals += 1
        if r[0] != 'ok':
            R.violation('estimate-raises:' + r[1], '[%s] %r: Estimate raised %s'
                        % (name, items, r[1]), wit)
            return
        ests.append((items, r[1]))
    known = dict(ND_H_ref=None, ND_S_ref=None)
    changed = False
    for n, op in enumerate(hist):
        R.nontrivial += 1
        tag = 'rmse-history/step-%d-of-%d' % (n + 1, len(hist))
        if op[0] == 'obs':
            for items, e in ests:
                observe(R, name, e, items, 'rmse-history/obs', wit,
                        prefix='se-not-current-rmse', temps=(op[1],), lib=lib)
            continue
        kw, overwrite, tref = W5.PIECES[op[1]]
        before = [E.ev(getattr(rm, g), 500.0)[:2] for _, g in GETTERS]
        piece = ThermochemGroup(T_ref=T_ref if tref == 'own' else tref,
                                **dict(kw))
        u = E.ev(rm.update, piece, overwrite=overwrite)
        R.evals += 1
        after = [E.ev(getattr(rm, g), 500.0)[:2] for _, g in GETTERS]
        R.outcomes['rmse.update(%s):%s:%s' % (
            op[1], u[1] if u[0] == 'exc' else 'ok',
            'changed' if before != after else 'unchanged')] += 1
        changed = changed or before != after
        if u[0] == 'ok':
            for k in known:
                if k in kw:
                    known[k] = kw[k]
    temps = TEMPS if T_ref in TEMPS else TEMPS + (T_ref,)
    late = []
    for items, _ in ests:
        r = E.ev(lib.Estimate, dict(items), 'thermochem')
        R.evals += 1
        if r[0] != 'ok':
            R.violation('estimate-raises:' + r[1], '[%s] %r (after the history): '
                        'Estimate raised %s' % (name, items, r[1]), wit)
            continue
        late.append((items, r[1]))
    for who, group in (('made-before', ests), ('made-after', late)):
        for items, e in group:
            R.nontrivial += 1
            observe(R, name, e, items, 'rmse-history/end/' + who, wit,
                    prefix='se-not-current-rmse', temps=temps, lib=lib)
            x = [0.0] * len(basis)
            for g, c in items:
                x[basis.index(g)] = c
            root = math.sqrt(max(tr.quad_form(x, mat), 0.0))
            for se, k in (('get_HoRT_SE', 'ND_H_ref'), ('get_SoR_SE', 'ND_S_ref')):
                if known[k] is None:
                    continue
                want = abs(known[k]) * root
                got = E.ev(getattr(e, se), T_ref)
                R.evals += 1
                if got[0] != 'ok':
                    continue        # judged by observe() above
                v = got[1]
                if type(v) is not float or not abs(v - want) <= 1e-9 * max(1.0, want):
                    R.outcomes['se-not-the-value-brought-by-update'] += 1
                    R.violation('se-not-the-value-brought-by-update:%s:%s' % (se, who),
                                '[%s] %r after %r: %s(T_ref = %g) = %r, but the '
                                'last accepted update() set %s = %r, |.| sqrt(x\'Mx)'
                                ' = %r' % (name, items, hist, se, T_ref, v, k,
                                           known[k], want), wit)
                else:
                    R.outcomes['se-is-the-value-brought-by-update'] += 1
    return changed


RANGE_SHARDS = {'quick': 6, 'thorough': 24}
RMSE_SHARDS = {'syn3': {'quick': 4, 'thorough': 8}}

MUT_SHARDS = {n: 2 for n in libs.UQ_LIBS}
SYNX_FACTOR_SHARDS = 6
HIST_SHARDS = {'quick': 2, 'thorough': 12}


def shards(tier, seed):
    out = []
    for name in libs.UQ_LIBS + list(SYN):
        for i in range(6):
            out.append((name, i, 6))
    # third wave: basis orders x stored matrices x placement of the block
    for name in W.lib_names():
        out.append((name, 0, 1))
    # third wave: caller-owned mapping edited after Estimate()
    for name in libs.UQ_LIBS + list(SYN):
        n = MUT_SHARDS.get(name, 1)
        for i in range(n):
            out.append((name, i, n, 'mut'))
    # fourth wave: the ladder of common factors
    for name in libs.UQ_LIBS + list(SYN):
        out.append((name, 0, 1, 'factor'))
    for i in range(SYNX_FACTOR_SHARDS):
        out.append(('synx', i, SYNX_FACTOR_SHARDS, 'factor'))
    # fourth wave: histories of libraries built by hand
    for i in range(HIST_SHARDS[tier]):
        out.append(('*', i, HIST_SHARDS[tier], 'history'))
    # fifth wave: zero entries; ranges (library files, set_range on the
    # estimate); RMSE correlation updated in place
    for name in libs.UQ_LIBS + list(SYN):
        out.append((name, 0, 1, 'zeros'))
        out.append((name, 0, 1, 'setrange'))
        n = RMSE_SHARDS.get(name, {}).get(tier, 1)
        for i in range(n):
            out.append((name, i, n, 'rmse'))
    for i in range(RANGE_SHARDS[tier]):
        out.append(('synr', i, RANGE_SHARDS[tier], 'range'))
    return out


def run_shard(shard, tier):
    R = Result()
    if len(shard) == 4 and shard[3] == 'factor':
        name, i, n, _ = shard
        run_factor(R, W.lib_names()[i::n] if name == 'synx' else [name], tier)
        return R
    if len(shard) == 4 and shard[3] == 'history':
        run_histories_isolated(R, shard[1], shard[2], tier)
        return R
    if len(shard) == 4 and shard[3] == 'zeros':
        run_zeros(R, shard[0])
        return R
    if len(shard) == 4 and shard[3] == 'setrange':
        name = shard[0]
        for items, hist, moment in setrange_cases(name, tier):
            check_setrange(R, name, items, hist, moment)
        R.sample(dict(library=name, set_range_arguments=W5.SET_RANGES), limit=1)
        return R
    if len(shard) == 4 and shard[3] == 'rmse':
        name, i, n, _ = shard
        for k, h in enumerate(W5.rmse_histories(name, tier)):
            if k % n == i:
                run_rmse_history(R, name, h)
                if k < 2:
                    R.sample(dict(library=name, rmse_history=h), limit=2)
        return R
    if len(shard) == 4 and shard[3] == 'range':
        name, i, n, _ = shard
        for nm in W5.range_lib_names(tier)[i::n]:
            check_range_lib(R, nm)
            _L.pop(nm, None)        # walked once; do not keep 100s of libraries
        R.sample(dict(library_file=W5.range_lib_text(
            W5.range_lib_names(tier)[i])[0]), limit=1)
        return R
    if len(shard) == 4:
        name, i, n, _ = shard
        for k, (items, op, timing, other) in enumerate(mut_cases(name)):
            if k % n == i:
                check_mut(R, name, items, op, timing, other)
        return R
    name, i, n = shard
    if name.startswith('synx:') and name == W.lib_names()[0]:
        W.selfcheck()
    for k, (tag, items) in enumerate(families(name)):
        if k % n != i:
            continue
        if tag == 'triple' or (tag == 'pair' and items[0][1] == 1) or \
                (tag == 'unit' and items[0][1] == 1):
            check_family(R, name, items, tag)
            if tag != 'triple' or k % 5 == 0:
                check_outside(R, name, items)
        else:
            check(R, name, items, tag)
    return R


def _verdict(R):
    return dict(violates=bool(R.violations),
                detail='\n'.join(v['msg'] for v in R.violations[:5]) or 'holds')


def replay(w):
    R = Result()
    if w['kind'] == 'history':
        # the whole history, in this (fresh) process; if an earlier history of
        # the same walk had already damaged the process, that one first
        if w.get('earlier'):
            run_history(Result(), [tuple(s) for s in w['earlier']])
        run_history(R, [tuple(s) for s in w['history']], earlier=w.get('earlier'))
        return _verdict(R)
    if w['kind'] == 'rmse':
        run_rmse_history(R, w['lib'], w['hist'])
        return _verdict(R)
    items = [tuple(i) for i in w['items']]
    if w['kind'] == 'outc':
        ok = check_outside_count(R, w['lib'], items, w['o'], w['pos'], w['tok'])
        return dict(violates=not ok, detail=_verdict(R)['detail'])
    if w['kind'] == 'zeros':
        check_zero_entry(R, w['lib'], items, w['g'], w['pos'], w['tok'])
        return _verdict(R)
    if w['kind'] == 'range':
        check_range_lib(R, w['lib'], only=[list(i) for i in items])
        return _verdict(R)
    if w['kind'] == 'setrange':
        check_setrange(R, w['lib'], items, w['hist'], w['moment'])
        return _verdict(R)
    if w['kind'] == 'factor':
        check_factor(R, w['lib'], items, w['k'])
        return _verdict(R)
    if w['kind'] == 'mut':
        check_mut(R, w['lib'], items, tuple(w['op']), w['timing'],
                  [tuple(i) for i in w['other']])
        return _verdict(R)
    if w['kind'] == 'out':
        lib, basis, mat = load(w['lib'])
        r = E.ev(lib.Estimate, dict(items), 'thermochem')
        ok = r[0] == 'exc' or all(E.ev(getattr(r[1], se), 500.0)[0] == 'exc'
                                  for se, _ in GETTERS)
        return dict(violates=not ok, detail=repr(r[:2]))
    check_family(R, w['lib'], items, 'replay')
    return _verdict(R)
