"""C20 - standard errors are the scaled quadratic form of the descriptors.

The three shipped libraries with uncertainty data and two synthetic ones (2-
and 3-descriptor bases with off-diagonal terms): every unit vector, every pair
of basis descriptors x count pairs, every mapping of size <= 3 over a
10-descriptor sub-basis in ALL key orders, each scaled by {-2, 0.5, 3}, each
with one out-of-basis descriptor at every position; temperature grid; the
three _SE getters.

Third wave (domains/w3_c20.py): (a) 66 further synthetic library files - the
3-descriptor basis in ALL 6 orders (5 of them not string-sorted) x 9 stored
matrices (symmetric; each single entry above / below the diagonal different
from its mirror image; asymmetric everywhere with float and with whole-number
entries) with the uncertainty block in the library file, and the 6 orders x
{symmetric, asymmetric} with the block in an included uq.yaml - each walked
with the complete family above; (b) the caller's mapping edited after
Estimate(): for every 1-3 subset of a 5-descriptor sub-basis of the 3 shipped
+ 3 original synthetic libraries, every single-step edit (clear, scale all,
set / delete each key, add an in-basis / an out-of-basis key, re-use for the
next mapping and estimate again) x {before, after} the first standard-error
call; the estimate made first must keep the standard errors of the counts it
was given.
"""
import itertools
import math
import os
import tempfile

import yaml

from ..runner import Result
from ..models import thermoref as tr
from ..domains import estimates as E
from ..domains import libs
from ..domains import w3_c20 as W

LEVEL = 'exploration'
BOUND = {t: '3 shipped + 3 synthetic libraries (one with an integer-valued matrix); all unit vectors x 3 counts; all '
            'basis pairs x 3 count pairs; all 1-3 subsets of a 10-descriptor '
            'sub-basis in every key order; scalings {-2, 0.5, 3}; one '
            'out-of-basis descriptor (with / without data) at every position; 3 '
            'temperatures x 3 getters; the same family on 66 more synthetic '
            'library files = 6 orders of a 3-descriptor basis x 9 stored '
            'matrices (8 of them not symmetric: every single off-diagonal '
            'position, and all positions at once with float / whole-number '
            'entries) in the library file + 6 orders x 2 matrices in an included '
            'uq.yaml; caller-owned mapping: all 1-3 subsets of a 5-descriptor '
            'sub-basis (6 libraries) x every single-step edit of the mapping '
            '(clear, scale, set/delete each key, add in-basis / out-of-basis '
            'key, re-use for the next mapping) x {before, after} the first '
            'standard-error call' for t in ('quick', 'thorough')}
RULE = ('each mapping is estimated and the three standard-error getters are '
        'compared with |RMSE_X(T)| * sqrt(x\'Mx), x\'Mx summed in pure Python '
        'from the matrix rows read from the data file by the harness; '
        'non-trivial = more than one non-zero count, a non-unit count, a '
        'permuted key order or an out-of-basis variant; every caller-mapping '
        'case (Estimate(d), edit d, standard errors of the estimate against '
        'the counts originally given) is non-trivial')
ASSUMPTIONS = ['the basis order and matrix are read from uq.yaml / the library '
               'file with PyYAML by the harness itself',
               'for the synthetic library files the harness writes the '
               'file and judges with the basis order and matrix it wrote '
               '(a non-symmetric stored matrix is used as stored: x\'Mx = sum '
               'x_i M_ij x_j)',
               'relative tolerance 1e-9']
MANIFEST = dict(
    technique='exhaustive enumeration of count vectors over the uncertainty '
              'basis (all key orders, scalings, out-of-basis insertions) vs a '
              'pure-Python quadratic form',
    text='For every library with uncertainty data: every unit vector, every '
         'basis pair, every small mapping in every key order, scaled copies, '
         'and every insertion of an out-of-basis descriptor; each _SE getter '
         'must equal |RMSE(T)| sqrt(x\'Mx), be a non-negative plain float, '
         'scale with the absolute value of a common factor, not depend on the '
         'mapping order, and an out-of-basis descriptor must raise. The '
         'library files include every order of a 3-descriptor basis and '
         'stored matrices that are not symmetric; the caller\'s mapping is '
         'edited in every single-step way after Estimate() and the standard '
         'errors must stay those of the counts originally given.',
    note='Mappings with more than three non-zero counts are not enumerated.',
    ref='5/C20')

SCHEME = E.SCHEME
SYN = {
    'syn2': dict(basis=['C(C)(H)3', 'C(C)2(H)2'],
                 mat=[[2.0, -0.5], [-0.5, 1.25]]),
    'syn3': dict(basis=['C(C)(H)3', 'C(C)2(H)2', 'C(C)3(H)'],
                 mat=[[1.5, 0.25, -0.75], [0.25, 0.5, 0.125], [-0.75, 0.125, 2.0]]),
    # all entries whole numbers: loads with an integer dtype
    'synint': dict(basis=['C(C)(H)3', 'C(C)2(H)2', 'C(C)3(H)'],
                   mat=[[4, 1, 0], [1, 3, -1], [0, -1, 2]]),
}
SYN_GROUPS = """
groups:
  'C(C)(H)3': {thermochem: {T_ref: 298.15 K, ND_H_ref: -17.5, ND_S_ref: 15.25, ND_Cp_data: [[300 K, 3.0], [800 K, 5.0]], range: [250 K, 1000 K]}}
  'C(C)2(H)2': {thermochem: {T_ref: 298.15 K, ND_H_ref: -8.25, ND_S_ref: 4.75, ND_Cp_data: [[300 K, 2.75], [800 K, 4.0]], range: [250 K, 1000 K]}}
  'C(C)3(H)': {thermochem: {T_ref: 298.15 K, ND_H_ref: -3.5, ND_S_ref: -6.25, ND_Cp_data: [[300 K, 2.25], [800 K, 3.0]], range: [250 K, 1000 K]}}
  'C(C)4': {thermochem: {T_ref: 298.15 K, ND_H_ref: 1.5, ND_S_ref: -17.75, ND_Cp_data: [[300 K, 2.0], [800 K, 2.5]], range: [250 K, 1000 K]}}
"""
_L = {}


def _write_and_load(basis, mat, place='inline'):
    import pgradd.ThermoChem    # noqa
    from pgradd.GroupAdd.Library import GroupLibrary
    d = tempfile.mkdtemp(prefix='pgv_c20_')
    with open(os.path.join(d, 'scheme.yaml'), 'w') as f:
        f.write(SCHEME)
    uq = dict(UQ=dict(
        RMSE=dict(thermochem=dict(T_ref='298.15 K', ND_H_ref=-1.5, ND_S_ref=0.75,
                                  ND_Cp_data=[['300 K', 0.5], ['800 K', 0.25]],
                                  range=['250 K', '1000 K'])),
        DOF=7, InvCovMat=dict(groups=list(basis), mat=[list(r) for r in mat])))
    with open(os.path.join(d, 'library.yaml'), 'w') as f:
        if place == 'inline':
            f.write(SYN_GROUPS + yaml.safe_dump(uq))
        else:
            # as the shipped libraries do: the block sits in an included file
            f.write('include:\n    - uq.yaml\n' + SYN_GROUPS)
            with open(os.path.join(d, 'uq.yaml'), 'w') as g:
                g.write(yaml.safe_dump(uq))
    try:
        return GroupLibrary.Load(os.path.join(d, 'library.yaml'))
    finally:
        import shutil
        shutil.rmtree(d, ignore_errors=True)


def load(name):
    """-> (library, basis names, matrix rows) - basis/matrix read by me."""
    if name in _L:
        return _L[name]
    if name in SYN:
        lib = _write_and_load(SYN[name]['basis'], SYN[name]['mat'])
        basis, mat = SYN[name]['basis'], SYN[name]['mat']
    elif name.startswith('synx:'):
        basis, mat, place = W.spec(name)
        lib = _write_and_load(basis, mat, place)
    else:
        lib = libs.load(name)
        u = yaml.safe_load(open(os.path.join(libs.data_dir(), name, 'uq.yaml')))['UQ']
        basis = [str(x) for x in u['InvCovMat']['groups']]
        mat = [[float(v) for v in row] for row in u['InvCovMat']['mat']]
    _L[name] = (lib, basis, mat)
    return _L[name]


GETTERS = [('get_CpoR_SE', 'get_CpoR'), ('get_HoRT_SE', 'get_HoRT'),
           ('get_SoR_SE', 'get_SoR')]


def expected(lib, basis, mat, items, T, rm_getter):
    x = [0.0] * len(basis)
    for g, c in items:
        x[basis.index(g)] = c
    q = tr.quad_form(x, mat)
    rm = getattr(lib.uq_contents['RMSE'].thermochem, rm_getter)(T)
    return abs(float(rm)) * math.sqrt(max(q, 0.0)), q


def check(R, name, items, tag):
    lib, basis, mat = load(name)
    wit = dict(kind='se', lib=name, items=[list(i) for i in items])
    r = E.ev(lib.Estimate, dict(items), 'thermochem')
    R.evals += 1
    nz = [c for _, c in items if c != 0]
    if len(nz) > 1 or any(c != 1 for c in nz) or tag != 'unit':
        R.nontrivial += 1
    if r[0] != 'ok':
        R.outcomes['estimate-raises:' + r[1]] += 1
        R.violation('estimate-raises:' + r[1], '[%s] %r: Estimate raised %s' % (
            name, items, r[1]), wit)
        return None
    return observe(R, name, r[1], items, tag, wit)


def observe(R, name, e, items, tag, wit, prefix='se-wrong'):
    """The three getters x temperature grid of estimate `e` against the
    quadratic form of `items`."""
    lib, basis, mat = load(name)
    vals = []
    for T in (298.15, 500.0, 1000.0):
        for se, rmg in GETTERS:
            want, q = expected(lib, basis, mat, items, T, rmg)
            got = E.ev(getattr(e, se), T)
            R.evals += 1
            if got[0] != 'ok':
                R.outcomes['se-raises:' + got[1]] += 1
                R.violation('se-raises:%s' % got[1], '[%s] %r: %s(%g) raised %s' % (
                    name, items, se, T, got[1]), wit)
                vals.append(None)
                continue
            v = got[1]
            vals.append(v)
            if type(v) is not float or not (v >= 0) or \
                    abs(v - want) > 1e-9 * max(1.0, want):
                R.outcomes[prefix] += 1
                R.violation('%s:%s:%s' % (prefix, se, tag),
                            '[%s] %r: %s(%g) = %r (%s), |RMSE| sqrt(x\'Mx) = %r '
                            '(x\'Mx = %r)' % (name, items, se, T, v, type(v).__name__,
                                              want, q), wit)
            else:
                R.outcomes['se-ok'] += 1
    return vals


def check_family(R, name, items, tag):
    base = check(R, name, items, tag)
    if base is None or any(v is None for v in base):
        return
    # order independence: every key order
    if 1 < len(items) <= 3:
        for perm in itertools.permutations(items):
            if list(perm) == list(items):
                continue
            v = check(R, name, list(perm), 'order')
            if v is not None and v != base and all(x is not None for x in v):
                if any(abs(a - b) > 1e-9 * max(1, abs(b)) for a, b in zip(v, base)):
                    R.violation('order-dependent', '[%s] %r vs %r: %r vs %r' % (
                        name, list(perm), items, v[:3], base[:3]),
                        dict(kind='se', lib=name, items=[list(i) for i in perm]))
    # scaling law
    for k in (-2, 0.5, 3):
        v = check(R, name, [(g, c * k) for g, c in items], 'scaled')
        if v is None or any(x is None for x in v):
            continue
        if any(abs(a - abs(k) * b) > 1e-9 * max(1, abs(a)) for a, b in zip(v, base)):
            R.violation('scaling-law', '[%s] %r scaled by %r: %r, expected |k| x %r'
                        % (name, items, k, v[:3], base[:3]),
                        dict(kind='se', lib=name, items=[[g, c * k] for g, c in items]))
    R.sample(dict(library=name, mapping=[list(i) for i in items], SE=base[:3]), limit=1)


def check_outside(R, name, items):
    """One out-of-basis descriptor, with and without thermochem data, at every
    position: error when the estimate is built or evaluated."""
    lib, basis, mat = load(name)
    with_data = [str(g) for g in E.with_data(lib) if str(g) not in basis]
    outs = ['Q(Z)9'] + with_data[:1]
    for o in outs:
        for pos in range(len(items) + 1):
            its = list(items[:pos]) + [(o, 1)] + list(items[pos:])
            R.evals += 1
            R.nontrivial += 1
            r = E.ev(lib.Estimate, dict(its), 'thermochem')
            ok = r[0] == 'exc'
            if not ok:
                g = [E.ev(getattr(r[1], se), 500.0) for se, _ in GETTERS]
                ok = all(x[0] == 'exc' for x in g)
            R.outcomes['out-of-basis:' + ('error' if ok else 'ignored')] += 1
            if not ok:
                R.violation('out-of-basis-ignored', '[%s] %r: descriptor %r is '
                            'outside the uncertainty basis but a standard error '
                            'was returned' % (name, its, o),
                            dict(kind='out', lib=name, items=[list(i) for i in its]))


def families(name):
    lib, basis, mat = load(name)
    for g in basis:
        for c in (1, -1, 0.217):
            yield 'unit', [(g, c)]
    sub = basis[:10]
    cp = [(1, 1), (2, -1), (0.5, 3.0)]
    pairs = list(itertools.combinations(basis, 2))
    if len(pairs) > 400:
        # all pairs involving the sub-basis, plus every adjacent pair
        pairs = [p for p in pairs if p[0] in sub or p[1] in sub] + \
            list(zip(basis[10:-1], basis[11:]))
    for a, b in pairs:
        for ca, cb in cp:
            yield 'pair', [(a, ca), (b, cb)]
    for t in itertools.combinations(sub, 3):
        yield 'triple', [(t[0], 1), (t[1], 2), (t[2], -0.5)]


MUT_SUB = 5      # caller-mapping family: subsets of the first 5 basis names


def mut_bases(name):
    lib, basis, mat = load(name)
    sub = basis[:MUT_SUB]
    out = [[(g, 0.217)] for g in sub]
    out += [[(a, 2), (b, -1)] for a, b in itertools.combinations(sub, 2)]
    out += [[(a, 1), (b, 2), (c, -0.5)]
            for a, b, c in itertools.combinations(sub, 3)]
    return out


def mut_cases(name):
    """(items, edit, moment, mapping the dict is re-used for)"""
    lib, basis, mat = load(name)
    bases = mut_bases(name)
    for k, items in enumerate(bases):
        other = bases[(k + 1) % len(bases)]
        for op in W.edits(items, basis):
            for timing in W.TIMINGS:
                yield items, op, timing, other


def check_mut(R, name, items, op, timing, other):
    """Estimate(d); the caller edits d; the estimate keeps the standard errors
    of the counts it was given (absolute oracle, as everywhere else)."""
    lib, basis, mat = load(name)
    wit = dict(kind='mut', lib=name, items=[list(i) for i in items],
               op=list(op), timing=timing, other=[list(i) for i in other])
    tag = '%s/%s' % (op[0], timing)
    R.nontrivial += 1
    d = dict(items)
    r = E.ev(lib.Estimate, d, 'thermochem')
    R.evals += 1
    if r[0] != 'ok':
        R.outcomes['estimate-raises:' + r[1]] += 1
        R.violation('estimate-raises:' + r[1], '[%s] %r: Estimate raised %s' % (
            name, items, r[1]), wit)
        return
    e = r[1]
    if timing == 'after-first-SE':
        observe(R, name, e, items, 'before-edit', wit)
    W.apply_edit(d, items, op, other)
    e2 = None
    if op[0] == 'replace':
        e2 = E.ev(lib.Estimate, d, 'thermochem')
        R.evals += 1
    v = observe(R, name, e, items, tag, wit, prefix='se-follows-callers-mapping')
    if all(x is not None for x in v):
        R.outcomes['independent-of-callers-mapping'] += 1
    if e2 is not None:
        if e2[0] != 'ok':
            R.outcomes['estimate-raises:' + e2[1]] += 1
            R.violation('estimate-raises:' + e2[1], '[%s] %r (re-used mapping): '
                        'Estimate raised %s' % (name, other, e2[1]), wit)
        else:
            observe(R, name, e2[1], other, 'reused-mapping', wit)
            # and the first one once more, now that a second estimate exists
            observe(R, name, e, items, tag + '/second-estimate', wit,
                    prefix='se-follows-callers-mapping')


MUT_SHARDS = {n: 2 for n in libs.UQ_LIBS}


def shards(tier, seed):
    out = []
    for name in libs.UQ_LIBS + list(SYN):
        for i in range(6):
            out.append((name, i, 6))
    # third wave: basis orders x stored matrices x placement of the block
    for name in W.lib_names():
        out.append((name, 0, 1))
    # third wave: caller-owned mapping edited after Estimate()
    for name in libs.UQ_LIBS + list(SYN):
        n = MUT_SHARDS.get(name, 1)
        for i in range(n):
            out.append((name, i, n, 'mut'))
    return out


def run_shard(shard, tier):
    R = Result()
    if len(shard) == 4:
        name, i, n, _ = shard
        for k, (items, op, timing, other) in enumerate(mut_cases(name)):
            if k % n == i:
                check_mut(R, name, items, op, timing, other)
        return R
    name, i, n = shard
    if name.startswith('synx:') and name == W.lib_names()[0]:
        W.selfcheck()
    for k, (tag, items) in enumerate(families(name)):
        if k % n != i:
            continue
        if tag == 'triple' or (tag == 'pair' and items[0][1] == 1) or \
                (tag == 'unit' and items[0][1] == 1):
            check_family(R, name, items, tag)
            if tag != 'triple' or k % 5 == 0:
                check_outside(R, name, items)
        else:
            check(R, name, items, tag)
    return R


def replay(w):
    R = Result()
    items = [tuple(i) for i in w['items']]
    if w['kind'] == 'mut':
        check_mut(R, w['lib'], items, tuple(w['op']), w['timing'],
                  [tuple(i) for i in w['other']])
        return dict(violates=bool(R.violations),
                    detail='\n'.join(v['msg'] for v in R.violations[:5]) or 'holds')
    if w['kind'] == 'out':
        lib, basis, mat = load(w['lib'])
        r = E.ev(lib.Estimate, dict(items), 'thermochem')
        ok = r[0] == 'exc' or all(E.ev(getattr(r[1], se), 500.0)[0] == 'exc'
                                  for se, _ in GETTERS)
        return dict(violates=not ok, detail=repr(r[:2]))
    check_family(R, w['lib'], items, 'replay')
    return dict(violates=bool(R.violations),
                detail='\n'.join(v['msg'] for v in R.violations[:5]) or 'holds')
