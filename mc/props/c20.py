"""C20 - standard errors are the scaled quadratic form of the descriptors.

The three shipped libraries with uncertainty data and two synthetic ones (2-
and 3-descriptor bases with off-diagonal terms): every unit vector, every pair
of basis descriptors x count pairs, every mapping of size <= 3 over a
10-descriptor sub-basis in ALL key orders, each scaled by {-2, 0.5, 3}, each
with one out-of-basis descriptor at every position; temperature grid; the
three _SE getters.
"""
import itertools
import math
import os
import tempfile

import yaml

from ..runner import Result
from ..models import thermoref as tr
from ..domains import estimates as E
from ..domains import libs

LEVEL = 'exploration'
BOUND = {t: '3 shipped + 3 synthetic libraries (one with an integer-valued matrix); all unit vectors x 3 counts; all '
            'basis pairs x 3 count pairs; all 1-3 subsets of a 10-descriptor '
            'sub-basis in every key order; scalings {-2, 0.5, 3}; one '
            'out-of-basis descriptor (with / without data) at every position; 3 '
            'temperatures x 3 getters' for t in ('quick', 'thorough')}
RULE = ('each mapping is estimated and the three standard-error getters are '
        'compared with |RMSE_X(T)| * sqrt(x\'Mx), x\'Mx summed in pure Python '
        'from the matrix rows read from the data file by the harness; '
        'non-trivial = more than one non-zero count, a non-unit count, a '
        'permuted key order or an out-of-basis variant')
ASSUMPTIONS = ['the basis order and matrix are read from uq.yaml / the library '
               'file with PyYAML by the harness itself',
               'relative tolerance 1e-9']
MANIFEST = dict(
    technique='exhaustive enumeration of count vectors over the uncertainty '
              'basis (all key orders, scalings, out-of-basis insertions) vs a '
              'pure-Python quadratic form',
    text='For every library with uncertainty data: every unit vector, every '
         'basis pair, every small mapping in every key order, scaled copies, '
         'and every insertion of an out-of-basis descriptor; each _SE getter '
         'must equal |RMSE(T)| sqrt(x\'Mx), be a non-negative plain float, '
         'scale with the absolute value of a common factor, not depend on the '
         'mapping order, and an out-of-basis descriptor must raise.',
    note='Mappings with more than three non-zero counts are not enumerated.',
    ref='5/C20')

SCHEME = E.SCHEME
SYN = {
    'syn2': dict(basis=['C(C)(H)3', 'C(C)2(H)2'],
                 mat=[[2.0, -0.5], [-0.5, 1.25]]),
    'syn3': dict(basis=['C(C)(H)3', 'C(C)2(H)2', 'C(C)3(H)'],
                 mat=[[1.5, 0.25, -0.75], [0.25, 0.5, 0.125], [-0.75, 0.125, 2.0]]),
    # all entries whole numbers: loads with an integer dtype
    'synint': dict(basis=['C(C)(H)3', 'C(C)2(H)2', 'C(C)3(H)'],
                   mat=[[4, 1, 0], [1, 3, -1], [0, -1, 2]]),
}
SYN_GROUPS = """
groups:
  'C(C)(H)3': {thermochem: {T_ref: 298.15 K, ND_H_ref: -17.5, ND_S_ref: 15.25, ND_Cp_data: [[300 K, 3.0], [800 K, 5.0]], range: [250 K, 1000 K]}}
  'C(C)2(H)2': {thermochem: {T_ref: 298.15 K, ND_H_ref: -8.25, ND_S_ref: 4.75, ND_Cp_data: [[300 K, 2.75], [800 K, 4.0]], range: [250 K, 1000 K]}}
  'C(C)3(H)': {thermochem: {T_ref: 298.15 K, ND_H_ref: -3.5, ND_S_ref: -6.25, ND_Cp_data: [[300 K, 2.25], [800 K, 3.0]], range: [250 K, 1000 K]}}
  'C(C)4': {thermochem: {T_ref: 298.15 K, ND_H_ref: 1.5, ND_S_ref: -17.75, ND_Cp_data: [[300 K, 2.0], [800 K, 2.5]], range: [250 K, 1000 K]}}
"""
_L = {}


def load(name):
    """-> (library, basis names, matrix rows) - basis/matrix read by me."""
    if name in _L:
        return _L[name]
    if name in SYN:
        import pgradd.ThermoChem    # noqa
        from pgradd.GroupAdd.Library import GroupLibrary
        d = tempfile.mkdtemp(prefix='pgv_c20_')
        with open(os.path.join(d, 'scheme.yaml'), 'w') as f:
            f.write(SCHEME)
        uq = dict(UQ=dict(
            RMSE=dict(thermochem=dict(T_ref='298.15 K', ND_H_ref=-1.5, ND_S_ref=0.75,
                                      ND_Cp_data=[['300 K', 0.5], ['800 K', 0.25]],
                                      range=['250 K', '1000 K'])),
            DOF=7, InvCovMat=dict(groups=SYN[name]['basis'], mat=SYN[name]['mat'])))
        with open(os.path.join(d, 'library.yaml'), 'w') as f:
            f.write(SYN_GROUPS + yaml.safe_dump(uq))
        try:
            lib = GroupLibrary.Load(os.path.join(d, 'library.yaml'))
        finally:
            import shutil
            shutil.rmtree(d, ignore_errors=True)
        basis, mat = SYN[name]['basis'], SYN[name]['mat']
    else:
        lib = libs.load(name)
        u = yaml.safe_load(open(os.path.join(libs.data_dir(), name, 'uq.yaml')))['UQ']
        basis = [str(x) for x in u['InvCovMat']['groups']]
        mat = [[float(v) for v in row] for row in u['InvCovMat']['mat']]
    _L[name] = (lib, basis, mat)
    return _L[name]


GETTERS = [('get_CpoR_SE', 'get_CpoR'), ('get_HoRT_SE', 'get_HoRT'),
           ('get_SoR_SE', 'get_SoR')]


def expected(lib, basis, mat, items, T, rm_getter):
    x = [0.0] * len(basis)
    for g, c in items:
        x[basis.index(g)] = c
    q = tr.quad_form(x, mat)
    rm = getattr(lib.uq_contents['RMSE'].thermochem, rm_getter)(T)
    return abs(float(rm)) * math.sqrt(max(q, 0.0)), q


def check(R, name, items, tag):
    lib, basis, mat = load(name)
    wit = dict(kind='se', lib=name, items=[list(i) for i in items])
    r = E.ev(lib.Estimate, dict(items), 'thermochem')
    R.evals += 1
    nz = [c for _, c in items if c != 0]
    if len(nz) > 1 or any(c != 1 for c in nz) or tag != 'unit':
        R.nontrivial += 1
    if r[0] != 'ok':
        R.outcomes['estimate-raises:' + r[1]] += 1
        R.violation('estimate-raises:' + r[1], '[%s] %r: Estimate raised %s' % (
            name, items, r[1]), wit)
        return None
    e = r[1]
    vals = []
    for T in (298.15, 500.0, 1000.0):
        for se, rmg in GETTERS:
            want, q = expected(lib, basis, mat, items, T, rmg)
            got = E.ev(getattr(e, se), T)
            R.evals += 1
            if got[0] != 'ok':
                R.outcomes['se-raises:' + got[1]] += 1
                R.violation('se-raises:%s' % got[1], '[%s] %r: %s(%g) raised %s' % (
                    name, items, se, T, got[1]), wit)
                vals.append(None)
                continue
            v = got[1]
            vals.append(v)
            if type(v) is not float or not (v >= 0) or \
                    abs(v - want) > 1e-9 * max(1.0, want):
                R.outcomes['se-wrong'] += 1
                R.violation('se-wrong:%s:%s' % (se, tag),
                            '[%s] %r: %s(%g) = %r (%s), |RMSE| sqrt(x\'Mx) = %r '
                            '(x\'Mx = %r)' % (name, items, se, T, v, type(v).__name__,
                                              want, q), wit)
            else:
                R.outcomes['se-ok'] += 1
    return vals


def check_family(R, name, items, tag):
    base = check(R, name, items, tag)
    if base is None or any(v is None for v in base):
        return
    # order independence: every key order
    if 1 < len(items) <= 3:
        for perm in itertools.permutations(items):
            if list(perm) == list(items):
                continue
            v = check(R, name, list(perm), 'order')
            if v is not None and v != base and all(x is not None for x in v):
                if any(abs(a - b) > 1e-9 * max(1, abs(b)) for a, b in zip(v, base)):
                    R.violation('order-dependent', '[%s] %r vs %r: %r vs %r' % (
                        name, list(perm), items, v[:3], base[:3]),
                        dict(kind='se', lib=name, items=[list(i) for i in perm]))
    # scaling law
    for k in (-2, 0.5, 3):
        v = check(R, name, [(g, c * k) for g, c in items], 'scaled')
        if v is None or any(x is None for x in v):
            continue
        if any(abs(a - abs(k) * b) > 1e-9 * max(1, abs(a)) for a, b in zip(v, base)):
            R.violation('scaling-law', '[%s] %r scaled by %r: %r, expected |k| x %r'
                        % (name, items, k, v[:3], base[:3]),
                        dict(kind='se', lib=name, items=[[g, c * k] for g, c in items]))
    R.sample(dict(library=name, mapping=[list(i) for i in items], SE=base[:3]), limit=1)


def check_outside(R, name, items):
    """One out-of-basis descriptor, with and without thermochem data, at every
    position: error when the estimate is built or evaluated."""
    lib, basis, mat = load(name)
    with_data = [str(g) for g in E.with_data(lib) if str(g) not in basis]
    outs = ['Q(Z)9'] + with_data[:1]
    for o in outs:
        for pos in range(len(items) + 1):
            its = list(items[:pos]) + [(o, 1)] + list(items[pos:])
            R.evals += 1
            R.nontrivial += 1
            r = E.ev(lib.Estimate, dict(its), 'thermochem')
            ok = r[0] == 'exc'
            if not ok:
                g = [E.ev(getattr(r[1], se), 500.0) for se, _ in GETTERS]
                ok = all(x[0] == 'exc' for x in g)
            R.outcomes['out-of-basis:' + ('error' if ok else 'ignored')] += 1
            if not ok:
                R.violation('out-of-basis-ignored', '[%s] %r: descriptor %r is '
                            'outside the uncertainty basis but a standard error '
                            'was returned' % (name, its, o),
                            dict(kind='out', lib=name, items=[list(i) for i in its]))


def families(name):
    lib, basis, mat = load(name)
    for g in basis:
        for c in (1, -1, 0.217):
            yield 'unit', [(g, c)]
    sub = basis[:10]
    cp = [(1, 1), (2, -1), (0.5, 3.0)]
    pairs = list(itertools.combinations(basis, 2))
    if len(pairs) > 400:
        # all pairs involving the sub-basis, plus every adjacent pair
        pairs = [p for p in pairs if p[0] in sub or p[1] in sub] + \
            list(zip(basis[10:-1], basis[11:]))
    for a, b in pairs:
        for ca, cb in cp:
            yield 'pair', [(a, ca), (b, cb)]
    for t in itertools.combinations(sub, 3):
        yield 'triple', [(t[0], 1), (t[1], 2), (t[2], -0.5)]


def shards(tier, seed):
    out = []
    for name in libs.UQ_LIBS + list(SYN):
        for i in range(6):
            out.append((name, i, 6))
    return out


def run_shard(shard, tier):
    R = Result()
    name, i, n = shard
    for k, (tag, items) in enumerate(families(name)):
        if k % n != i:
            continue
        if tag == 'triple' or (tag == 'pair' and items[0][1] == 1) or \
                (tag == 'unit' and items[0][1] == 1):
            check_family(R, name, items, tag)
            if tag != 'triple' or k % 5 == 0:
                check_outside(R, name, items)
        else:
            check(R, name, items, tag)
    return R


def replay(w):
    R = Result()
    items = [tuple(i) for i in w['items']]
    if w['kind'] == 'out':
        lib, basis, mat = load(w['lib'])
        r = E.ev(lib.Estimate, dict(items), 'thermochem')
        ok = r[0] == 'exc' or all(E.ev(getattr(r[1], se), 500.0)[0] == 'exc'
                                  for se, _ in GETTERS)
        return dict(violates=not ok, detail=repr(r[:2]))
    check_family(R, w['lib'], items, 'replay')
    return dict(violates=bool(R.violations),
                detail='\n'.join(v['msg'] for v in R.violations[:5]) or 'holds')
