"""C14 - every shipped database loads, is self-consistent and relocatable.

Complete and finite: 9 libraries x {by name, by explicit path, from a
relocated copy selected through pgradd_DATA_DIR}, each of the 27 combinations
in its own fresh subprocess (the data directory is cached per process) x every
group, property, pattern, remap and uncertainty entry.

Wave 3: the relocated copy of those 27 combinations is byte-identical to the
bundled tree, so it cannot show WHICH tree a file was read from.  Nine more
fresh processes (one per library, shards ('variants', L)) run with
pgradd_DATA_DIR pointing at a relocated tree that differs from the bundled
one (built by domains/w3_c14 with PyYAML only) and load, in this order: the
bundled library.yaml by explicit path (anchor; the override must not touch
it), L by name and by path from a copy in which every file that is read -
library.yaml, scheme.yaml and each transitively included file - carries its
own marker, L's unmarked files under three directory names no bundled library
has, and L's unmarked files under the name of the next bundled library
(names rotated cyclically).  Every marker must be visible, and apart from the
markers every dump must be identical to the anchor.

Wave 4, two more families (alphabets in domains/w4_c14):

* Evaluation entry points.  "Evaluates to finite plain numbers for each
  property it has data for" was walked through get_HoRT / get_SoR / get_CpoR
  only.  In the by-name process of every library every group is now also
  evaluated through the five other entry points of its correlation (get_GoRT,
  get_H, get_S, get_G, get_Cp) on the whole temperature grid in their default
  call shape, and through every call shape of all eight entry points at one
  temperature: 16 unit strings (those of the gas-constant table) x 6
  presentations of the optional S_elements argument (absent; keyword None /
  False / True; positional None / True).

* Customise-and-load-again histories.  Every one of the 27 processes went on
  to nothing after its one load, so a loader that hands out state shared with
  an earlier load could not be seen.  Each process now continues: the library
  object it got is customised through every route a caller has (11 group-level
  kinds dealt out over all its groups, 8 library-level kinds on the scheme,
  the contents and the uncertainty block), then the same file is loaded again
  by name and by explicit path; both must show exactly what the first load
  showed before it was customised.

Wave 5 (alphabets in domains/w5_c14).  Every process so far imported the
package from one place and had the override absent or present from its very
start; and "an entry with data" was read as "an entry with a thermochemical
property set".

* Installed copies.  "By name" finds the bundled data from the location of
  the package's own files.  The package directory is copied to
  <tmp>/<chain>/pgradd for every chain of ancestor directory names of length
  1 (thorough: 1 and 2) over 8 names (neutral; the package's own name; that
  name as prefix, as suffix, with a dot, in capitals; the data directory's
  name; the name of the sub-package holding the locating code), imported
  from there in a fresh process without the override, and all nine libraries
  are loaded by name.  Each must come from the data directory inside that
  copy and show the groups / uncertainty block its files declare and the same
  contents in every process of the shard.

* Override moments.  The data directory is resolved when first needed, so a
  program may select a relocated copy after importing the package.  3 plans
  (override absent then set; set to tree A then set to tree B; set to tree A
  then removed) x the moment of the change (before anything of pgradd is
  imported; after every import; after every import and a load by explicit
  path - thorough: also after each of four single imports), one fresh
  process each, then all nine libraries by name and the library only the
  selected tree has: all must come from the tree the environment names when
  the first load by name happens.

* Data slots of the uncertainty basis.  Every basis descriptor x {H_ref,
  S_ref, Cp table}: the entry it names must hold data in at least one of the
  three - read from the loaded object and, independently, from the records
  of the raw files.
"""
import json
import math
import os
import shutil
import subprocess
import sys
import tempfile

from ..runner import Result
from ..models import thermoref as tr
from ..models import ringref
from ..domains import libs
from ..domains import w3_c14 as w3
from ..domains import w4_c14 as w4
from ..domains import w5_c14 as w5
from .. import VERIF, REPO

TWO_HASH_SEEDS = ('quick', 'thorough')   # tiers in which the space is walked under a second PYTHONHASHSEED
LEVEL = 'exploration'
WAYS = ['name', 'path', 'relocated']
CONTENT_KEYS = ('groups', 'n_patterns', 'n_descriptors', 'pattern_names',
                'remaps', 'uq')
BOUND = {t: '9 libraries x 3 ways of locating them (27 fresh processes) x every '
            'group x every property with data x the temperature grid of its '
            'range; every scheme fragment; every remap; every uncertainty entry; '
            'plus 9 fresh processes under pgradd_DATA_DIR = a relocated tree '
            'that differs from the bundled one, x 7 loads each (bundled file by '
            'path; all-files-marked copy by name and by path; 3 fresh directory '
            'names; 1 rotated bundled name) x every file read (2 to 9 data '
            'files + scheme.yaml per library, one marker each) x 6 content keys; '
            'wave 4: in the 9 by-name processes every group x the 5 further '
            'entry points (get_GoRT, get_H, get_S, get_G, get_Cp; default call '
            'shape) x the same temperature grid, and x all 8 entry points x 16 '
            'unit strings x 6 presentations of S_elements (where the entry '
            'point takes them) at one temperature (T_ref when the grid holds '
            'it, else the lowest grid temperature); in each of the 27 '
            'processes the history load - customise (every group with data by '
            'one of 11 kinds, 8 library-level kinds) - load by name - load by '
            'explicit path x 6 content keys'
            '; wave 5: every uncertainty-basis descriptor x 3 data slots '
            '(H_ref, S_ref, Cp table) on the loaded object and on the raw '
            'files; installed copies: %s of ancestor directory names over 8 '
            'names (%d fresh processes, package imported from '
            '<tmp>/<chain>/pgradd, no override) x 9 loads by name x (loaded, '
            'data directory, groups and uncertainty block as in the files, 6 '
            'content keys against the first dump of the shard); override '
            'moments: 3 plans (absent->B, A->B, A->removed) x %d moments (%d '
            'fresh processes) x 9 loads by name + the library only tree B '
            'has x the same observations' % (
                'every chain of length 1 and 2' if t == 'thorough' else
                'every chain of length 1',
                len(w5.install_chains(t)), len(w5.moment_indices(t)),
                3 * len(w5.moment_indices(t)))
         for t in ('quick', 'thorough')}
RULE = ('the space is finite and enumerated completely; a case is one (library, '
        'way, group, entry point, call shape, temperature) evaluation, one '
        'fragment, one remap rule or one uncertainty entry; in the '
        'differing-relocated-tree family a case is one load, one marker of one '
        'file, or one content key of one load compared with the bundled '
        'contents; in the customise-and-load-again family a case is one '
        'customisation (did it change the object it was applied to), one later '
        'load, or one content key of a later load compared with the first load '
        'of that process; in the installed-copy and override-moment '
        'families a case is one load by name, where it was read from, its '
        'group names / uncertainty block against the files, or one content '
        'key compared with the first dump of that library in the shard; in '
        'the uncertainty-basis clause a case is one (descriptor, data slot); '
        'non-trivial = everything except the by-name '
        'evaluation of a group through get_HoRT / get_SoR / get_CpoR')
ASSUMPTIONS = ['positive semi-definite: smallest eigenvalue >= -1e-9 x largest, '
               'by a cyclic Jacobi iteration written for this check',
               'a fragment is "readable" when the scheme loads and the '
               'reference reader accepts it or declares it outside its alphabet',
               'the files a load reads are library.yaml, scheme.yaml next to it '
               'and the transitive closure of `include:` lists (read with '
               'PyYAML); markers are an extra dimensionless group per data file '
               'and an extra remap rule in scheme.yaml, written by re-dumping '
               'the file with PyYAML (the re-read file must equal the original '
               'plus the marker, else the shard stops with an error)',
               'within the one process of a differing relocated tree the loads '
               'run in one fixed order (bundled path first); other orders are '
               'not enumerated',
               'a library name that is ABSENT from the relocated tree is not '
               'loaded: the property does not say whether that must fail',
               'the unit strings offered to get_H / get_S / get_G / get_Cp are '
               'the 16 of the gas-constant table they look their factor up in '
               '(get_H / get_G: without the trailing /K); only "finite plain '
               'number" is judged there, the value itself belongs to C07; the '
               'further entry points and call shapes are walked where the '
               'library is found by name, the two other ways keep the three '
               'plain entry points',
               'customise-and-load-again: the group-level kinds are dealt out '
               'over the groups in sorted-name order (group i gets kind i mod '
               '11, or the next kind that applies to it), so every group is '
               'customised by one kind and every kind reaches at least two '
               'groups of every library, but not every (group, kind) pair is '
               'walked; all customisations are applied before the two later '
               'loads (single customisations in isolation are not enumerated); '
               'a customisation that leaves its object unchanged is counted as '
               'history:customisation-without-effect and noted, not judged '
               '(none occurs on the shipped data)',
               'an uncertainty-basis descriptor "names an entry with data" when '
               'its thermochemical property set holds a reference enthalpy, a '
               'reference entropy or a non-empty heat-capacity table (loaded '
               'object: ND_H_ref / ND_S_ref not None, ND_Cp_data non-empty; '
               'files: key H_ref / S_ref / Cp_data or its ND_ spelling present, '
               'not null, not empty); an entry holding some but not all three '
               'is noted, not judged (none occurs on the shipped data)',
               'installed copies: the copy is made with shutil.copytree from '
               'the tree under test (same bytes), imported through sys.path; '
               'other ways of installing (symbolic links, zip archives, a '
               'renamed package directory) and other working directories are '
               'not enumerated',
               'override moments: the program changes the override through '
               'os.environ; nothing that needs the data directory (a load or '
               'scheme lookup by name) happens before the change - what must '
               'happen when the override changes AFTER the first such need is '
               'not judged (the directory is documented as remembered); trees '
               'A and B are byte-identical copies of the bundled data plus '
               'one extra library directory each, so only the location of '
               'library.yaml (lib.path) and the extra library tell the trees '
               'apart - which tree an included file came from is the business '
               'of the differing-relocated-tree family',
               'in both wave-5 families the nine loads of a process run in '
               'the bundled order rotated by the program number, so every '
               'library is the first load by name of at least one process per '
               'family (quick installed copies: of 8 of the 9), not of every '
               'process; "identical contents" is judged '
               'against the first dump of the same library within the shard '
               '(2 to 4 processes) and against the names and the uncertainty '
               'block the files declare']
MANIFEST = dict(
    technique='complete enumeration of the bundled configurations in fresh '
              'processes, differential across three ways of locating the data, '
              'across relocated trees that differ from the bundled one, '
              'across repeated loads within one process, across places the '
              'package is installed in and across moments at which the '
              'override is set',
    text='Each bundled library is loaded by name, by path and from a relocated '
         'copy (27 fresh processes); the complete content dumps must be '
         'identical; every group must evaluate to finite plain numbers for '
         'every property it has data for across its range - through '
         'get_HoRT / get_SoR / get_CpoR in all three ways, and where the '
         'library is found by name also through get_GoRT, get_H, get_S, get_G '
         'and get_Cp on the same grid and through every call shape of the '
         'eight entry points (16 unit strings x 6 presentations of S_elements) '
         'at one temperature; every scheme '
         'fragment must be readable; remaps must be well-formed and '
         'chain-free; every uncertainty-basis descriptor must have data and '
         'the matrix must be square, symmetric, positive semi-definite and '
         'sized to its basis. Every one of the 27 processes then customises '
         'the library object it got (Update(overwrite=True), correlation '
         'update / set_range / del_*, attribute and table assignment, '
         'replacing and deleting property sets and groups, adding a group, '
         'editing the scheme remaps / patterns / descriptors and the '
         'uncertainty block) and loads the same file again by name and by '
         'path: both must show what the first load showed. Nine further fresh '
         'processes select, through the '
         'override, a relocated tree that differs from the bundled one: every '
         'file a load reads carries its own marker (all must show up, by name '
         'and by path), the library is also present under three names the '
         'bundle does not have and under the name of the next bundled library; '
         'apart from the markers all contents must equal those of the bundled '
         'file loaded by path in the same process. Wave 5: the package '
         'directory is copied under every chain of ancestor directory names '
         '(8 names; quick length 1, thorough length <= 2) and imported from '
         'there without the override - all nine libraries must load by name '
         'from the data directory inside that copy; the override is put into '
         'the environment, replaced or removed by the program itself at '
         'every moment before the first load by name (3 plans x 3 moments, '
         'thorough 7) - all nine libraries and a library only the selected '
         'tree has must come from the tree named at that first load; every '
         'uncertainty-basis descriptor must name an entry that holds data in '
         'at least one of its three slots, on the loaded object and in the '
         'raw files.',
    note='The shipped data are the whole space; nothing is sampled.',
    ref='5/C14')

CHILD = r'''
import sys, os, json, math, warnings
sys.path.insert(0, %(repo)r)
dn = os.open(os.devnull, os.O_WRONLY)
real = os.fdopen(os.dup(1), 'w')
os.dup2(dn, 1); os.dup2(dn, 2)
sys.stdout = open(os.devnull, 'w')
warnings.simplefilter('ignore')
import numpy as np
import importlib
def environ_step(v):
    # what a program does to the override: point it at a tree / remove it
    if v is None:
        os.environ.pop('pgradd_DATA_DIR', None)
    else:
        os.environ['pgradd_DATA_DIR'] = v
# events of the program that precede the imports every process of this check
# makes (wave 5): ('import', module) / ('env', value or None)
for step in %(pre)r:
    if step[0] == 'import':
        importlib.import_module(step[1])
    else:
        environ_step(step[1])
import pgradd.ThermoChem
from pgradd.GroupAdd.Library import GroupLibrary
PKG = os.path.dirname(os.path.abspath(pgradd.__file__))
name = %(name)r
SHAPES_DEFAULT = %(shapes_default)r     # entry point -> [(label, units, how, value)]
SHAPES_FULL = %(shapes_full)r
NEEDS = %(needs)r                       # entry point -> (H, S, Cp, units kind, takes S_elements)
BASIC = %(basic)r
GROUP_KINDS = %(group_kinds)r
LIBRARY_KINDS = %(library_kinds)r
NEW_GROUP = %(new_group)r
NEW_REMAP = %(new_remap)r
LOADED = []                             # every library object obtained so far stays alive
def plain(v):
    return isinstance(v, (int, float, np.floating, np.integer)) and not isinstance(v, bool) and math.isfinite(float(v))
def invoke(k, entry, T, units, how, value):
    f = getattr(k, entry)
    args = (T,) if units is None else (T, units)
    if how == 'absent':
        return f(*args)
    if how == 'kw':
        return f(*args, S_elements=value)
    return f(*(args + (value,)))
def group_rec(ps):
    rec = dict(sets=sorted(ps))
    if 'thermochem' in ps:
        k = ps['thermochem']
        rng = k.get_range()
        rec.update(T_ref=repr(k.T_ref), H=repr(k.ND_H_ref), S=repr(k.ND_S_ref),
                   Cp=[(repr(T), repr(v)) for T, v in sorted(k.ND_Cp_data.items())],
                   range=None if rng is None else [repr(rng[0]), repr(rng[1])],
                   cls=type(k).__name__)
        try:
            rec['Hf'] = None if k.ND_H_ref is None else float(k.ND_H_ref)
        except Exception:
            rec['Hf'] = 'not-a-number'
    return rec
def dump(arg, with_evals):
    # with_evals: 0 no evaluation, 1 the three plain entry points on the
    # temperature grid, 2 in addition every other entry point on the grid in
    # its default call shape and every call shape at one temperature
    out = dict(name=name, arg=arg, pkg=PKG)
    try:
        lib = GroupLibrary.Load(arg)
    except Exception as e:
        out['load_error'] = '%%s: %%s' %% (type(e).__name__, str(e)[:300])
        LOADED.append(None)
        return out
    LOADED.append(lib)
    out['path'] = lib.path
    groups = {}
    evals = []
    for g in lib:
        ps = lib[g]
        rec = group_rec(ps)
        if 'thermochem' in ps:
            k = ps['thermochem']
            rng = k.get_range()
            knots = sorted(float(t) for t in k.ND_Cp_data)
            if rng is not None:
                ts = {float(rng[0]), float(rng[1]), 0.5 * (float(rng[0]) + float(rng[1]))}
                ts |= {t for t in knots if rng[0] <= t <= rng[1]}
                if rng[0] <= k.T_ref <= rng[1]:
                    ts.add(float(k.T_ref))
            else:
                ts = set(knots) | ({float(k.T_ref)} if (not knots or knots[0] <= k.T_ref <= knots[-1]) else set())
            have = (k.ND_H_ref is not None, k.ND_S_ref is not None, bool(k.ND_Cp_data))
            for prop, has in (('get_CpoR', bool(k.ND_Cp_data)), ('get_HoRT', k.ND_H_ref is not None),
                              ('get_SoR', k.ND_S_ref is not None)):
                if not has or not with_evals:
                    continue
                for T in sorted(ts):
                    try:
                        v = getattr(k, prop)(T)
                        ok = plain(v)
                        evals.append((str(g), prop, T, 'ok' if ok else 'not-plain-finite:%%r' %% (v,)))
                    except Exception as e:
                        evals.append((str(g), prop, T, 'raises:' + type(e).__name__))
            if with_evals == 2 and ts:
                def has_data(entry):
                    n = NEEDS[entry]
                    return all(h for h, need in zip(have, n[:3]) if need)
                def one(entry, label, T, units, how, value):
                    try:
                        v = invoke(k, entry, T, units, how, value)
                        evals.append((str(g), label, T, 'ok' if plain(v) else 'not-plain-finite:%%r' %% (v,)))
                    except Exception as e:
                        evals.append((str(g), label, T, 'raises:' + type(e).__name__))
                # (a) every further entry point, default call shape, whole grid
                for entry in sorted(NEEDS):
                    if entry in BASIC or not has_data(entry):
                        continue
                    for label, units, how, value in SHAPES_DEFAULT[entry]:
                        for T in sorted(ts):
                            one(entry, label, T, units, how, value)
                # (b) every call shape of every entry point at one temperature
                T1 = float(k.T_ref) if float(k.T_ref) in ts else min(ts)
                for entry in sorted(NEEDS):
                    if not has_data(entry):
                        continue
                    default = [s[0] for s in SHAPES_DEFAULT[entry]]
                    for label, units, how, value in SHAPES_FULL[entry]:
                        if label in default:
                            continue       # walked above on the whole grid
                        one(entry, label, T1, units, how, value)
        groups[str(g)] = rec
    out['groups'] = groups
    out['evals'] = evals
    sch = lib.scheme
    out['n_patterns'] = len(sch.patterns)
    out['n_descriptors'] = len(sch.other_descriptors)
    out['pattern_names'] = [(p['center_name'], p['periph_name']) for p in sch.patterns]
    out['remaps'] = {str(k): v for k, v in sch.remaps.items()}
    uq = lib.uq_contents
    if uq:
        m = uq['mat']
        out['uq'] = dict(descriptors=[str(x) for x in uq['descriptors']],
                         shape=list(m.shape), mat=[[float(x) for x in row] for row in m.tolist()] if m.ndim == 2 else None,
                         dof=uq['dof'], rmse=sorted(uq['RMSE']))
        out['uq_basis_with_data'] = [bool('thermochem' in lib[x]) for x in uq['descriptors']]
        # wave 5: the three places a thermochemical property set keeps data in
        def slots(x):
            if 'thermochem' not in lib[x]:
                return None
            k = lib[x]['thermochem']
            return [k.ND_H_ref is not None, k.ND_S_ref is not None, bool(k.ND_Cp_data)]
        out['uq_basis_slots'] = [slots(x) for x in uq['descriptors']]
    return out
def customise(index):
    # change, through every route a caller has, the library object that load
    # number `index` of this process returned; report per group / per
    # library-level kind whether the object now shows the change
    from pgradd.ThermoChem import ThermochemGroup
    from pgradd.GroupAdd.Group import Group
    lib = LOADED[index]
    out = dict(customised=index, groups=[], library=[])
    if lib is None:
        out['skipped'] = 'that load failed'
        return out
    def other(k):
        return ThermochemGroup(ND_H_ref=-7.25, ND_S_ref=3.5, T_ref=k.T_ref)
    def apply(kind, g):
        ps = lib[g]
        k = ps['thermochem']
        if kind == 'Library.Update':
            lib.Update(GroupLibrary(lib.scheme, {g: {'thermochem': other(k)}}), overwrite=True)
        elif kind == 'correlation.update':
            k.update(other(k), overwrite=True)
        elif kind == 'set_range':
            rng = k.get_range()
            k.set_range((250.0, 350.0) if rng is None else (rng[0] / 2.0, rng[1] + 1.0))
        elif kind == 'del_ND_H_ref':
            if k.ND_H_ref is None:
                raise LookupError('nothing to delete')
            k.del_ND_H_ref()
        elif kind == 'del_ND_S_ref':
            if k.ND_S_ref is None:
                raise LookupError('nothing to delete')
            k.del_ND_S_ref()
        elif kind == 'del_ND_Cp':
            if not k.ND_Cp_data:
                raise LookupError('nothing to delete')
            k.del_ND_Cp(sorted(k.ND_Cp_data)[0])
        elif kind == 'assign-attributes':
            k.ND_H_ref = -7.25
            k.ND_S_ref = 3.5
            k.T_ref = k.T_ref + 1.0
        elif kind == 'Cp-table-item':
            k.ND_Cp_data[1234.5] = 9.0
        elif kind == 'replace-correlation':
            ps['thermochem'] = other(k)
        elif kind == 'delete-property-set':
            del ps['thermochem']
        elif kind == 'delete-group':
            del lib.contents[g]
        else:
            raise AssertionError(kind)
    todo = sorted((g for g in lib if 'thermochem' in lib[g]), key=str)
    for i, g in enumerate(todo):
        before = group_rec(lib[g])
        done = None
        for j in range(len(GROUP_KINDS)):
            kind = GROUP_KINDS[(i + j) %% len(GROUP_KINDS)]
            try:
                apply(kind, g)
                done = kind
                break
            except Exception:
                continue
        try:
            after = group_rec(lib[g]) if g in lib.contents else 'absent'
        except Exception:
            after = 'cannot be dumped any more'
        out['groups'].append((str(g), done, after != before))
    def lib_level(kind):
        sch, uq = lib.scheme, lib.uq_contents
        if kind == 'add-group':
            g = Group.parse(sch, NEW_GROUP)
            lib.Update(GroupLibrary(sch, {g: {'thermochem': ThermochemGroup(
                ND_H_ref=1.0, ND_S_ref=1.0, T_ref=300.0)}}))
            return g in lib.contents
        if kind == 'scheme-add-remap':
            sch.remaps[NEW_REMAP] = [[1, NEW_GROUP]]
            return NEW_REMAP in sch.remaps
        if kind == 'scheme-extend-remap':
            if not sch.remaps:
                return None
            first = sorted(sch.remaps, key=str)[0]
            n = len(sch.remaps[first])
            sch.remaps[first].append([1, NEW_GROUP])
            return len(sch.remaps[first]) == n + 1
        if kind == 'scheme-drop-pattern':
            n = len(sch.patterns)
            sch.patterns.pop()
            return len(sch.patterns) == n - 1
        if kind == 'scheme-drop-descriptor':
            if not sch.other_descriptors:
                return None
            n = len(sch.other_descriptors)
            sch.other_descriptors.pop()
            return len(sch.other_descriptors) == n - 1
        if not uq:
            return None
        if kind == 'uq-matrix-entry':
            x = float(uq['mat'][0, 0])
            uq['mat'][0, 0] += 1.0
            return float(uq['mat'][0, 0]) != x
        if kind == 'uq-basis-order':
            x = list(uq['descriptors'])
            uq['descriptors'].reverse()
            return list(uq['descriptors']) != x
        if kind == 'uq-dof':
            x = uq['dof']
            uq['dof'] += 1
            return uq['dof'] != x
        raise AssertionError(kind)
    for kind in LIBRARY_KINDS:
        try:
            out['library'].append((kind, lib_level(kind)))
        except Exception as e:
            out['library'].append((kind, 'raises %%s: %%s' %% (type(e).__name__, str(e)[:200])))
    return out
# the steps of one process, in the order given (the data directory is
# resolved by the first load and remembered for the others)
outs = []
for job in %(jobs)r:
    if job[0] == 'load':
        # frozen at once: what is reported must not alias objects that a
        # later step changes
        outs.append(json.loads(json.dumps(dump(job[1], job[2]))))
    elif job[0] == 'env':
        environ_step(job[1])
        outs.append(dict(env=job[1], pkg=PKG))
    else:
        try:
            outs.append(customise(job[1]))
        except Exception as e:
            outs.append(dict(skipped='customising raised %%s: %%s' %% (type(e).__name__, str(e)[:300])))
real.write(json.dumps(outs)); real.flush(); os._exit(0)
'''


def _child_tables():
    needs = dict(w4.ENTRY_POINTS)
    return dict(
        shapes_default=dict((e, w4.call_shapes(e, False)) for e in needs),
        shapes_full=dict((e, w4.call_shapes(e, True)) for e in needs),
        needs=needs, basic=tuple(w4.BASIC),
        group_kinds=[k for k, _ in w4.GROUP_CUSTOMISATIONS],
        library_kinds=[k for k, _ in w4.LIBRARY_CUSTOMISATIONS],
        new_group=w4.NEW_GROUP, new_remap=w4.NEW_REMAP)


def children(name, jobs, data_dir_override=None, pre=(), repo=None):
    # One fresh process; `jobs` = steps executed in that order, each either
    #   (argument of GroupLibrary.Load, evaluation level 0/1/2)    a load, or
    #   ('customise', i)      change the object load number i returned, or
    #   ('env', value)        os.environ[override] = value / removed when None.
    # `pre` = steps executed BEFORE the imports every process makes:
    #   ('import', module) / ('env', value).  `repo` = the directory put first
    #   on sys.path (default: the tree under test).
    # Returns one dump per step.
    env = dict(os.environ)
    env.pop('pgradd_DATA_DIR', None)
    if data_dir_override is not None:
        env['pgradd_DATA_DIR'] = data_dir_override
    steps = []
    for a, e in jobs:
        if a == 'customise':
            steps.append(('customise', int(e)))
        elif a == 'env':
            steps.append(('env', e))
        else:
            steps.append(('load', a, int(e)))
    code = CHILD % dict(_child_tables(), repo=repo or REPO, name=name, jobs=steps,
                        pre=[tuple(x) for x in pre])
    p = subprocess.run([sys.executable, '-c', code], env=env, stdout=subprocess.PIPE,
                       stderr=subprocess.PIPE, timeout=900)
    try:
        outs = json.loads(p.stdout.decode())
        assert isinstance(outs, list) and len(outs) == len(jobs)
        return outs
    except Exception:      # noqa
        return [dict(load_error='child produced no result (rc=%s): %s' % (
            p.returncode, p.stderr.decode(errors='replace')[-400:]))
            for _ in jobs]


def child(name, way, relocated_dir=None):
    """The fresh process of one (library, way): the load that is judged (with
    every evaluation), then the history `customise what that load returned,
    load the same file again by name and by explicit path`."""
    bundled = os.path.join(libs.data_dir(), name, 'library.yaml')
    if way == 'name':
        arg, again_path = name, bundled
    elif way == 'path':
        arg, again_path = bundled, bundled
    else:
        arg, again_path = name, os.path.join(relocated_dir, name, 'library.yaml')
    # all eight entry points in all call shapes where the library is found by
    # name; the three plain ones in the two other ways (as before)
    jobs = [(arg, 2 if way == 'name' else 1), ('customise', 0),
            (name, 0), (again_path, 0)]
    return children(name, jobs, relocated_dir if way == 'relocated' else None)


def identity(name):
    """(centre, sorted multiset of peripherals) of a group name - own parser."""
    import re
    parts = re.split(r'[()]', str(name))
    centre, per, last = parts[0], [], None
    for p in parts[1:]:
        if not p:
            continue
        if p.isdigit() and last is not None:
            per.extend([last] * (int(p) - 1))
            last = None
        else:
            per.append(p)
            last = p
    return (centre, tuple(sorted(per)))


def raw_expectation(path, seen=None, slots=None):
    """Union of group / descriptor names, and the UQ block, declared by a
    library file and everything it includes (PyYAML, no pgradd).  When a
    dict is passed as `slots` it receives, per group identity, the list of
    (has H_ref, has S_ref, has Cp_data) of every record written under that
    identity (None for a record without a thermochemical property set)."""
    import yaml
    seen = seen if seen is not None else set()
    if path in seen:
        return set(), None
    seen.add(path)
    d = yaml.safe_load(open(path)) or {}
    groups = set(identity(g) for g in (d.get('groups') or {}))
    groups |= set((str(g), ()) if '(' not in str(g) else identity(g)
                  for g in (d.get('other_descriptors') or {}))
    if slots is not None:
        for sec in ('groups', 'other_descriptors'):
            for g, rec in (d.get(sec) or {}).items():
                ident = (str(g), ()) if (sec == 'other_descriptors' and
                                         '(' not in str(g)) else identity(g)
                slots.setdefault(ident, []).append(w5.raw_slots(rec))
    uq = d.get('UQ') or None
    for inc in d.get('include') or []:
        g2, u2 = raw_expectation(os.path.join(os.path.dirname(path), inc), seen, slots)
        groups |= g2
        uq = uq or u2
    return groups, uq


def judge_history(R, name, way, first, custom, again_name, again_path):
    """One process: `first` = the load that was judged; then the object it
    returned was customised (report `custom`); then the same file was loaded
    again by name and by explicit path.  Both later loads must show the
    contents the first load showed before it was customised."""
    hist = ['Load(%r)' % first.get('arg'), 'customise that object (all kinds)']
    if 'load_error' in custom or custom.get('skipped'):
        R.outcomes['history:not-run'] += 1
        R.notes.append('%s (%s): history not run: %s' % (
            name, way, custom.get('load_error') or custom.get('skipped')))
        return
    # harness self-check: which customisations changed the object they were
    # applied to (a customisation without effect proves nothing)
    for g, kind, changed in custom['groups']:
        R.evals += 1
        R.nontrivial += 1
        if kind is not None and changed:
            R.outcomes['history:customised:' + kind] += 1
        else:
            R.outcomes['history:customisation-without-effect'] += 1
            R.notes.append('%s (%s): customisation %r of %s had no effect' % (
                name, way, kind, g))
    for kind, res in custom['library']:
        R.evals += 1
        R.nontrivial += 1
        if res is True:
            R.outcomes['history:customised:' + kind] += 1
        elif res is None:
            R.outcomes['history:not-applicable:' + kind] += 1
        else:
            R.outcomes['history:customisation-without-effect'] += 1
            R.notes.append('%s (%s): library-level customisation %r: %r' % (
                name, way, kind, res))
    for label, d in (('name', again_name), ('path', again_path)):
        wit = dict(kind='lib', lib=name, way=way,
                   history=hist + ['Load(%r)' % d.get('arg')])
        R.evals += 1
        R.nontrivial += 1
        if 'load_error' in d:
            R.outcomes['history:reload-failed'] += 1
            R.violation('reload-after-customisation-failed:%s' % label,
                        '%s: in the process that first loaded it by %s and then '
                        'customised the object it got, loading it again by %s '
                        'failed: %s' % (name, way, label, d['load_error']), wit)
            continue
        R.outcomes['history:reloaded:' + label] += 1
        for key in CONTENT_KEYS:
            R.evals += 1
            R.nontrivial += 1
            if d.get(key) != first.get(key):
                diff = ''
                if key == 'groups':
                    ks = sorted(set(d['groups']) ^ set(first['groups'])) or \
                        [g for g in first['groups']
                         if first['groups'][g] != d['groups'].get(g)]
                    diff = ' (%d groups differ, first: %s)' % (len(ks), ks[:2])
                R.outcomes['history:contents-differ'] += 1
                R.violation('reload-after-customisation-differs:%s' % key,
                            '%s: loaded by %s, the returned object customised, then '
                            'Load(%r) in the same process: %s is not what the '
                            'first load showed%s' % (name, way, d.get('arg'), key, diff),
                            wit)
            else:
                R.outcomes['history:contents-identical'] += 1


def run_library(R, name):
    import yaml
    tmp = tempfile.mkdtemp(prefix='pgv_c14_')
    try:
        reloc = os.path.join(tmp, 'relocated_data')
        shutil.copytree(libs.data_dir(), reloc)
        dumps = {}
        for way in WAYS:
            d, custom, again_name, again_path = child(name, way, reloc)
            dumps[way] = d
            wit = dict(kind='lib', lib=name, way=way)
            R.evals += 1
            R.nontrivial += 1
            if 'load_error' in d:
                R.outcomes['load-failed'] += 1
                R.violation('load-failed:%s' % way, '%s cannot be loaded (%s): %s'
                            % (name, way, d['load_error']), wit)
                continue
            R.outcomes['loaded:' + way] += 1
            if way == 'relocated' and not os.path.realpath(d['path']).startswith(
                    os.path.realpath(reloc)):
                R.violation('relocation-ignored', '%s with pgradd_DATA_DIR=%s was '
                            'loaded from %s' % (name, reloc, d['path']), wit)
            for g, prop, T, res in d['evals']:
                R.evals += 1
                if way != 'name' or prop not in w4.BASIC:
                    R.nontrivial += 1
                if prop not in w4.BASIC:
                    R.extra['entry_point_evaluations'] += 1
                if res == 'ok':
                    R.outcomes['eval:finite'] += 1
                else:
                    R.outcomes['eval:' + res.split(':')[0]] += 1
                    R.violation('eval:%s:%s' % (res.split(':')[0], prop.split('(')[0]),
                                '%s[%s].%s at T=%r -> %s' % (name, g, prop, T, res),
                                dict(wit, group=g))
            judge_history(R, name, way, d, custom, again_name, again_path)
        ok = [w for w in WAYS if 'load_error' not in dumps[w]]
        for w in ok[1:]:
            a, b = dumps[ok[0]], dumps[w]
            for key in ('groups', 'n_patterns', 'n_descriptors', 'pattern_names',
                        'remaps', 'uq'):
                R.evals += 1
                R.nontrivial += 1
                if a.get(key) != b.get(key):
                    diff = ''
                    if key == 'groups':
                        ks = sorted(set(a['groups']) ^ set(b['groups'])) or \
                            [g for g in a['groups'] if a['groups'][g] != b['groups'].get(g)]
                        diff = ' (first difference: %s)' % ks[:2]
                    R.outcomes['contents-differ'] += 1
                    R.violation('contents-differ:%s' % key,
                                '%s: %s differs between loading by %s and by %s%s'
                                % (name, key, ok[0], w, diff),
                                dict(kind='lib', lib=name, way=w))
                else:
                    R.outcomes['contents-identical'] += 1
        if not ok:
            return
        d = dumps[ok[0]]
        R.sample(dict(library=name, groups=len(d['groups']), evaluations=len(d['evals']),
                      patterns=d['n_patterns'], remaps=len(d['remaps']),
                      uq=bool(d.get('uq'))), limit=1)
        # independent expectation from the raw files: which groups and which
        # uncertainty block the library.yaml and everything it includes declare
        file_slots = {}
        want_groups, want_uq = raw_expectation(os.path.join(libs.data_dir(), name,
                                                            'library.yaml'),
                                               slots=file_slots)
        have = set(identity(g) for g in d['groups'])
        R.evals += len(want_groups) + 1
        R.nontrivial += len(want_groups) + 1
        if have != want_groups:
            R.violation('groups-differ-from-files',
                        '%s: loaded library lacks %s / has extra %s compared with '
                        'the group names written in its files' % (
                            name, sorted(want_groups - have)[:4], sorted(have - want_groups)[:4]),
                        dict(kind='lib', lib=name, way=ok[0]))
        else:
            R.outcomes['groups-as-declared'] += 1
        if want_uq is not None:
            got = d.get('uq')
            bad = None
            if not got:
                bad = 'the files declare an uncertainty block but the loaded library has none'
            elif [str(x) for x in want_uq['InvCovMat']['groups']] != got['descriptors']:
                bad = 'uncertainty basis differs from the file'
            elif got['mat'] is None or any(
                    abs(float(a) - float(b)) > 1e-12 for ra, rb in
                    zip(want_uq['InvCovMat']['mat'], got['mat']) for a, b in zip(ra, rb)):
                bad = 'uncertainty matrix differs from the file'
            elif got['dof'] != want_uq['DOF']:
                bad = 'degrees of freedom differ from the file'
            if bad:
                R.violation('uq-differs-from-files', '%s: %s' % (name, bad),
                            dict(kind='lib', lib=name, way=ok[0]))
            else:
                R.outcomes['uq-as-declared'] += 1
        elif d.get('uq'):
            R.violation('uq-not-in-files', '%s: loaded library has an uncertainty '
                        'block that no file declares' % name,
                        dict(kind='lib', lib=name, way=ok[0]))
        # scheme fragments (read again by the independent reader)
        sd = yaml.safe_load(open(os.path.join(libs.data_dir(), name, 'scheme.yaml')))
        for sec in ('patterns', 'other_descriptors'):
            for e in sd.get(sec) or []:
                R.evals += 1
                try:
                    ringref.parse_fragment(e['connectivity'])
                    R.outcomes['fragment:readable'] += 1
                except NotImplementedError:
                    R.outcomes['fragment:outside-reference-alphabet'] += 1
                except Exception as ex:      # noqa
                    R.outcomes['fragment:unreadable'] += 1
                    R.violation('fragment-unreadable', '%s scheme %s %r: %s' % (
                        name, sec, e.get('name') or e.get('center_name'), ex),
                        dict(kind='lib', lib=name, way='name'))
        # remaps
        rm = d['remaps']
        for k, v in rm.items():
            R.evals += 1
            R.nontrivial += 1
            bad = None
            if not isinstance(v, list) or not v:
                bad = 'is not a non-empty list'
            else:
                for x in v:
                    if not (isinstance(x, list) and len(x) == 2 and
                            isinstance(x[0], (int, float)) and not isinstance(x[0], bool)
                            and isinstance(x[1], str)):
                        bad = 'entry %r is not [number, name]' % (x,)
                        break
                    if x[1] in rm:
                        bad = 'target %r is itself a remap source (chain)' % x[1]
                        break
            R.outcomes['remap:' + ('ok' if not bad else 'bad')] += 1
            if bad:
                R.violation('remap-malformed', '%s remap %r: %s' % (name, k, bad),
                            dict(kind='lib', lib=name, way='name'))
        # uncertainty block
        uq = d.get('uq')
        if uq:
            wit = dict(kind='lib', lib=name, way='name')
            n = len(uq['descriptors'])
            R.evals += n + 3
            R.nontrivial += n + 3
            for x, has in zip(uq['descriptors'], d['uq_basis_with_data']):
                if not has:
                    R.violation('uq-basis-without-data', '%s: uncertainty basis '
                                'descriptor %r has no thermochemical data' % (name, x), wit)
            # wave 5: "names an entry WITH DATA" - a thermochemical property
            # set that holds neither a reference enthalpy, nor a reference
            # entropy, nor a heat-capacity table is not data.  Walked per
            # (descriptor, slot), on the loaded object and on the files.
            slot_names = [s_ for s_, _ in w5.DATA_SLOTS]
            for x, sl in zip(uq['descriptors'], d['uq_basis_slots']):
                R.evals += len(slot_names)
                R.nontrivial += len(slot_names)
                if sl is None:
                    R.outcomes['uq-basis:no-property-set'] += 1     # judged above
                    continue
                for s_, has in zip(slot_names, sl):
                    R.outcomes['uq-basis:%s:%s' % (s_, 'present' if has else 'absent')] += 1
                if not any(sl):
                    R.violation('uq-basis-without-data', '%s: uncertainty basis '
                                'descriptor %r names an entry whose thermochemical '
                                'property set holds no data (no H_ref, no S_ref, no '
                                'heat-capacity table)' % (name, x), wit)
                elif not all(sl):
                    R.outcomes['uq-basis:partial-data'] += 1
                    R.notes.append('%s: uncertainty basis descriptor %r has data for '
                                   '%s only (noted, not judged)' % (
                                       name, x, [s_ for s_, h in zip(slot_names, sl) if h]))
            # the same walk over the raw files (PyYAML only): the union of
            # the records written under the identity the basis name spells
            for x in (want_uq or {}).get('InvCovMat', {}).get('groups', []):
                R.evals += len(slot_names)
                R.nontrivial += len(slot_names)
                recs = file_slots.get(identity(x)) or file_slots.get((str(x), ()))
                got = [r for r in (recs or []) if r is not None]
                if not recs:
                    R.outcomes['uq-basis-in-files:no-record'] += 1
                    R.violation('uq-basis-without-data:in-files', '%s: the files '
                                'declare the uncertainty basis descriptor %r but no '
                                'group or descriptor record of that name' % (name, x), wit)
                elif not any(any(r) for r in got):
                    R.outcomes['uq-basis-in-files:no-data'] += 1
                    R.violation('uq-basis-without-data:in-files', '%s: the record the '
                                'files give for the uncertainty basis descriptor %r '
                                'holds no data (H_ref, S_ref, Cp_data all absent, '
                                'null or empty)' % (name, x), wit)
                else:
                    R.outcomes['uq-basis-in-files:with-data'] += 1
            if len(set(uq['descriptors'])) != n:
                R.violation('uq-basis-duplicates', '%s: duplicate basis entries' % name, wit)
            M = uq['mat']
            if M is None or uq['shape'] != [n, n]:
                R.violation('uq-shape', '%s: matrix shape %r for a basis of %d' % (
                    name, uq['shape'], n), wit)
            else:
                scale = max(abs(v) for row in M for v in row)
                asym = max(abs(M[i][j] - M[j][i]) for i in range(n) for j in range(n))
                if asym > 1e-9 * scale:
                    R.violation('uq-asymmetric', '%s: matrix asymmetry %r' % (name, asym), wit)
                else:
                    lam = tr.jacobi_min_eig(M)
                    R.extra['max_uq_matrix_size'] = n
                    if lam < -1e-9 * scale:
                        R.violation('uq-not-psd', '%s: smallest eigenvalue %r' % (name, lam), wit)
                    else:
                        R.outcomes['uq:consistent'] += 1
    finally:
        shutil.rmtree(tmp, ignore_errors=True)


def run_variants(R, name):
    """Relocated trees that differ from the bundled one (domains/w3_c14):
    one fresh process with pgradd_DATA_DIR = the tree of `name`, in which,
    in this order, are loaded
      anchor        the BUNDLED library.yaml by explicit path (the override
                    must not touch a load by path) - every other dump is
                    compared with this one;
      marked:name   `name`, every file that is read carrying a marker;
      marked:path   the marked library.yaml of the tree by explicit path;
      fresh:<n>     the unmarked copy under each fresh directory name;
      rotated:<n>   the unmarked copy under the name of the next bundled
                    library.
    """
    tmp = tempfile.mkdtemp(prefix='pgv_c14v_')
    try:
        root = os.path.join(tmp, 'moved', 'data')
        os.makedirs(os.path.dirname(root))
        desc = w3.build_tree(root, name)
        bundled = os.path.join(libs.data_dir(), name, 'library.yaml')
        cases = [('anchor', 'anchor', bundled),
                 ('marked', 'marked:name', name),
                 ('marked', 'marked:path', os.path.join(root, name, 'library.yaml'))]
        cases += [('fresh', 'fresh:' + n, n) for n in desc['fresh']]
        cases += [('rotated', 'rotated:' + n, n) for n in desc['rotated']]
        outs = children(name, [(arg, False) for _, _, arg in cases], root)

        def wit(label):
            return dict(kind='variants', lib=name, variant=label)
        a = outs[0]
        R.evals += 1
        R.nontrivial += 1
        if 'load_error' in a:
            R.outcomes['variants:anchor-failed'] += 1
            R.violation('override-breaks-load-by-path', '%s: with pgradd_DATA_DIR=%s '
                        'the bundled %s cannot be loaded by explicit path: %s'
                        % (name, root, bundled, a['load_error']), wit('anchor'))
            return
        R.outcomes['variants:anchor-loaded'] += 1
        if os.path.realpath(a['path']) != os.path.realpath(bundled):
            R.violation('override-redirects-load-by-path', '%s: explicit path %s '
                        'loaded from %s while pgradd_DATA_DIR=%s' % (
                            name, bundled, a['path'], root), wit('anchor'))
        marks = desc['marked']
        for (kind, label, arg), d in zip(cases[1:], outs[1:]):
            R.evals += 1
            R.nontrivial += 1
            if 'load_error' in d:
                R.outcomes['variants:load-failed'] += 1
                R.violation('relocated-variant-load-failed:%s' % kind,
                            '%s: Load(%r) with pgradd_DATA_DIR=%s (a relocated tree '
                            'that differs from the bundled one: %s) failed: %s'
                            % (name, arg, root, label, d['load_error']), wit(label))
                continue
            R.outcomes['variants:loaded:' + kind] += 1
            if not os.path.realpath(d['path']).startswith(
                    os.path.realpath(root) + os.sep):
                R.violation('relocated-variant-ignored:%s' % kind,
                            '%s: Load(%r) with pgradd_DATA_DIR=%s was loaded from %s'
                            % (name, arg, root, d['path']), wit(label))
            want = dict((k, a.get(k)) for k in CONTENT_KEYS)
            if kind == 'marked':
                # every file that was read must show its marker ...
                for rel, mname, val in marks['files']:
                    R.evals += 1
                    R.nontrivial += 1
                    rec = d['groups'].get(mname)
                    if rec is None:
                        R.outcomes['variants:marker-missing'] += 1
                        R.violation('relocated-file-not-read:data',
                                    '%s (%s): the marker group %s written into %s of '
                                    'the relocated tree is missing from the loaded '
                                    'library: that file was read from somewhere else'
                                    % (name, label, mname, rel), wit(label))
                    elif rec.get('Hf') != val or rec.get('sets') != ['thermochem']:
                        R.outcomes['variants:marker-wrong'] += 1
                        R.violation('relocated-marker-wrong',
                                    '%s (%s): marker group %s of %s should carry '
                                    'ND_H_ref %r, the loaded library shows %r'
                                    % (name, label, mname, rel, val, rec), wit(label))
                    else:
                        R.outcomes['variants:marker-seen'] += 1
                R.evals += 1
                R.nontrivial += 1
                if d['remaps'].get(marks['scheme_mark']) != marks['scheme_target']:
                    R.outcomes['variants:marker-missing'] += 1
                    R.violation('relocated-file-not-read:scheme',
                                '%s (%s): the marker remap rule %s written into '
                                'scheme.yaml of the relocated tree is %r in the loaded '
                                'scheme: scheme.yaml was read from somewhere else'
                                % (name, label, marks['scheme_mark'],
                                   d['remaps'].get(marks['scheme_mark'])), wit(label))
                else:
                    R.outcomes['variants:marker-seen'] += 1
                # ... and nothing else may differ from the bundled contents
                names = set(m for _, m, _ in marks['files'])
                got = dict((k, d.get(k)) for k in CONTENT_KEYS)
                got['groups'] = dict((g, r) for g, r in d['groups'].items()
                                     if g not in names)
                got['remaps'] = dict((k, v) for k, v in d['remaps'].items()
                                     if k != marks['scheme_mark'])
            else:
                got = dict((k, d.get(k)) for k in CONTENT_KEYS)
            for key in CONTENT_KEYS:
                R.evals += 1
                R.nontrivial += 1
                if got[key] != want[key]:
                    diff = ''
                    if key == 'groups':
                        ks = sorted(set(got['groups']) ^ set(want['groups'])) or \
                            [g for g in want['groups']
                             if want['groups'][g] != got['groups'].get(g)]
                        diff = ' (first difference: %s)' % ks[:2]
                    R.outcomes['variants:contents-differ'] += 1
                    R.violation('relocated-variant-contents-differ:%s:%s' % (kind, key),
                                '%s: %s of Load(%r) from the relocated tree (%s) '
                                'differs from the bundled library%s'
                                % (name, key, arg, label, diff), wit(label))
                else:
                    R.outcomes['variants:contents-identical'] += 1
        R.sample(dict(library=name, relocated_variants=[c[1] for c in cases],
                      marked_files=[f[0] for f in marks['files']] + ['scheme.yaml']),
                 limit=1)
    finally:
        shutil.rmtree(tmp, ignore_errors=True)


# ------------------------------------------------------------------ wave 5
# Two more things a caller controls about "by name" and "the override":
# where the package itself lives, and when the override enters the
# environment (alphabets in domains/w5_c14).

_RAW = {}


def bundled_expectation(name):
    """Group identities and uncertainty block the bundled files of `name`
    declare (PyYAML; read once per worker - the files do not change)."""
    key = (libs.data_dir(), name)
    if key not in _RAW:
        _RAW[key] = raw_expectation(os.path.join(libs.data_dir(), name, 'library.yaml'))
    return _RAW[key]


def judge_located(R, fam, what, wit, loads, root, reference):
    """Loads by name made by ONE process of a wave-5 family.
    loads = [(bundled library whose contents are expected, argument, dump)],
    root = the data directory every one of them must have been read from,
    reference = {library: (who, dump)} the first dump of each library seen in
    this shard (all others are compared with it)."""
    for lib, arg, d in loads:
        R.evals += 1
        R.nontrivial += 1
        if 'load_error' in d:
            R.outcomes[fam + ':load-failed'] += 1
            R.violation('%s:load-failed' % fam, '%s: Load(%r) failed: %s'
                        % (what, arg, d['load_error']), wit)
            continue
        R.outcomes[fam + ':loaded'] += 1
        R.evals += 1
        R.nontrivial += 1
        if not os.path.realpath(d['path']).startswith(os.path.realpath(root) + os.sep):
            R.outcomes[fam + ':wrong-data-directory'] += 1
            R.violation('%s:wrong-data-directory' % fam,
                        '%s: Load(%r) was read from %s, not from the data '
                        'directory %s' % (what, arg, d['path'], root), wit)
        else:
            R.outcomes[fam + ':right-data-directory'] += 1
        # the files say which groups and which uncertainty block
        want_groups, want_uq = bundled_expectation(lib)
        have = set(identity(g) for g in d['groups'])
        R.evals += 2
        R.nontrivial += 2
        if have != want_groups:
            R.outcomes[fam + ':groups-differ-from-files'] += 1
            R.violation('%s:groups-differ-from-files' % fam,
                        '%s: Load(%r) lacks %s / has extra %s compared with the '
                        'group names written in the files of %s' % (
                            what, arg, sorted(want_groups - have)[:4],
                            sorted(have - want_groups)[:4], lib), wit)
        else:
            R.outcomes[fam + ':groups-as-declared'] += 1
        got = d.get('uq')
        if want_uq is None:
            bad = 'an uncertainty block that no file declares' if got else None
        elif not got:
            bad = 'no uncertainty block although the files declare one'
        elif [str(x) for x in want_uq['InvCovMat']['groups']] != got['descriptors'] \
                or got['dof'] != want_uq['DOF'] or got['mat'] is None or any(
                    abs(float(a) - float(b)) > 1e-12 for ra, rb in
                    zip(want_uq['InvCovMat']['mat'], got['mat']) for a, b in zip(ra, rb)):
            bad = 'an uncertainty block that differs from the one in the files'
        else:
            bad = None
        if bad:
            R.outcomes[fam + ':uq-differs-from-files'] += 1
            R.violation('%s:uq-differs-from-files' % fam,
                        '%s: Load(%r) shows %s' % (what, arg, bad), wit)
        else:
            R.outcomes[fam + ':uq-as-declared'] += 1
        # identical contents: against the first dump of this library that a
        # process of this shard produced
        if lib not in reference:
            reference[lib] = (what, d)
            continue
        who, a = reference[lib]
        for key in CONTENT_KEYS:
            R.evals += 1
            R.nontrivial += 1
            if a.get(key) != d.get(key):
                diff = ''
                if key == 'groups':
                    ks = sorted(set(a['groups']) ^ set(d['groups'])) or \
                        [g for g in a['groups'] if a['groups'][g] != d['groups'].get(g)]
                    diff = ' (first difference: %s)' % ks[:2]
                R.outcomes[fam + ':contents-differ'] += 1
                R.violation('%s:contents-differ:%s' % (fam, key),
                            '%s: %s of Load(%r) differs from what [%s] showed for '
                            'the same library%s' % (what, key, arg, who, diff), wit)
            else:
                R.outcomes[fam + ':contents-identical'] += 1


def run_installed(R, programs):
    """Installed copies: for every (chain of ancestor directory names, index)
    the package directory is copied to <tmp>/<chain>/pgradd, a fresh process
    without the override imports it from there and loads every library by
    name (bundled order rotated by index).  Every load must succeed, must
    have been read from the data directory inside THAT copy, must show the
    groups and uncertainty block its files declare, and the same contents as
    in the other processes of the shard."""
    programs = [(tuple(c), int(i)) for c, i in programs]
    wit0 = dict(kind='installed', programs=[[list(c), i] for c, i in programs])
    tmp = tempfile.mkdtemp(prefix='pgv_c14i_')
    try:
        reference = {}
        for n, (chain, idx) in enumerate(programs):
            base = os.path.join(tmp, 'p%d' % n)
            top = w5.install_copy(base, chain, REPO)
            pkg = os.path.join(top, w5.PACKAGE)
            order = w5.rotation(idx)
            outs = children('*', [(L, 0) for L in order], None, repo=top)
            for d in outs:
                if 'pkg' in d and os.path.realpath(d['pkg']) != os.path.realpath(pkg):
                    raise RuntimeError('harness: the child imported %s, not the '
                                       'copy %s' % (d['pkg'], pkg))
            what = 'package copied to <tmp>/%s, no override' % '/'.join(chain + (w5.PACKAGE,))
            wit = dict(wit0, at=dict(chain=list(chain), loads=order))
            judge_located(R, 'installed-copy', what, wit,
                          list(zip(order, order, outs)),
                          os.path.join(pkg, 'data'), reference)
            R.extra['installed_copy_processes'] += 1
            R.sample(dict(installed_copy='/'.join(chain + (w5.PACKAGE,)),
                          loaded_by_name=order), limit=1)
    finally:
        shutil.rmtree(tmp, ignore_errors=True)


def run_moments(R, programs):
    """Override moments: for every (plan, moment, index) a fresh process of
    the tree under test starts with the override absent / naming tree A, the
    program lets the events of the moment happen, then points the override at
    tree B / removes it, and only then loads every library by name (bundled
    order rotated by index; then the library only tree B has).  Nothing
    needed the data directory before, so every load must come from the tree
    the environment names at the first load by name (the bundled one when
    the override was removed)."""
    programs = [tuple(int(x) for x in p) for p in programs]
    wit0 = dict(kind='override-moment', programs=[list(p) for p in programs])
    tmp = tempfile.mkdtemp(prefix='pgv_c14m_')
    try:
        trees = w5.build_override_trees(tmp, libs.data_dir())
        reference = {}
        for p, m, idx in programs:
            plabel, initial, change = w5.OVERRIDE_PLANS[p]
            mlabel, mods, all_imports, path_load = w5.MOMENTS[m]
            order = w5.rotation(idx)
            step = ('env', trees[change] if change else None)
            loads = [(L, L) for L in order]
            if change:
                loads.append((w5.ONLY_SOURCE, w5.ONLY_NAMES[change]))
            pre, jobs = [], []
            bundled = os.path.join(libs.data_dir(), order[0], 'library.yaml')
            if not all_imports:
                pre = [('import', mod) for mod in mods] + [step]
            else:
                if path_load:
                    jobs.append((bundled, 0))
                jobs.append(step)
            skip = len(jobs)
            jobs += [(arg, 0) for _, arg in loads]
            outs = children('*', jobs, trees[initial] if initial else None, pre=pre)
            what = 'override %s, %s' % (plabel, mlabel)
            history = (['start with override %s' % ('= tree ' + initial if initial else 'absent')]
                       + ['import ' + mod for mod in mods]
                       + (['every other import'] if all_imports else [])
                       + (['Load(%r)' % bundled] if path_load else [])
                       + ['override := %s' % ('tree ' + change if change else 'removed')]
                       + ['Load(%r)' % arg for _, arg in loads])
            wit = dict(wit0, at=dict(plan=plabel, moment=mlabel, history=history))
            if path_load:
                # the load by explicit path that precedes the change: must be
                # the bundled file whatever the override says
                d = outs[0]
                R.evals += 1
                R.nontrivial += 1
                if 'load_error' in d:
                    R.outcomes['override-moment:path-load-failed'] += 1
                    R.violation('override-moment:load-by-path-failed',
                                '%s: Load(%r) failed: %s' % (what, bundled, d['load_error']), wit)
                elif os.path.realpath(d['path']) != os.path.realpath(bundled):
                    R.violation('override-moment:load-by-path-redirected',
                                '%s: Load(%r) was read from %s' % (what, bundled, d['path']), wit)
                else:
                    R.outcomes['override-moment:path-load-ok'] += 1
                    reference.setdefault(order[0], (what + ' [the load by path]', d))
            judge_located(R, 'override-moment', what, wit,
                          [(lib, arg, d) for (lib, arg), d in zip(loads, outs[skip:])],
                          trees[change] if change else libs.data_dir(), reference)
            R.extra['override_moment_processes'] += 1
            R.sample(dict(override_moment=history), limit=1)
    finally:
        shutil.rmtree(tmp, ignore_errors=True)


def shards(tier, seed):
    # both tiers: the shipped data are the whole space; wave 5: the installed
    # copies and override moments of the tier (domains/w5_c14)
    return ([(n,) for n in libs.LIBS] + [('variants', n) for n in libs.LIBS]
            + [('installed', s) for s in w5.install_shards(tier)]
            + [('moments', s) for s in w5.moment_shards(tier)])


def run_shard(shard, tier):
    R = Result()
    if shard[0] == 'variants':
        run_variants(R, shard[1])
    elif shard[0] == 'installed':
        run_installed(R, shard[1])
    elif shard[0] == 'moments':
        run_moments(R, shard[1])
    else:
        run_library(R, shard[0])
    return R


def replay(w):
    R = Result()
    if w.get('kind') == 'variants':
        # one process loads all variants of a library in a fixed order; the
        # witness names the library, the whole process is re-run
        run_variants(R, w['lib'])
    elif w.get('kind') == 'installed':
        # the witness carries every program of its shard (the dumps of one
        # shard are compared with each other): all are re-run
        run_installed(R, w['programs'])
    elif w.get('kind') == 'override-moment':
        run_moments(R, w['programs'])
    else:
        run_library(R, w['lib'])
    return dict(violates=bool(R.violations),
                detail='\n'.join(v['msg'] for v in R.violations[:5]) or 'holds')
