"""C05 - correlations are thermodynamically consistent with their data.

Space  : the correlation family K of DESIGN.md section 4 (table size x spacing
         x value shape x T_ref placement x range x reference values), each
         table supplied in every order (N <= 4: all N!, else sorted, reversed,
         all rotations, even-odd interleave) through ThermochemRawData (list
         order), ThermochemIncomplete and ThermochemGroup (dict insertion
         order), and a ThermochemGroup assembled by update() (table first,
         reference values merged later); Cp also for float and integer arrays; plus every group of every shipped library.
         Third wave - the construction path of every shipped correlation:
         (a) every base member of K is also written as the YAML text of a
         library entry (non-dimensional form, numbers as repr) and read back
         through yaml_io as ThermochemRawData / Incomplete / Group;
         (b) family Y: the non-polynomial table (N per NY, spacing per
         SPACINGS_Y) x 7 T_ref placements (the six of K + 'default': 298.15 K
         with the T_ref line left out of the text) x {wide range, no range}
         x ALL 25 pairs of the reference-value alphabets of
         domains/w3_c05.py (0.0, -0.0, 1e-300, an ordinary value, 1e6), each
         built by the three constructors AND read from YAML by the three
         classes with the numbers spelled as repr / integer / %.17e and with
         the points listed in reversed order.
         Fourth wave - a correlation is a long-lived object that update()
         merges further pieces into, or REFUSES to (family U, alphabets in
         domains/w4_c05.py): receiver = ThermochemIncomplete / ThermochemGroup
         on the non-polynomial table (N and T_ref placements per NU, wide
         range) holding (H,S), H only, S only or neither; piece = 8 Cp parts
         (none, equal point, contradicting point, new point above / below /
         behind the first knot, new point + contradiction in both dict orders)
         x H {none, equal, other} x S {none, equal, other} x overwrite
         {False, True}, less the two that bring nothing = 142; ALL histories
         of length 1 over the 142 pieces,
         ALL histories of length 2 (thorough: also 3) over a 22-piece
         sub-alphabet, every history on one live object.
         Fifth wave (alphabets and models in domains/w5_c05.py) -
         family D: the data of a live correlation are EDITED: object built
         by ThermochemIncomplete / ThermochemGroup on the non-polynomial
         table (N and T_ref placements per ND, wide range, both reference
         values); letters del_ND_Cp(T) for the points with index 0, 1, N//2,
         N-1, del_ND_Cp() (last step only), del_ND_H_ref(), del_ND_S_ref(),
         set_range(wider), update() with a new point above / inside the
         table, update() with a contradicting value at the first knot (a new
         point once that knot was deleted); ALL applicable histories of 1..2
         letters (thorough: 1..3 on the pairs of DL3) x probes {nothing
         evaluated before the last step, evaluated before and after every
         step}.
         family V: update() with a piece stated at ANOTHER reference
         temperature: receiver holding the first N0 points of the 3-point
         non-polynomial table (N0 = 0: no table), T_ref placements per NV,
         reference values (H,S)/(H,-)/(-,S)/(-,-); piece = 7 Cp parts (none,
         new point above / below / inside, value at the first knot, the
         whole 3-point table, table + point above) x H {none, 40.0} x S
         {none, -55.0} x overwrite {False, True}, less the two that bring
         nothing = 54, x every placement of the piece's T_ref per VB that
         differs from the receiver's; ALL histories of length 1 (thorough:
         also ALL of length 2 over a 22-piece sub-alphabet x 3 placements).
Oracle : knots reproduced; reference values returned at T_ref; T*H/RT and S/R
         differences equal the integrals of the correlation's own Cp/R (held at
         the end values outside the table) computed by an independent
         Gauss-Legendre quadrature split at the knots, and - when the
         interpolant reproduces the generating polynomial on the grid - also
         equal to the closed form; G = H - S; all supply orders agree.
         A correlation read from YAML must load and evaluate, reproduce the
         knots, return the reference values at T_ref, give G = H - S and agree
         to 1e-12 on the small grid with the constructor object made from the
         same numbers (which is itself judged against the integrals).
         Family U: a dictionary model says which pieces are refused and what
         the data are afterwards (initial data + accepted pieces, nothing of
         a refused one).  After every step the object's public account of its
         data (ND_Cp_data, has_ND_Cp, ND_H_ref, ND_S_ref, T_ref, range) must
         equal the model, and the piece handed in must be unchanged; after
         the history every point the object lists in ND_Cp_data is reproduced
         by get_CpoR, the object is judged against the integrals with the
         model's data (judge_correlation; judge_partial when H or S is
         absent), agrees to 1e-12 with the object the constructor makes from
         the model's data on every knot / piece temperature / range end, and
         a copy() taken before the history still lists the initial data.
         Family D: a dictionary model says what is left after each edit
         (and which re-added point is refused); after every step the
         object's account of its data must equal the model; whenever the
         object is probed: every listed and every remaining point is
         reproduced, Cp/R outside the CURRENT span equals the CURRENT end
         value, the reference values still held are returned at T_ref, G =
         H - S, and the object agrees to 1e-12 with the constructor object
         made from the remaining data and with its own copy(); after the
         last step also the integral relations (judge_correlation /
         judge_partial with the remaining data).
         Family V: the model keeps, per reference value, WHERE it was stated
         (receiver's T_ref or the accepted piece's T_ref) and says which
         pieces are refused.  After every step the account (table, presence
         of the reference values, their values when stated at the
         receiver's T_ref, T_ref and range unchanged, piece unchanged); after
         the history the clauses above against the MERGED table, and the
         integral relations anchored where the value was stated: H/RT and
         S/R AT THE PIECE's T_ref equal the piece's values, and from there
         the changes of T*H/RT and S/R equal the integrals of the object's
         own Cp/R over the merged table.
"""
import itertools
import json
import math

from ..runner import Result
from ..models import thermoref as tr
from ..domains import libs
from ..domains import w3_c05 as w3
from ..domains import w4_c05 as w4
from ..domains import w5_c05 as w5

LEVEL = 'exploration'
# scipy quad over a piecewise-cubic integrand: observed discrepancies up to
# 8e-7 on oscillating tables; a dropped or mis-weighted term is >= 1e-3.
STOL = 1e-5
NS = {'quick': [1, 2, 3, 4, 5, 8, 16], 'thorough': [1, 2, 3, 4, 5, 6, 8, 12, 16]}
HS = {'quick': [(0.0, 0.0), (-12.5, 31.25), (7.75, -2.5)],
      'thorough': [(h, s) for h in (0.0, -12.5, 7.75) for s in (0.0, 31.25, -2.5)]}
COEF = [3.0, 4e-3, -2e-6, 1.5e-9]
SEQ = [2.0, 0.0, -1.5, 3.0, 2.5, 4.0, 1.0, 3.5, 3.25, 0.5, 2.75, 4.5, 1.5, 3.75,
       2.25, 5.0]
# family Y (reference-value alphabet x construction route, see run_Y)
NY = {'quick': [1, 2, 5], 'thorough': [1, 2, 3, 4, 5, 8]}
SPACINGS_Y = {'quick': lambda N: ['eq'] if N == 1 else ['uneq'],
              'thorough': lambda N: ['eq'] if N == 1 else ['eq', 'uneq']}
YAML_ROUTES = [(how, 'sorted') for how in w3.SPELLINGS] + [('repr', 'reversed')]
PLACEMENTS = ['below', 'first', 'between', 'interior', 'last', 'above']
# family U (histories of update() on one live object, see run_U): for each
# history length the receiver tables and T_ref placements
NU = {'quick': {1: ([1, 3], ['first', 'above']), 2: ([3], ['first', 'above'])},
      'thorough': {1: ([1, 2, 3, 5], PLACEMENTS),
                   2: ([1, 3], ['first', 'between', 'above']),
                   3: ([3], ['first'])}}
# length-3 histories only on receivers holding both reference values
U_HS = {1: [0, 1, 2, 3], 2: [0, 1, 2, 3], 3: [0]}
# family D (edit histories on one live object, see run_edit): per table size
# the T_ref placements; every applicable history of 1..DL letters, except the
# (N, placement) pairs of DL3 which get 1..3
ND = {'quick': {2: ['last'], 3: ['first', 'above'], 5: ['between']},
      'thorough': dict((N, PLACEMENTS) for N in (1, 2, 3, 4, 5, 8))}
DL3 = {'quick': [], 'thorough': [(3, 'first'), (3, 'last')]}
# family V (update() with pieces at another T_ref, see run_merge): per history
# length the receivers (points held of the nominal 3-point table, T_ref
# placement), the placements of the pieces' T_ref, the receiver's references
NV = {'quick': {1: [(0, 'first'), (1, 'first'), (3, 'first'), (3, 'above')]},
      'thorough': {1: [(N0, pl) for N0 in (0, 1, 2, 3) for pl in PLACEMENTS],
                   2: [(0, 'first'), (1, 'first'), (3, 'first')]}}
VB = {'quick': {1: ['below', 'between', 'above']},
      'thorough': {1: PLACEMENTS + ['default'], 2: ['below', 'between', 'above']}}
V_HS = {1: [0, 1, 2, 3], 2: [0, 3]}


def d_depth(tier, N, pl):
    return 3 if (N, pl) in DL3[tier] else 2


BOUND = {t: 'N in %s x 2 spacings x (polynomial degree 0..min(3,N-1) + one '
            'non-polynomial sequence with a zero and a negative value) x 6 '
            'T_ref placements x 3 ranges x %d (H_ref,S_ref) pairs x all supply '
            'orders x 3 classes; each base member also read from YAML text by 3 '
            'classes; family Y: N in %s x spacings %s x 7 T_ref placements (incl. '
            'the default with no T_ref line) x {wide, no} range x %d x %d '
            'reference values (0.0, -0.0, 1e-300, ordinary, 1e6) x (3 constructors '
            '+ 3 classes x %d YAML routes: spellings repr/int/%%.17e, reversed '
            'point order); family U: histories of update() on one live '
            'ThermochemIncomplete / ThermochemGroup, receiver reference values '
            '(H,S)/(H,-)/(-,S)/(-,-): %s; family D: edit histories (del_ND_Cp(T) at '
            'index 0/1/N//2/N-1, del_ND_Cp() last, del_ND_H_ref, del_ND_S_ref, '
            'set_range, update() with a point above / inside / a contradicting value at '
            'the first knot) on one live ThermochemIncomplete / ThermochemGroup, all '
            'applicable histories of 1..2 letters%s x 2 probes (evaluated only at the '
            'end / before and after every step) on tables N: T_ref placements %s; '
            'family V: update() with pieces stated at another T_ref: %s; '
            '9 shipped libraries, every group'
            % (NS[t], len(HS[t]), NY[t],
               'uneq' if t == 'quick' else 'eq+uneq', len(w3.HREF), len(w3.SREF),
               len(YAML_ROUTES),
               '; '.join('all %d^%d histories of length %d over the %s on tables N in %s '
                         'x T_ref %s%s' % (
                             len(w4.pieces() if L == 1 else w4.pieces2()), L, L,
                             'full piece alphabet' if L == 1 else 'piece sub-alphabet',
                             NU[t][L][0], NU[t][L][1],
                             '' if len(U_HS[L]) == 4 else ' (receiver with H and S only)')
                         for L in sorted(NU[t])),
               '' if not DL3[t] else ' (1..3 on (N, T_ref) in %s)' % (DL3[t],),
               dict((N, ND[t][N]) for N in sorted(ND[t])),
               '; '.join('all (up to %d)^%d histories of length %d over (%d pieces x piece T_ref in %s '
                         'other than the receiver\'s) on receivers (points held of the 3-point '
                         'table, T_ref) in %s x reference values %s' % (
                             len(w5.v_pieces() if L == 1 else w5.v_pieces2()) * len(VB[t][L]),
                             L, L, len(w5.v_pieces() if L == 1 else w5.v_pieces2()),
                             VB[t][L], NV[t][L],
                             '(H,S)/(H,-)/(-,S)/(-,-)' if len(V_HS[L]) == 4 else '(H,S)/(-,-)')
                         for L in sorted(NV[t]))) for t in NS}
RULE = ('every member of the family K x every supply order x every grid '
        'temperature (range ends, T_ref, knots, inter-knot midpoints, range '
        'midpoint) is evaluated; a correlation is non-trivial when it exercises '
        'continuation outside the table or a reference temperature not strictly '
        'inside the table or fewer than four points; counted per distinct '
        '(table, T_ref, range, reference values); every (table, T_ref, range, '
        'reference pair) of family Y is evaluated through every constructor and '
        'every YAML route and counts once (its range is wide or absent); '
        'family U: every history over the piece alphabet is executed on a '
        'fresh receiver and judged after every step (account of the data) and '
        'at its end (values); a history is non-trivial when a step is refused '
        'or brings a Cp point; family D: every applicable history (a deletion '
        'of a point that is not held, and anything after del_ND_Cp(), is not '
        'an edit and not enumerated) is executed on a fresh object under both '
        'probes; non-trivial when it deletes a Cp point; family V: every '
        'history is executed on a fresh receiver; non-trivial when a piece '
        'that brings a reference value is accepted; histories whose agreement '
        'hangs on the arithmetic of carrying a value (outcome merge:outside) '
        'are not judged')
ASSUMPTIONS = ['the interpolant between knots is whatever get_CpoR returns: '
               'the integral relations are judged against the correlation\'s '
               'own Cp (statement does not fix the interpolation order)',
               'tolerances: 1e-9 relative on T*H/RT differences; '
               'on S/R: 1e-5 (scipy quad inside the implementation, observed noise up to 8e-7)',
               'numpy for the implementation only; the oracle is pure Python',
               'YAML route: only the non-dimensional form (ND_H_ref, ND_S_ref, '
               'ND_Cp_data, temperatures in K) is written, so no gas constant '
               'enters; dimensional entries and other units are C12; the loaded '
               'object is compared with the constructor object on the small grid '
               '(same data, two routes) rather than re-integrated',
               'reference values up to 1e6 only: with 1e300 the sum S_ref + '
               'integral is absorbed in floating point and the integral relation '
               'cannot hold for any implementation',
               'family U: the data of a correlation after update() calls are '
               'the initial data plus every accepted piece (overwrite replaces), '
               'a refused piece leaves them as they were; all pieces carry the '
               'receiver\'s T_ref and range (other T_ref: C13, range unions: '
               'C06); a reference value re-stated by an accepted piece may come '
               'back changed in the last bits (compared to 1e-12)',
               'family D: the data of a correlation after an edit are what the '
               'edit leaves (dictionary model); del_ND_Cp() only as a last step '
               'and without per-temperature has_ND_Cp questions afterwards (it '
               'leaves None for the table; what update()/copy()/has_ND_Cp(T) do '
               'then is outside this property); with no table left only the '
               'reference-value clause at T_ref is judged',
               'family V: a piece states its reference values AT ITS OWN T_ref; '
               'after an accepted merge they hold there along the MERGED table '
               '(union of the points; the piece wins under overwrite); the '
               'receiver keeps its T_ref; all pieces carry the receiver\'s range; '
               'the piece values 40.0 / -55.0 contradict whatever the receiver '
               'holds at any other temperature (bound in domains/w5_c05.py), so '
               'without overwrite such a piece must be refused; S/R at a piece\'s '
               'T_ref is compared to 1e-5 (carried there and back by two scipy '
               'quad calls), H/RT to 1e-9; with no table at all nothing is '
               'judged about a value stated at another temperature']
MANIFEST = dict(
    technique='bounded-exhaustive enumeration of a correlation family x all '
              'supply orders vs closed-form / independent quadrature oracle',
    text='All tables of the stated sizes/spacings/value shapes, every placement '
         'of the reference temperature (below, at both ends of, inside, above '
         'the table), tight/wide/absent ranges, zero/negative/positive '
         'reference values, every supply order, three classes, on the full '
         'temperature grid - plus every group of the nine shipped libraries - '
         'are checked against integrals computed independently of the '
         'implementation. Every base member is also read back from the YAML '
         'text of a library entry by the three classes, and a second family '
         'crosses all pairs of reference values from {0.0, -0.0, 1e-300, '
         'ordinary, 1e6} with the three constructors and the YAML route '
         '(three number spellings, reversed point order, T_ref line omitted). '
         'A third family runs every history of update() calls up to the stated '
         'length (accepted and refused pieces, with and without overwrite, new '
         'and contradicting Cp points and reference values) on one live object '
         'and compares its account of its data and its values with a '
         'dictionary model and with the constructor. '
         'A fourth family edits a live object (single points deleted, the '
         'whole table deleted, reference values deleted, range reset, points '
         'added back) in every applicable history up to the stated length, '
         'probed only at the end or around every step, and demands the '
         'property for the data that are left (new end values held, same '
         'values as a freshly constructed object and as copy()). A fifth '
         'family merges pieces whose reference values are stated at another '
         'reference temperature (with and without new Cp points, overwrite, '
         'receivers with and without a table / reference values) and demands '
         'the incoming values at the incoming T_ref along the merged table. '
         'Exhaustive inside these families.',
    note='Temperatures are grid points, not all reals; table sizes above 16 '
         'and other value shapes are not covered. YAML entries in dimensional '
         'form (H_ref, S_ref, Cp_data with units) are not part of this check.',
    ref='5/C05')


def table(N, spacing, shape):
    if spacing == 'eq':
        Ts = [300.0 + 100.0 * i for i in range(N)]
    else:
        Ts = [300.0 + 7.0 * i * i + 50.0 * i for i in range(N)]
    if shape == 'seq':
        return Ts, SEQ[:N], None
    c = COEF[:shape + 1]
    return Ts, [tr.poly_eval(c, T) for T in Ts], c


def shapes_for(N):
    return list(range(0, min(3, N - 1) + 1)) + ['seq']


def tref_for(Ts, placement):
    N = len(Ts)
    if placement == 'below':
        return Ts[0] - 50.0
    if placement == 'first':
        return Ts[0]
    if placement == 'between':
        return 0.5 * (Ts[0] + Ts[1]) + 3.3 if N >= 2 else None
    if placement == 'interior':
        return Ts[N // 2] if N >= 3 else None
    if placement == 'last':
        return Ts[-1] if N >= 2 else None
    if placement == 'above':
        return Ts[-1] + 100.0


def ranges_for(Ts, Tref):
    lo, hi = min(Ts[0], Tref), max(Ts[-1], Tref)
    out = [('tight', (lo, hi)), ('wide', (lo - 150.0, hi + 200.0))]
    if Ts[0] <= Tref <= Ts[-1]:
        out.append(('none', None))
    return out


def orders(N):
    idx = list(range(N))
    if N <= 4:
        return [list(p) for p in itertools.permutations(idx)]
    out = [idx, idx[::-1]]
    for r in range(1, N):
        out.append(idx[r:] + idx[:r])
    out.append(idx[0::2] + idx[1::2])
    return out


def shards(tier, seed):
    out = []
    for N in NS[tier]:
        for spacing in (['eq'] if N == 1 else ['eq', 'uneq']):
            for shape in shapes_for(N):
                for pl in PLACEMENTS:
                    out.append(('K', N, spacing, shape, pl))
    for N in NY[tier]:
        for spacing in SPACINGS_Y[tier](N):
            for pl in PLACEMENTS + ['default']:
                if pl != 'default' and tref_for(table(N, spacing, 'seq')[0], pl) is None:
                    continue
                out.append(('Y', N, spacing, pl))
    for L in sorted(NU[tier]):
        Ns, pls = NU[tier][L]
        for cls_name in ('Incomplete', 'Group'):
            for N in Ns:
                for pl in pls:
                    if tref_for(table(N, 'eq' if N == 1 else 'uneq', 'seq')[0], pl) is None:
                        continue
                    for hsi in U_HS[L]:
                        if L == 3:
                            # 22^3 histories: one shard per first piece
                            for first in range(len(w4.pieces2())):
                                out.append(('U', L, cls_name, N, pl, hsi, first))
                        else:
                            out.append(('U', L, cls_name, N, pl, hsi, None))
    for cls_name in ('Incomplete', 'Group'):
        for N in sorted(ND[tier]):
            for pl in ND[tier][N]:
                if tref_for(table(N, 'eq' if N == 1 else 'uneq', 'seq')[0], pl) is None:
                    continue
                for probe in w5.PROBES:
                    L = d_depth(tier, N, pl)
                    if L == 3:
                        for first in range(len(w5.d_letters(N))):
                            out.append(('D', cls_name, N, pl, probe, L, first))
                    else:
                        out.append(('D', cls_name, N, pl, probe, L, None))
        for L in sorted(NV[tier]):
            for N0, pla in NV[tier][L]:
                for hsi in V_HS[L]:
                    if L == 1:
                        out.append(('V', L, cls_name, N0, pla, hsi, None))
                    else:
                        for first in VB[tier][L]:
                            out.append(('V', L, cls_name, N0, pla, hsi, first))
    for name in libs.LIBS:
        out.append(('lib', name))
    return out


def rel(a, b, scale=1.0):
    return abs(a - b) / max(scale, abs(a), abs(b))


def build(cls_name, H, S, Ts, Cps, Tref, rng, order):
    from pgradd.ThermoChem import (ThermochemRawData, ThermochemIncomplete,
                                   ThermochemGroup)
    Ts_o = [Ts[i] for i in order]
    Cp_o = [Cps[i] for i in order]
    if cls_name == 'RawData':
        return ThermochemRawData(H, S, Ts_o, Cp_o, T_ref=Tref, range=rng)
    if cls_name == 'Merged':
        # the table first, the reference values merged in afterwards
        k = ThermochemGroup(None, None, dict(zip(Ts_o, Cp_o)), Tref, rng)
        k.update(ThermochemGroup(H, None, {}, Tref, rng))
        k.update(ThermochemGroup(None, S, {}, Tref, rng))
        return k
    cls = ThermochemIncomplete if cls_name == 'Incomplete' else ThermochemGroup
    return cls(H, S, dict(zip(Ts_o, Cp_o)), Tref, rng)


def judge_correlation(k, H, S, Ts, Cps, Tref, rng, c, ref_s_tol=1e-9):
    """Checks 1-4 on one object; returns list of (check, detail).
    ref_s_tol: tolerance of the S/R(T_ref) clause; family V passes STOL when
    the reference value was carried between two temperatures by update()
    (two scipy quad calls inside the implementation)."""
    probs = []
    lo, hi = rng if rng is not None else (Ts[0], Ts[-1])
    grid, _ = tr.temperature_grid(lo, hi, Tref, Ts)
    vals = {}
    for T in grid:
        try:
            vals[T] = [float(k.get_CpoR(T)), float(k.get_HoRT(T)),
                       float(k.get_SoR(T)), None]
        except Exception as e:     # noqa
            probs.append(('exception', 'T=%r: %s: %s' % (T, type(e).__name__, e)))
            return probs, vals
    for T in grid:
        try:
            vals[T][3] = float(k.get_GoRT(T))
        except Exception as e:     # noqa
            probs.append(('G', 'G/RT(%g) raised %s: %s' % (T, type(e).__name__, e)))
            break
    for T, Cp in zip(Ts, Cps):
        if rel(vals[T][0], Cp) > 1e-9:
            probs.append(('knot', 'Cp/R(%g)=%r, tabulated %r' % (T, vals[T][0], Cp)))
            break
    if rel(vals[Tref][1], H) > 1e-9:
        probs.append(('ref-H', 'H/RT(T_ref=%g)=%r, reference %r' % (Tref, vals[Tref][1], H)))
    if abs(vals[Tref][2] - S) > ref_s_tol * max(1.0, abs(S)):
        probs.append(('ref-S', 'S/R(T_ref=%g)=%r, reference %r' % (Tref, vals[Tref][2], S)))
    for T in grid:
        if vals[T][3] is not None and vals[T][3] != vals[T][1] - vals[T][2]:
            probs.append(('G', 'G/RT(%g)=%r but H/RT-S/R=%r' % (T, vals[T][3], vals[T][1] - vals[T][2])))
            break

    def cp(t):
        return float(k.get_CpoR(t))
    poly_ok = c is not None
    if c is not None:
        pt = tr.PolyTable(c, Ts[0], Ts[-1])
        poly_ok = all(rel(vals[T][0], pt.cp(T)) <= 1e-9 for T in grid)
    scaleH = max(abs(H * Tref), max(abs(x) for x in Cps) * (hi - lo), 1.0)
    # Integrals over consecutive grid intervals (knots are grid points, so
    # every interval lies inside one polynomial piece), accumulated from
    # T_ref.  By additivity this decides the relation for every ordered pair
    # (T1, T2) of grid points: both the T_ref-anchored and the
    # neighbour-to-neighbour differences are compared.
    xs, ws = tr._GL
    segH, segS = [], []
    for u, v in zip(grid[:-1], grid[1:]):
        n = max(1, int(math.ceil((v - u) / 120.0)))
        aH, aS = [], []
        for j in range(n):
            p, q = u + (v - u) * j / n, u + (v - u) * (j + 1) / n
            h, m = 0.5 * (q - p), 0.5 * (p + q)
            for x, w_ in zip(xs, ws):
                t = m + h * x
                cv = cp(t)
                aH.append(h * w_ * cv)
                aS.append(h * w_ * cv / t)
        segH.append(math.fsum(aH))
        segS.append(math.fsum(aS))
    ir = grid.index(Tref)

    def cum(seg, i):
        if i >= ir:
            return math.fsum(seg[ir:i])
        return -math.fsum(seg[i:ir])
    for i, T in enumerate(grid):
        pairs = [(Tref, cum(segH, i), cum(segS, i))]
        if i > 0:
            pairs.append((grid[i - 1], segH[i - 1], segS[i - 1]))
        for T1, iH, iS in pairs:
            if T1 == T:
                continue
            dH = T * vals[T][1] - T1 * vals[T1][1]
            dS = vals[T][2] - vals[T1][2]
            if abs(dH - iH) > 1e-9 * scaleH:
                probs.append(('int-H', 'T*H/RT from %g to %g changes by %r, '
                              'integral of Cp/R is %r' % (T1, T, dH, iH)))
            if abs(dS - iS) > STOL * max(1.0, abs(iS)):
                probs.append(('int-S', 'S/R from %g to %g changes by %r, '
                              'integral of Cp/(RT) is %r' % (T1, T, dS, iS)))
            if poly_ok:
                cH, cS = pt.int_cp(T1, T), pt.int_cp_over_t(T1, T)
                if abs(dH - cH) > 1e-9 * scaleH:
                    probs.append(('int-H', 'T*H/RT from %g to %g changes by '
                                  '%r, closed form %r' % (T1, T, dH, cH)))
                if abs(dS - cS) > STOL * max(1.0, abs(cS)):
                    probs.append(('int-S', 'S/R from %g to %g changes by %r, '
                                  'closed form %r' % (T1, T, dS, cS)))
        if len(probs) > 6:
            break
    return probs, vals


def small_grid(Ts, Tref, rng):
    lo, hi = rng if rng is not None else (Ts[0], Ts[-1])
    g = {lo, hi, Tref, 0.5 * (lo + hi), Ts[0], Ts[-1], Ts[len(Ts) // 2]}
    if len(Ts) > 1:
        g.add(0.5 * (Ts[0] + Ts[1]))
    return sorted(g)


def run_K(R, N, spacing, shape, pl, tier, only=None):
    Ts, Cps0, c0 = table(N, spacing, shape)
    Tref = tref_for(Ts, pl)
    if Tref is None:
        return
    # 'sibling': a second table on the SAME temperatures with other values,
    # evaluated in the same process right after the first - anything
    # remembered per (T_ref, T) instead of per correlation shows up here
    variants = [('base', Cps0, c0),
                ('sibling', [1.5 * v + 0.25 for v in Cps0],
                 None if c0 is None else [1.5 * c0[0] + 0.25] + [1.5 * x for x in c0[1:]])]
    for variant, Cps, c in variants:
      for rname, rng in ranges_for(Ts, Tref):
        for (H, S) in HS[tier]:
            if variant == 'sibling' and (H, S) != HS[tier][1]:
                continue
            desc = dict(N=N, spacing=spacing, shape=shape, placement=pl,
                        range=rname, H=H, S=S, variant=variant)
            if only is not None and only != desc and not (
                    only.get('variant') == 'sibling' and variant == 'base' and
                    rname == only['range'] and (H, S) == HS[tier][1]):
                continue
            nontrivial = (N < 4 or pl in ('below', 'first', 'last', 'above')
                          or rname == 'wide')
            if nontrivial:
                R.nontrivial += 1
            R.sample(dict(desc, Ts=Ts[:4], Cps=Cps[:4], T_ref=Tref), limit=2)
            base = {}
            for cls_name in ('RawData', 'Incomplete', 'Group', 'Merged'):
                try:
                    k = build(cls_name, H, S, Ts, Cps, Tref, rng, list(range(N)))
                except Exception as e:   # noqa
                    R.evals += 1
                    R.outcomes['construct-failed'] += 1
                    R.violation('construct:%s:tref=%s' % (cls_name, pl),
                                '%s cannot be built for %s: %s: %s' % (
                                    cls_name, desc, type(e).__name__, e),
                                dict(kind='K', desc=desc))
                    continue
                probs, vals = judge_correlation(k, H, S, Ts, Cps, Tref, rng, c)
                R.evals += max(1, len(vals))
                R.outcomes['consistent' if not probs else 'inconsistent'] += 1
                for chk, detail in probs[:3]:
                    R.violation(('G:%s' % cls_name) if chk == 'G' else '%s:tref=%s:N=%s' % (chk, pl, '1' if N == 1 else 'n'),
                                '%s %s: %s' % (cls_name, desc, detail),
                                dict(kind='K', desc=desc))
                base[cls_name] = k
                # array temperatures (float and integer dtype) agree with scalars
                import numpy as np
                lo_, hi_ = rng if rng is not None else (Ts[0], Ts[-1])
                ints = sorted(set(float(int(t)) for t in Ts + [lo_ + 1, hi_ - 1, Tref]
                                  if lo_ <= int(t) <= hi_))
                if ints and cls_name != 'Merged':
                    R.evals += 1
                    try:
                        sc = [float(k.get_CpoR(t)) for t in ints]
                        af = [float(x) for x in k.get_CpoR(np.array(ints, dtype=float))]
                        ai = [float(x) for x in k.get_CpoR(np.array(ints, dtype=int))]
                        okarr = all(rel(a, b) < 1e-12 and rel(c_, b) < 1e-12
                                    for a, c_, b in zip(af, ai, sc))
                        det = 'scalar %r, float array %r, int array %r' % (sc[:3], af[:3], ai[:3])
                    except Exception as e:    # noqa
                        okarr, det = False, '%s: %s' % (type(e).__name__, e)
                    R.outcomes['array-T:%s' % ('same' if okarr else 'differs')] += 1
                    if not okarr:
                        R.violation('array-temperatures:%s' % cls_name,
                                    '%s %s: Cp/R for an array of temperatures differs '
                                    'from the scalar calls: %s' % (cls_name, desc, det),
                                    dict(kind='K', desc=desc))
            # supply orders
            sg = small_grid(Ts, Tref, rng)
            ref = None
            for cls_name in ('RawData', 'Incomplete', 'Group'):
                if cls_name not in base:
                    continue
                for o in orders(N):
                    R.evals += 1
                    try:
                        k = build(cls_name, H, S, Ts, Cps, Tref, rng, o)
                        v = [(float(k.get_CpoR(T)), float(k.get_HoRT(T)),
                              float(k.get_SoR(T))) for T in sg]
                    except Exception as e:    # noqa
                        R.outcomes['order:exception'] += 1
                        R.violation('order:exception:%s' % cls_name,
                                    '%s %s supplied in order %s: %s: %s' % (
                                        cls_name, desc, o, type(e).__name__, e),
                                    dict(kind='K', desc=desc))
                        break
                    if ref is None:
                        ref = v
                    bad = [(T, a, b) for T, a, b in zip(sg, v, ref)
                           if any(rel(x, y) > 1e-12 for x, y in zip(a, b))]
                    R.outcomes['order:same' if not bad else 'order:differs'] += 1
                    if bad:
                        R.violation('order:differs:%s' % cls_name,
                                    '%s %s supplied in order %s gives (Cp,H,S)=%r '
                                    'at T=%g, sorted order gives %r' % (
                                        cls_name, desc, o, bad[0][1], bad[0][0],
                                        bad[0][2]), dict(kind='K', desc=desc))
                        break
            # construction path of every shipped correlation: the same data
            # written as the YAML text of a library entry and read back
            if variant == 'base':
                yaml_route(R, ref, H, S, Ts, Cps, Tref, rng, [('repr', 'sorted')],
                           False, desc, dict(kind='K', desc=desc))


def judge_loaded(cls_name, yard, H, S, Ts, Cps, Tref, rng, text):
    """Oracle for one correlation read from YAML text: it must load, evaluate
    without an error, reproduce the knots, return the reference values at
    T_ref, give G = H - S (at the range ends and T_ref), and agree on the
    small grid with `yard`, the (Cp,H,S) values of the object the constructor
    makes from the same numbers in sorted order (that object is judged against
    the integrals by judge_correlation).  Returns [(check, detail)]."""
    try:
        k = w3.yaml_load(cls_name, text)
    except Exception as e:     # noqa
        return [('load-failed', '%s: %s' % (type(e).__name__, str(e)[:200]))]
    sg = small_grid(Ts, Tref, rng)
    probs = []
    vals = {}
    G = {}
    T = None
    try:
        for T, want in zip(Ts, Cps):
            cp = float(k.get_CpoR(T))
            if rel(cp, want) > 1e-9 and not probs:
                probs.append(('knot', 'Cp/R(%g)=%r, tabulated %r' % (T, cp, want)))
        for T in sg:
            vals[T] = (float(k.get_CpoR(T)), float(k.get_HoRT(T)),
                       float(k.get_SoR(T)))
        for T in sorted({sg[0], Tref, sg[-1]}):
            G[T] = float(k.get_GoRT(T))
    except Exception as e:     # noqa
        return [('exception', 'T=%r: %s: %s' % (T, type(e).__name__, str(e)[:200]))]
    if rel(vals[Tref][1], H) > 1e-9:
        probs.append(('ref-H', 'H/RT(T_ref=%g)=%r, reference %r' % (Tref, vals[Tref][1], H)))
    if abs(vals[Tref][2] - S) > 1e-9 * max(1.0, abs(S)):
        probs.append(('ref-S', 'S/R(T_ref=%g)=%r, reference %r' % (Tref, vals[Tref][2], S)))
    for T in sorted(G):
        if G[T] != vals[T][1] - vals[T][2]:
            probs.append(('G', 'G/RT(%g)=%r but H/RT-S/R=%r' % (T, G[T], vals[T][1] - vals[T][2])))
            break
    if yard is not None:
        for T, d in zip(sg, yard):
            if any(rel(x, y) > 1e-12 for x, y in zip(vals[T], d)):
                probs.append(('differs', '(Cp,H,S)(%g)=%r, the constructor with the same '
                              'numbers gives %r' % (T, vals[T], tuple(d))))
                break
    return probs


def yaml_route(R, yard, H, S, Ts, Cps, Tref, rng, routes, omit_tref, desc, wit):
    for cls_name in ('RawData', 'Incomplete', 'Group'):
        for how, order in routes:
            if order == 'reversed' and len(Ts) == 1:
                continue
            text = w3.yaml_text(H, S, Ts, Cps, Tref, rng, how, omit_tref=omit_tref,
                                order=None if order == 'sorted' else list(range(len(Ts)))[::-1])
            probs = judge_loaded(cls_name, yard, H, S, Ts, Cps, Tref, rng, text)
            R.evals += 1
            R.outcomes['yaml:%s' % ('consistent' if not probs else 'inconsistent')] += 1
            for chk, detail in probs[:2]:
                R.violation('yaml:%s:%s' % (chk, cls_name),
                            '%s read from YAML (numbers spelled %r, points %s) %s: %s\n'
                            '--- text ---\n%s' % (cls_name, how, order, desc, detail, text), wit)


def dkey(d):
    return json.dumps(d, sort_keys=True)


def run_Y(R, N, spacing, pl, tier, only=None):
    """Reference-value alphabet x construction route.  The non-polynomial
    table (it has a zero and a negative Cp value), the wide range and - when
    T_ref lies in the table - no range, ALL pairs HREF x SREF: the three
    constructor objects are judged in full (judge_correlation), the YAML
    objects (three classes x YAML_ROUTES) by judge_loaded."""
    Ts, Cps, c = table(N, spacing, 'seq')
    Tref = w3.T_REF_DEFAULT if pl == 'default' else tref_for(Ts, pl)
    if Tref is None:
        return
    for rname, rng in ranges_for(Ts, Tref):
        if rname == 'tight':
            continue
        for (H, S) in w3.ref_pairs():
            desc = dict(N=N, spacing=spacing, shape='seq', placement=pl,
                        range=rname, H=H, S=S, variant='refval')
            if only is not None and dkey(only) != dkey(desc):
                continue
            wit = dict(kind='Y', desc=desc)
            # every case of this family is non-trivial by RULE: the range is
            # wide (continuation) or the text has no range line
            R.nontrivial += 1
            R.sample(dict(desc, Ts=Ts[:4], Cps=Cps[:4], T_ref=Tref,
                          text=w3.yaml_text(H, S, Ts, Cps, Tref, rng, 'int',
                                            omit_tref=(pl == 'default'))), limit=1)
            yard = None
            for cls_name in ('RawData', 'Incomplete', 'Group'):
                try:
                    k = build(cls_name, H, S, Ts, Cps, Tref, rng, list(range(N)))
                except Exception as e:   # noqa
                    R.evals += 1
                    R.outcomes['construct-failed'] += 1
                    R.violation('construct:%s:tref=%s' % (cls_name, pl),
                                '%s cannot be built for %s: %s: %s' % (
                                    cls_name, desc, type(e).__name__, e), wit)
                    continue
                probs, vals = judge_correlation(k, H, S, Ts, Cps, Tref, rng, c)
                R.evals += max(1, len(vals))
                R.outcomes['consistent' if not probs else 'inconsistent'] += 1
                for chk, detail in probs[:3]:
                    R.violation(('G:%s' % cls_name) if chk == 'G' else '%s:tref=%s:N=%s' % (chk, pl, '1' if N == 1 else 'n'),
                                '%s %s: %s' % (cls_name, desc, detail), wit)
                if yard is None:
                    try:
                        yard = [(float(k.get_CpoR(T)), float(k.get_HoRT(T)),
                                 float(k.get_SoR(T))) for T in small_grid(Ts, Tref, rng)]
                    except Exception:    # noqa  (already reported by the judge above)
                        yard = None
            yaml_route(R, yard, H, S, Ts, Cps, Tref, rng, YAML_ROUTES,
                       pl == 'default', desc, wit)


def judge_partial(k, H, S, Ts, Cps, Tref, rng, ref_s_tol=1e-9):
    """judge_correlation for a correlation that holds only one (or none) of
    the two reference values: knots reproduced, the held reference value
    returned at T_ref, and the integral relation of the held quantity against
    the correlation's own Cp/R (same quadrature: consecutive grid intervals,
    accumulated from T_ref, T_ref-anchored and neighbour differences).
    Returns (probs, n_temperatures)."""
    probs = []
    lo, hi = rng if rng is not None else (Ts[0], Ts[-1])
    grid, _ = tr.temperature_grid(lo, hi, Tref, Ts)
    cpv, hv, sv = {}, {}, {}
    for T in grid:
        try:
            cpv[T] = float(k.get_CpoR(T))
            if H is not None:
                hv[T] = float(k.get_HoRT(T))
            if S is not None:
                sv[T] = float(k.get_SoR(T))
        except Exception as e:     # noqa
            probs.append(('exception', 'T=%r: %s: %s' % (T, type(e).__name__, e)))
            return probs, len(cpv)
    for T, Cp in zip(Ts, Cps):
        if rel(cpv[T], Cp) > 1e-9:
            probs.append(('knot', 'Cp/R(%g)=%r, tabulated %r' % (T, cpv[T], Cp)))
            break
    if H is not None and rel(hv[Tref], H) > 1e-9:
        probs.append(('ref-H', 'H/RT(T_ref=%g)=%r, reference %r' % (Tref, hv[Tref], H)))
    if S is not None and abs(sv[Tref] - S) > ref_s_tol * max(1.0, abs(S)):
        probs.append(('ref-S', 'S/R(T_ref=%g)=%r, reference %r' % (Tref, sv[Tref], S)))
    if H is None and S is None:
        return probs, len(grid)
    scaleH = max(abs((H or 0.0) * Tref), max(abs(x) for x in Cps) * (hi - lo), 1.0)
    xs, ws = tr._GL
    segH, segS = [], []
    for u, v in zip(grid[:-1], grid[1:]):
        n = max(1, int(math.ceil((v - u) / 120.0)))
        aH, aS = [], []
        for j in range(n):
            p, q = u + (v - u) * j / n, u + (v - u) * (j + 1) / n
            h, m = 0.5 * (q - p), 0.5 * (p + q)
            for x, w_ in zip(xs, ws):
                t = m + h * x
                cv = float(k.get_CpoR(t))
                aH.append(h * w_ * cv)
                aS.append(h * w_ * cv / t)
        segH.append(math.fsum(aH))
        segS.append(math.fsum(aS))
    ir = grid.index(Tref)

    def cum(seg, i):
        if i >= ir:
            return math.fsum(seg[ir:i])
        return -math.fsum(seg[i:ir])
    for i, T in enumerate(grid):
        pairs = [(Tref, cum(segH, i), cum(segS, i))]
        if i > 0:
            pairs.append((grid[i - 1], segH[i - 1], segS[i - 1]))
        for T1, iH, iS in pairs:
            if T1 == T:
                continue
            if H is not None:
                dH = T * hv[T] - T1 * hv[T1]
                if abs(dH - iH) > 1e-9 * scaleH:
                    probs.append(('int-H', 'T*H/RT from %g to %g changes by %r, '
                                  'integral of Cp/R is %r' % (T1, T, dH, iH)))
            if S is not None:
                dS = sv[T] - sv[T1]
                if abs(dS - iS) > STOL * max(1.0, abs(iS)):
                    probs.append(('int-S', 'S/R from %g to %g changes by %r, '
                                  'integral of Cp/(RT) is %r' % (T1, T, dS, iS)))
        if len(probs) > 6:
            break
    return probs, len(grid)


def account(k, cand):
    """The correlation's own public account of its data."""
    rng = k.get_range()
    return dict(table=sorted((float(T), float(v)) for T, v in dict(k.ND_Cp_data or {}).items()),
                listed=[float(T) for T in cand if k.has_ND_Cp(T)],
                h=None if k.ND_H_ref is None else float(k.ND_H_ref),
                s=None if k.ND_S_ref is None else float(k.ND_S_ref),
                has=(bool(k.has_ND_H()), bool(k.has_ND_S()), bool(k.has_ND_Cp())),
                tref=float(k.T_ref),
                range=None if rng is None else (float(rng[0]), float(rng[1])))


def account_vs_model(acc, model, Tref, rng, cand):
    """[(check, detail)] - where the object's account differs from the data
    the model says it holds."""
    Ts, Cps, h, s = model.data()
    out = []
    if acc['table'] != list(zip(Ts, Cps)):
        out.append(('table', 'ND_Cp_data lists %r, the data supplied (initial + accepted '
                    'pieces) are %r' % (acc['table'], list(zip(Ts, Cps)))))
    if acc['listed'] != [T for T in cand if T in model.table]:
        out.append(('table', 'has_ND_Cp(T) is true for %r, the data supplied have points '
                    'at %r' % (acc['listed'], [T for T in cand if T in model.table])))
    for nm, got, want in (('H_ref', acc['h'], h), ('S_ref', acc['s'], s)):
        if (got is None) != (want is None) or (want is not None and rel(got, want) > 1e-12):
            out.append(('ref', 'ND_%s is %r, the data supplied say %r' % (nm, got, want)))
    if acc['has'] != (h is not None, s is not None, bool(Ts)):
        out.append(('ref', '(has_ND_H, has_ND_S, has_ND_Cp) = %r, the data supplied say %r'
                    % (acc['has'], (h is not None, s is not None, bool(Ts)))))
    if acc['tref'] != Tref or acc['range'] != tuple(rng):
        out.append(('frame', '(T_ref, range) = %r, every piece had %r' % (
            (acc['tref'], acc['range']), (Tref, tuple(rng)))))
    return out


def run_history(R, cls_name, N, pl, hsi, steps):
    """One history of update() calls on one fresh receiver (module docstring,
    'Family U').  The witness carries the receiver and ALL steps."""
    from pgradd.ThermoChem import ThermochemIncomplete, ThermochemGroup
    from pgradd.Error import ReadOnlyDataError
    cls = ThermochemIncomplete if cls_name == 'Incomplete' else ThermochemGroup
    Ts, Cps, _ = table(N, 'eq' if N == 1 else 'uneq', 'seq')
    Tref = tref_for(Ts, pl)
    rng = dict(ranges_for(Ts, Tref))['wide']
    H0, S0 = w4.RECV_HS[hsi]
    cand = w4.candidate_temperatures(Ts)
    wit = dict(kind='U', cls=cls_name, N=N, placement=pl, hs=hsi, steps=list(steps))
    what = '%s on table %r (T_ref=%g, range %r, H_ref=%r, S_ref=%r) after %s' % (
        cls_name, list(zip(Ts, Cps)), Tref, rng, H0, S0,
        ' ; '.join('update(Cp %r, H_ref=%r, S_ref=%r, overwrite=%r)' % (
            w4.cp_points(st['cp'], Ts, Cps), w4.H_PART[st['h']], w4.S_PART[st['s']],
            st['ow']) for st in steps))
    model = w4.Model(Ts, Cps, H0, S0)
    pattern = ''
    bad = []

    def flag(key, detail):
        bad.append(key)
        R.violation('update:%s:%s' % (key, cls_name), '%s: %s' % (what, detail), wit)
    R.evals += 1
    a = cls(H0, S0, dict(zip(Ts, Cps)), Tref, rng)
    twin = a.copy()
    made = {}
    for st in steps:
        kk = dkey(st)
        if kk not in made:     # the same piece twice = the same object twice
            made[kk] = cls(w4.H_PART[st['h']], w4.S_PART[st['s']],
                           dict(w4.cp_points(st['cp'], Ts, Cps)), Tref, rng)
        b = made[kk]
        before_b = account(b, cand)
        want = model.step(st)
        try:
            a.update(b, overwrite=st['ow'])
            got = 'accepted'
        except ReadOnlyDataError:
            got = 'refused'
        except Exception as e:      # noqa
            flag('raises-%s' % type(e).__name__, 'update() raised %s: %s' % (
                type(e).__name__, e))
            break
        pattern += got[0].upper()
        if got != want:
            # the model and the object have parted: nothing further to compare
            flag('%s-where-data-%s' % (got, 'agree' if want == 'accepted' else 'contradict'),
                 'update() %s a piece that the data held so far %s' % (
                     'refused' if got == 'refused' else 'accepted',
                     'do not contradict' if want == 'accepted' else 'contradict (overwrite=False)'))
            break
        if account(b, cand) != before_b:
            flag('piece-changed', 'the correlation handed to update() lists %r afterwards, '
                 '%r before' % (account(b, cand), before_b))
        for chk, detail in account_vs_model(account(a, cand), model, Tref, rng, cand)[:2]:
            flag('%s-after-%s' % (chk, got), detail)
    else:
        # values, after the whole history
        Tm, Cm, h, s = model.data()
        try:
            for T, v in sorted(dict(a.ND_Cp_data).items()):
                if rel(float(a.get_CpoR(T)), float(v)) > 1e-9:
                    flag('listed-point-not-reproduced', 'ND_Cp_data lists Cp/R(%g)=%r, '
                         'get_CpoR gives %r' % (T, float(v), float(a.get_CpoR(T))))
                    break
        except Exception as e:      # noqa
            flag('listed-point-not-reproduced', 'get_CpoR at a listed point: %s: %s' % (
                type(e).__name__, e))
        if h is not None and s is not None:
            probs, vals = judge_correlation(a, h, s, Tm, Cm, Tref, rng, None)
            R.evals += len(vals)
        else:
            probs, n = judge_partial(a, h, s, Tm, Cm, Tref, rng)
            R.evals += n
        for chk, detail in probs[:3]:
            flag(chk, detail)
        # same data, two routes: the constructor
        fresh = cls(h, s, dict(zip(Tm, Cm)), Tref, rng)
        grid = sorted(set(cand + [rng[0], rng[1], Tref]))
        for T in grid:
            try:
                va = [float(a.get_CpoR(T))] + ([float(a.get_HoRT(T))] if h is not None else []) \
                    + ([float(a.get_SoR(T))] if s is not None else [])
            except Exception as e:      # noqa
                flag('exception', 'T=%r: %s: %s' % (T, type(e).__name__, e))
                break
            vf = [float(fresh.get_CpoR(T))] + ([float(fresh.get_HoRT(T))] if h is not None else []) \
                + ([float(fresh.get_SoR(T))] if s is not None else [])
            if any(rel(x, y) > 1e-12 for x, y in zip(va, vf)):
                flag('differs-from-constructor', '(Cp[,H][,S])(%g)=%r, the constructor with '
                     'the data supplied %r, H_ref=%r, S_ref=%r gives %r' % (
                         T, va, list(zip(Tm, Cm)), h, s, vf))
                break
        t_acc = account(twin, cand)
        if (t_acc['table'], t_acc['h'], t_acc['s']) != (list(zip(Ts, Cps)), H0, S0):
            flag('copy-changed', 'a copy() taken before the history now lists %r' % (t_acc,))
    if 'R' in pattern or any(st['cp'] != 'none' for st in steps):
        R.nontrivial += 1
    R.outcomes['update:%s:%s' % (pattern, 'inconsistent' if bad else 'consistent')] += 1
    R.sample(dict(wit, Ts=Ts, Cps=Cps, T_ref=Tref, range=rng, pattern=pattern), limit=1)


def run_U(R, L, cls_name, N, pl, hsi, first):
    alphabet = w4.pieces() if L == 1 else w4.pieces2()
    heads = [alphabet] if first is None else [[alphabet[first]]]
    for steps in itertools.product(*(heads + [alphabet] * (L - 1))):
        run_history(R, cls_name, N, pl, hsi, steps)


# ------------------------------------------------------------ families D, V

def _getters(k, T, h, s):
    out = [float(k.get_CpoR(T))]
    if h:
        out.append(float(k.get_HoRT(T)))
    if s:
        out.append(float(k.get_SoR(T)))
    return out


def judge_data(a, cls, Tm, Cm, h, s, Tref, rng, extra, can_copy=True):
    """Value clauses that need no integral, for an object whose data were
    edited / merged: `Tm, Cm` the table it holds now, `h`, `s` the reference
    values it holds AT ITS OWN T_ref (None: not held, or not stated there).
      listed   every point it lists in ND_Cp_data is reproduced
      knot     every point of the model's table is reproduced
      held     Cp/R outside the CURRENT span equals the current end value
      ref-H/S  the reference values are returned at T_ref
      G        G/RT = H/RT - S/R
      differs-from-constructor / differs-from-copy  (same data, two routes)
               equal to 1e-12 to the object the constructor makes from the
               same data, and to its own copy(), in Cp on every knot / piece
               temperature / range end / inter-knot midpoint and in H, S on
               {range ends, T_ref, end knots, first midpoint}.
    Returns [(check, detail)]."""
    probs = []
    T = None
    try:
        if not Tm:
            if h is not None and rel(float(a.get_HoRT(Tref)), h) > 1e-9:
                probs.append(('ref-H', 'no table left; H/RT(T_ref=%g)=%r, reference %r' % (
                    Tref, float(a.get_HoRT(Tref)), h)))
            if s is not None and abs(float(a.get_SoR(Tref)) - s) > 1e-9 * max(1.0, abs(s)):
                probs.append(('ref-S', 'no table left; S/R(T_ref=%g)=%r, reference %r' % (
                    Tref, float(a.get_SoR(Tref)), s)))
            return probs
        for T, v in sorted(dict(a.ND_Cp_data).items()):
            if rel(float(a.get_CpoR(T)), float(v)) > 1e-9:
                probs.append(('listed-point-not-reproduced', 'ND_Cp_data lists Cp/R(%g)=%r, '
                              'get_CpoR gives %r' % (T, float(v), float(a.get_CpoR(T)))))
                break
        for T, v in zip(Tm, Cm):
            if rel(float(a.get_CpoR(T)), v) > 1e-9:
                probs.append(('knot', 'Cp/R(%g)=%r, tabulated %r' % (T, float(a.get_CpoR(T)), v)))
                break
        mids = [0.5 * (u + v) for u, v in zip(Tm[:-1], Tm[1:])]
        grid = sorted(set(list(extra) + list(Tm) + mids + [rng[0], rng[1], Tref]))
        grid = [t for t in grid if rng[0] <= t <= rng[1]]
        sub = set([rng[0], rng[1], Tref, Tm[0], Tm[-1]] + mids[:1])
        for T in grid:
            cp = float(a.get_CpoR(T))
            want = Cm[0] if T < Tm[0] else Cm[-1] if T > Tm[-1] else None
            if want is not None and rel(cp, want) > 1e-12:
                probs.append(('held', 'Cp/R(%g)=%r outside the tabulated span [%g, %g]; the '
                              'end value is %r' % (T, cp, Tm[0], Tm[-1], want)))
                break
        if h is not None and rel(float(a.get_HoRT(Tref)), h) > 1e-9:
            probs.append(('ref-H', 'H/RT(T_ref=%g)=%r, reference %r' % (
                Tref, float(a.get_HoRT(Tref)), h)))
        if s is not None and abs(float(a.get_SoR(Tref)) - s) > 1e-9 * max(1.0, abs(s)):
            probs.append(('ref-S', 'S/R(T_ref=%g)=%r, reference %r' % (
                Tref, float(a.get_SoR(Tref)), s)))
        if h is not None and s is not None:
            for T in sorted(sub):
                g, hh, ss = float(a.get_GoRT(T)), float(a.get_HoRT(T)), float(a.get_SoR(T))
                if g != hh - ss:
                    probs.append(('G', 'G/RT(%g)=%r but H/RT-S/R=%r' % (T, g, hh - ss)))
                    break
        others = [('constructor', cls(h, s, dict(zip(Tm, Cm)), Tref, rng))]
        if can_copy:
            others.append(('copy', a.copy()))
        for nm, o in others:
            for T in grid:
                hs = T in sub
                va = _getters(a, T, hs and h is not None, hs and s is not None)
                vo = _getters(o, T, hs and h is not None, hs and s is not None)
                if any(rel(x, y) > 1e-12 for x, y in zip(va, vo)):
                    probs.append(('differs-from-%s' % nm, '(Cp[,H][,S])(%g)=%r, %s gives %r' % (
                        T, va, 'its copy()' if nm == 'copy' else
                        'the constructor with the data held now %r, H_ref=%r, S_ref=%r' % (
                            list(zip(Tm, Cm)), h, s), vo)))
                    break
    except Exception as e:      # noqa
        probs.append(('exception', 'T=%r: %s: %s' % (T, type(e).__name__, e)))
    return probs


def apply_edit(a, cls, letter, Ts, Cps, Tref, rng_now, rng0):
    """Perform one letter of family D on the live object; returns 'done',
    'accepted' or 'refused' (exceptions other than the refusal propagate)."""
    from pgradd.Error import ReadOnlyDataError
    if letter == 'del:all':
        a.del_ND_Cp()
    elif letter.startswith('del:'):
        a.del_ND_Cp(Ts[int(letter[4:])])
    elif letter == 'delH':
        a.del_ND_H_ref()
    elif letter == 'delS':
        a.del_ND_S_ref()
    elif letter == 'range':
        a.set_range(w5.d_range2(rng0))
    else:
        b = cls(None, None, dict([w5.d_point(letter, Ts, Cps)]), Tref, rng_now)
        try:
            a.update(b, overwrite=False)
        except ReadOnlyDataError:
            return 'refused'
        return 'accepted'
    return 'done'


def run_edit(R, cls_name, N, pl, probe, steps):
    """One history of family D (edits of a live correlation) on one fresh
    object.  The witness carries the object and ALL steps."""
    import warnings
    from pgradd.ThermoChem import ThermochemIncomplete, ThermochemGroup
    cls = ThermochemIncomplete if cls_name == 'Incomplete' else ThermochemGroup
    Ts, Cps, _ = table(N, 'eq' if N == 1 else 'uneq', 'seq')
    Tref = tref_for(Ts, pl)
    rng0 = dict(ranges_for(Ts, Tref))['wide']
    H0, S0 = w5.HA, w5.SA
    cand = w5.d_candidates(Ts)
    wit = dict(kind='D', cls=cls_name, N=N, placement=pl, probe=probe, steps=list(steps))
    what = '%s built on table %r (T_ref=%g, range %r, H_ref=%r, S_ref=%r), %s, after %s' % (
        cls_name, list(zip(Ts, Cps)), Tref, rng0, H0, S0,
        'evaluated before and after every step' if probe == 'every' else
        'not evaluated before the last step', ' ; '.join(steps))
    model = w5.DModel(Ts, Cps, H0, S0, rng0)
    bad = []
    pattern = ''

    def flag(key, detail):
        bad.append(key)
        R.violation('edit:%s:%s' % (key, cls_name), '%s: %s' % (what, detail), wit)
    R.evals += 1
    with warnings.catch_warnings():
        warnings.simplefilter('ignore')
        a = cls(H0, S0, dict(zip(Ts, Cps)), Tref, rng0)
        if probe == 'every':
            for chk, detail in judge_data(a, cls, Ts, Cps, H0, S0, Tref, rng0, cand)[:2]:
                flag(chk, 'before the first step: ' + detail)
        for n, st in enumerate(steps):
            rng_now = model.rng
            want = model.step(st)
            try:
                got = apply_edit(a, cls, st, Ts, Cps, Tref, rng_now, rng0)
            except Exception as e:      # noqa
                flag('raises-%s' % type(e).__name__, '%s raised %s: %s' % (
                    st, type(e).__name__, e))
                break
            pattern += got[0].upper()
            if got != want:
                flag('%s-where-data-%s' % (got, 'agree' if want == 'accepted' else 'contradict'),
                     '%s was %s although the data held so far %s' % (
                         st, got, 'do not contradict it' if want == 'accepted' else 'contradict it'))
                break
            # (after del_ND_Cp() the object holds None for its table and
            # has_ND_Cp(T) raises TypeError - DESIGN 10.10, outside every
            # listed property: the per-temperature question is not asked then)
            cand_now = [] if model.gone else cand
            acc = account(a, cand_now)
            for chk, detail in account_vs_model(acc, model, Tref, model.rng, cand_now)[:2]:
                flag('%s-after-%s' % (chk, st.split(':')[0]), detail)
            last = n == len(steps) - 1
            if probe == 'every' or last:
                Tm, Cm, h, s = model.data()
                probs = judge_data(a, cls, Tm, Cm, h, s, Tref, model.rng, cand,
                                   can_copy=not model.gone)
                R.evals += 1
                if last and Tm and not probs:
                    if h is not None and s is not None:
                        probs, vals = judge_correlation(a, h, s, Tm, Cm, Tref, model.rng, None)
                        R.evals += len(vals)
                    else:
                        probs, nT = judge_partial(a, h, s, Tm, Cm, Tref, model.rng)
                        R.evals += nT
                for chk, detail in probs[:3]:
                    flag(chk, 'after step %d (%s): %s' % (n + 1, st, detail))
                if probs:
                    break
    if any(st.startswith('del:') for st in steps):
        R.nontrivial += 1
    R.outcomes['edit:%s:%s' % (pattern, 'inconsistent' if bad else 'consistent')] += 1
    R.sample(dict(wit, Ts=Ts, Cps=Cps, T_ref=Tref, range=rng0, pattern=pattern), limit=1)


def run_D(R, cls_name, N, pl, probe, L, first):
    letters = w5.d_letters(N)
    for steps in w5.d_histories(N, L):
        if first is not None and steps[0] != letters[first]:
            continue
        run_edit(R, cls_name, N, pl, probe, steps)


def v_frame(pla):
    Ts, Cps, _ = table(3, 'uneq', 'seq')
    Ta = tref_for(Ts, pla)
    return Ts, Cps, Ta, dict(ranges_for(Ts, Ta))['wide']


def v_tref(Ts, plb):
    return w5.T_REF_DEFAULT if plb == 'default' else tref_for(Ts, plb)


def run_merge(R, cls_name, N0, pla, hsi, steps):
    """One history of family V (update() with pieces stated at another
    reference temperature) on one fresh receiver.  Each step is a piece of
    w5_c05 plus 'tref', the placement of the piece's T_ref.  The witness
    carries the receiver and ALL steps."""
    import warnings
    from pgradd.ThermoChem import ThermochemIncomplete, ThermochemGroup
    from pgradd.Error import ReadOnlyDataError
    cls = ThermochemIncomplete if cls_name == 'Incomplete' else ThermochemGroup
    Ts, Cps, Ta, rng = v_frame(pla)
    H0, S0 = w5.RECV_HS[hsi]
    cand = w5.v_candidates(Ts)
    wit = dict(kind='V', cls=cls_name, N0=N0, placement=pla, hs=hsi, steps=list(steps))
    what = '%s on table %r (T_ref=%g, range %r, H_ref=%r, S_ref=%r) after %s' % (
        cls_name, list(zip(Ts[:N0], Cps[:N0])), Ta, rng, H0, S0,
        ' ; '.join('update(piece with T_ref=%g, Cp %r, H_ref=%r, S_ref=%r; overwrite=%r)' % (
            v_tref(Ts, st['tref']), w5.v_points(st['cp'], Ts, Cps),
            w5.HB if st['h'] == 'B' else None, w5.SB if st['s'] == 'B' else None, st['ow'])
            for st in steps))
    model = w5.VModel(Ts, Cps, N0, Ta, hsi)
    bad = []
    pattern = ''
    carried = False     # a piece that states a reference value was accepted
    R.evals += 1

    def flag(key, detail):
        bad.append(key)
        R.violation('merge:%s:%s' % (key, cls_name), '%s: %s' % (what, detail), wit)
    with warnings.catch_warnings():
        warnings.simplefilter('ignore')
        a = cls(H0, S0, dict(zip(Ts[:N0], Cps[:N0])), Ta, rng)
        twin = a.copy()
        for st in steps:
            Tb = v_tref(Ts, st['tref'])
            b = cls(w5.HB if st['h'] == 'B' else None, w5.SB if st['s'] == 'B' else None,
                    dict(w5.v_points(st['cp'], Ts, Cps)), Tb, rng)
            before_b = account(b, cand)
            want = model.step(st, Tb, (a.ND_H_ref, a.ND_S_ref))
            if want == 'outside':
                R.outcomes['merge:outside (agreement hangs on the arithmetic: not judged)'] += 1
                return
            try:
                a.update(b, overwrite=st['ow'])
                got = 'accepted'
            except ReadOnlyDataError:
                got = 'refused'
            except Exception as e:      # noqa
                flag('raises-%s' % type(e).__name__, 'update() raised %s: %s' % (
                    type(e).__name__, e))
                break
            pattern += got[0].upper()
            if got != want:
                flag('%s-where-data-%s' % (got, 'agree' if want == 'accepted' else 'contradict'),
                     'update() %s a piece that the data held so far %s' % (
                         got, 'do not contradict' if want == 'accepted'
                         else 'contradict (overwrite=False)'))
                break
            if got == 'accepted' and (st['h'] != 'none' or st['s'] != 'none'):
                carried = True
            if account(b, cand) != before_b:
                flag('piece-changed', 'the correlation handed to update() lists %r afterwards, '
                     '%r before' % (account(b, cand), before_b))
            # the object's account of its data
            acc = account(a, cand)
            Tm, Cm, ah, as_ = model.data()
            if acc['table'] != list(zip(Tm, Cm)) or \
               acc['listed'] != [T for T in cand if T in model.table]:
                flag('table-after-%s' % got, 'ND_Cp_data lists %r (has_ND_Cp true at %r), the '
                     'data supplied (initial + accepted pieces) are %r' % (
                         acc['table'], acc['listed'], list(zip(Tm, Cm))))
            for nm, lst, anc in (('H_ref', acc['h'], ah), ('S_ref', acc['s'], as_)):
                if (lst is None) != (anc is None) or (
                        anc is not None and anc[0] == Ta and rel(lst, anc[1]) > 1e-12):
                    flag('ref-after-%s' % got, 'ND_%s is %r, the data supplied say %s' % (
                        nm, lst, 'nothing' if anc is None else '%r at %g K' % (anc[1], anc[0])))
            if acc['has'] != (ah is not None, as_ is not None, bool(Tm)):
                flag('ref-after-%s' % got, '(has_ND_H, has_ND_S, has_ND_Cp) = %r, the data '
                     'supplied say %r' % (acc['has'], (ah is not None, as_ is not None, bool(Tm))))
            if acc['tref'] != Ta or acc['range'] != tuple(rng):
                flag('frame-after-%s' % got, '(T_ref, range) = %r; the receiver had %r and '
                     'every piece the same range' % ((acc['tref'], acc['range']), (Ta, tuple(rng))))
        else:
            Tm, Cm, ah, as_ = model.data()
            own = [None if x is None or x[0] != Ta else x[1] for x in (ah, as_)]
            probs = judge_data(a, cls, Tm, Cm, own[0], own[1], Ta, rng,
                               cand + [v_tref(Ts, st['tref']) for st in steps])
            if Tm and not probs:
                # the integral relations, anchored where the data state the
                # reference values
                if ah is not None and as_ is not None and ah[0] == as_[0]:
                    jobs = [(ah[1], as_[1], ah[0])]
                else:
                    jobs = [(x[1] if q == 'h' else None, x[1] if q == 's' else None, x[0])
                            for q, x in (('h', ah), ('s', as_)) if x is not None]
                for jh, js, jT in jobs:
                    tol = 1e-9 if jT == Ta else STOL
                    if jh is not None and js is not None:
                        pr, vals = judge_correlation(a, jh, js, Tm, Cm, jT, rng, None,
                                                     ref_s_tol=tol)
                        R.evals += len(vals)
                    else:
                        pr, nT = judge_partial(a, jh, js, Tm, Cm, jT, rng, ref_s_tol=tol)
                        R.evals += nT
                    probs.extend(pr)
            for chk, detail in probs[:3]:
                flag(chk, detail)
            t_acc = account(twin, cand)
            if (t_acc['table'], t_acc['h'], t_acc['s']) != (
                    list(zip(Ts[:N0], Cps[:N0])), H0, S0):
                flag('copy-changed', 'a copy() taken before the history now lists %r' % (t_acc,))
    if carried:
        R.nontrivial += 1
    R.outcomes['merge:%s:%s' % (pattern, 'inconsistent' if bad else 'consistent')] += 1
    R.sample(dict(wit, Ts=Ts, Cps=Cps, T_ref=Ta, range=rng, pattern=pattern), limit=1)


def v_steps(L, pla, plbs, first=None):
    """All histories of length L: every step a piece x a placement of the
    piece's T_ref other than the receiver's."""
    Ts = table(3, 'uneq', 'seq')[0]
    Ta = tref_for(Ts, pla)
    alphabet = w5.v_pieces() if L == 1 else w5.v_pieces2()
    letters = [dict(p, tref=plb) for plb in plbs if v_tref(Ts, plb) != Ta for p in alphabet]
    heads = letters if first is None else [x for x in letters if x['tref'] == first]
    return itertools.product(heads, *([letters] * (L - 1)))


def run_V(R, L, cls_name, N0, pla, hsi, first, tier):
    for steps in v_steps(L, pla, VB[tier][L], first):
        run_merge(R, cls_name, N0, pla, hsi, list(steps))


def run_lib(R, name, only=None):
    lib = libs.load(name)
    for g in sorted(lib.contents, key=str):
        if only is not None and str(g) != only:
            continue
        ps = lib.contents[g]
        if 'thermochem' not in ps:
            continue
        k = ps['thermochem']
        if not k.ND_Cp_data or k.ND_H_ref is None or k.ND_S_ref is None:
            R.outcomes['shipped:no-table-or-reference(skipped here, see C06)'] += 1
            continue
        Ts = sorted(float(t) for t in k.ND_Cp_data)
        Cps = [float(k.ND_Cp_data[t]) for t in sorted(k.ND_Cp_data)]
        rng = k.get_range()
        rng = (float(rng[0]), float(rng[1])) if rng is not None else None
        probs, vals = judge_correlation(k, float(k.ND_H_ref), float(k.ND_S_ref),
                                        Ts, Cps, float(k.T_ref), rng, None)
        R.evals += max(1, len(vals))
        if len(Ts) < 4 or not (Ts[0] < k.T_ref < Ts[-1]):
            R.nontrivial += 1
        R.outcomes['shipped:consistent' if not probs else 'shipped:inconsistent'] += 1
        for chk, detail in probs[:2]:
            R.violation('shipped:%s' % chk, '%s[%s]: %s' % (name, g, detail),
                        dict(kind='lib', lib=name, group=str(g)))


def run_shard(shard, tier):
    R = Result()
    if shard[0] == 'K':
        run_K(R, shard[1], shard[2], shard[3], shard[4], tier)
    elif shard[0] == 'Y':
        run_Y(R, shard[1], shard[2], shard[3], tier)
    elif shard[0] == 'U':
        run_U(R, *shard[1:])
    elif shard[0] == 'D':
        run_D(R, *shard[1:])
    elif shard[0] == 'V':
        run_V(R, *(tuple(shard[1:]) + (tier,)))
    else:
        run_lib(R, shard[1])
    return R


def replay(w):
    R = Result()
    if w['kind'] == 'K':
        d = w['desc']
        tier = 'thorough'
        run_K(R, d['N'], d['spacing'], d['shape'], d['placement'], tier, only=d)
    elif w['kind'] == 'Y':
        d = w['desc']
        run_Y(R, d['N'], d['spacing'], d['placement'], 'thorough', only=d)
    elif w['kind'] == 'U':
        run_history(R, w['cls'], w['N'], w['placement'], w['hs'], w['steps'])
    elif w['kind'] == 'D':
        run_edit(R, w['cls'], w['N'], w['placement'], w['probe'], w['steps'])
    elif w['kind'] == 'V':
        run_merge(R, w['cls'], w['N0'], w['placement'], w['hs'], w['steps'])
    else:
        run_lib(R, w['lib'], only=w['group'])
    return dict(violates=bool(R.violations),
                detail='\n'.join(v['key'] + ': ' + v['msg'] for v in R.violations) or 'holds')
